#!/usr/bin/env python3
"""Developer tool (not a registered check): generic first-order mutation survey of the checker.

For a property Cxx, the mutation domain is the set of rockit functions its rules consult (taken from evidence/Cxx.json,
coverage.functions).  Classic operators are applied one at a time to a scratch copy:
  M1  integer constant c -> c+1 inside subscripts / index arithmetic
  M2  comparison flipped (== <-> !=, < <-> <=, > <-> >=)
  M3  a call statement deleted (-> pass)
  M4  first two positional arguments of a call swapped
  M5  and <-> or
and the property's rules are run on the copy.  A killed mutant = the check noticed.  A survivor is *not* necessarily a
gap (many mutants are irrelevant to the property or equivalent); the list is reading material for new rules.

usage: mutation_survey.py Cxx [max_mutants] [seed]
"""
import ast, json, os, random, shutil, sys, tempfile, time
from multiprocessing import Pool

HERE = os.path.dirname(os.path.dirname(os.path.abspath(__file__)))
sys.path.insert(0, HERE)
sys.setrecursionlimit(20000)
ROOT = os.environ.get("ROCKIT_REPO", "/repo")


def span(n):
    return (n.lineno, n.col_offset, n.end_lineno, n.end_col_offset)


def apply(src, sp, new):
    lines = src.split("\n")
    l0, c0, l1, c1 = sp
    out = (lines[l0 - 1][:c0] + new + lines[l1 - 1][c1:]).split("\n")
    return "\n".join(lines[:l0 - 1] + out + lines[l1:])


FLIP = {ast.Eq: "!=", ast.NotEq: "==", ast.Lt: "<=", ast.LtE: "<", ast.Gt: ">=", ast.GtE: ">"}


def mutants_of(fnode, src):
    doc = ast.get_docstring(fnode)
    for n in ast.walk(fnode):
        if isinstance(n, ast.Subscript):
            for c in ast.walk(n.slice):
                if isinstance(c, ast.Constant) and isinstance(c.value, int) and not isinstance(c.value, bool):
                    yield ("M1", span(c), str(c.value + 1), "index constant %d -> %d in `%s`" % (c.value, c.value + 1, ast.unparse(n)[:50]))
        elif isinstance(n, ast.BinOp) and isinstance(n.op, (ast.Add, ast.Sub)) and isinstance(n.right, ast.Constant) and isinstance(n.right.value, int) \
                and not isinstance(n.right.value, bool) and any(isinstance(x, (ast.Name, ast.Attribute)) for x in ast.walk(n.left)):
            yield ("M1", span(n.right), str(n.right.value + 1), "constant in `%s`" % ast.unparse(n)[:50])
        elif isinstance(n, ast.Compare) and len(n.ops) == 1 and type(n.ops[0]) in FLIP:
            yield ("M2", span(n), "%s %s %s" % (ast.unparse(n.left), FLIP[type(n.ops[0])], ast.unparse(n.comparators[0])), "comparison `%s` flipped" % ast.unparse(n)[:50])
        elif isinstance(n, ast.Expr) and isinstance(n.value, ast.Call) and not (isinstance(n.value.func, ast.Name) and n.value.func.id == "print"):
            yield ("M3", span(n), "pass", "call `%s` deleted" % ast.unparse(n)[:60])
        elif isinstance(n, ast.BoolOp) and len(n.values) == 2:
            op = " or " if isinstance(n.op, ast.And) else " and "
            yield ("M5", span(n), "(" + op.join("(%s)" % ast.unparse(v) for v in n.values) + ")", "`%s`: and/or swapped" % ast.unparse(n)[:50])
        if isinstance(n, ast.Call) and len(n.args) >= 2 and not any(isinstance(a, ast.Starred) for a in n.args[:2]) and ast.unparse(n.args[0]) != ast.unparse(n.args[1]):
            a0, a1 = n.args[0], n.args[1]
            if a0.lineno == a0.end_lineno == a1.lineno == a1.end_lineno:
                yield ("M4", (a0.lineno, a0.col_offset, a1.end_lineno, a1.end_col_offset), "%s, %s" % (ast.unparse(a1), ast.unparse(a0)), "args of `%s` swapped" % ast.unparse(n)[:50])


def run_one(task):
    pid, rel, sp, new, what = task
    from rkverif.core import run_property
    tmp = tempfile.mkdtemp(prefix="rkverif_survey_")
    try:
        shutil.copytree(os.path.join(ROOT, "rockit"), os.path.join(tmp, "rockit"), ignore=shutil.ignore_patterns("__pycache__", "*.pyc"))
        p = os.path.join(tmp, rel)
        src = open(p).read()
        mut = apply(src, sp, new)
        try:
            compile(mut, p, "exec")
        except SyntaxError:
            return what, "invalid", []
        if mut == src:
            return what, "invalid", []
        open(p, "w").write(mut)
        try:
            code, ctx, newf, known = run_property(pid, "quick", 0, root=tmp, write=False, quiet=True)
        except Exception as e:
            return what, "error", [str(e)[:80]]
        return what, {0: "survived", 1: "killed", 2: "analysis-error"}.get(code, "?"), sorted({f.rule for f in newf})[:3]
    finally:
        shutil.rmtree(tmp, ignore_errors=True)


def main():
    pid = sys.argv[1].upper()
    limit = int(sys.argv[2]) if len(sys.argv) > 2 else 200
    seed = int(sys.argv[3]) if len(sys.argv) > 3 else 0
    ev = json.load(open(os.path.join(HERE, "evidence", pid + ".json")))
    wanted = set(ev["coverage"].get("functions", []))
    from rkverif.model import Program
    os.environ["RKVERIF_RAW"] = "1"
    P = Program(ROOT)
    tasks = []
    for f in P.all_functions(include_nested=False):
        if f.qualname not in wanted:
            continue
        src = open(os.path.join(ROOT, f.module.relpath)).read()
        for op, sp, new, what in mutants_of(f.node, src):
            tasks.append((pid, f.module.relpath, sp, new, "%s %s: %s" % (op, f.qualname, what)))
    os.environ.pop("RKVERIF_RAW", None)
    random.Random(seed).shuffle(tasks)
    tasks = tasks[:limit]
    t0 = time.time()
    with Pool(int(os.environ.get("VERIF_JOBS", "14"))) as pool:
        res = pool.map(run_one, tasks, chunksize=1)
    tally = {}
    for what, outcome, rules in res:
        tally.setdefault(outcome, []).append((what, rules))
    n = len(res)
    print("%s: %d mutants over %d consulted functions in %.0fs: %s" % (pid, n, len(wanted), time.time() - t0, {k: len(v) for k, v in sorted(tally.items())}))
    for what, _ in sorted(tally.get("survived", []))[:400]:
        print("  survived:", what)
    for what, r in tally.get("analysis-error", [])[:40]:
        print("  analysis-error:", what)


if __name__ == "__main__":
    main()
