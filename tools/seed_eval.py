#!/usr/bin/env python3
"""Developer tool (not a registered check): import a sub-agent mutant into /verif/seeded/<id>/, confirm it in a
scratch git worktree of /repo (41 baseline tests pass with the change; demo passes without and fails with it),
and record which static checks detect it.

usage: seed_eval.py import <src_dir> <id>        # copy patch.diff, demo.py, meta.json
       seed_eval.py confirm <id> [...]           # runs tests + demo in a scratch worktree (slow)
       seed_eval.py detect [<id> ...]            # runs every claimed check on a patched scratch copy (fast)
"""
import json, os, shutil, subprocess, sys, tempfile

HERE = os.path.dirname(os.path.dirname(os.path.abspath(__file__)))
SEEDED = os.path.join(HERE, "seeded")


def baseline_ids():
    b = json.load(open("/root/.vp/BASELINE.json"))
    out = []
    for t in b["stable_pass"]:
        mod, rest = t.split("::", 1)
        parts = mod.split(".")
        out.append("/".join(parts[:-1]) + ".py::" + parts[-1] + "::" + rest)
    return out


def sh(cmd, cwd=None, env=None, timeout=1800):
    r = subprocess.run(cmd, cwd=cwd, env=env, capture_output=True, text=True, timeout=timeout)
    return r.returncode, (r.stdout + r.stderr)


def do_import(src, sid):
    d = os.path.join(SEEDED, sid)
    os.makedirs(d, exist_ok=True)
    for f in ("patch.diff", "demo.py", "meta.json"):
        shutil.copy(os.path.join(src, f), os.path.join(d, f))
    print("imported", sid)


def confirm(sid):
    d = os.path.join(SEEDED, sid)
    wt = tempfile.mkdtemp(prefix="seedwt_")
    os.rmdir(wt)
    res = {}
    try:
        rc, out = sh(["git", "-C", "/repo", "worktree", "add", "-q", "--detach", wt, "HEAD"])
        assert rc == 0, out
        env = dict(os.environ, PYTHONPATH=wt)
        rc, out = sh(["/venv/bin/python", "-c", "import rockit; print(rockit.__file__)"], cwd=wt, env=env)
        assert wt in out, out
        rc, out = sh(["/venv/bin/python", os.path.join(d, "demo.py")], cwd=wt, env=env)
        res["demo_original_exit"] = rc
        rc, out = sh(["git", "apply", os.path.join(d, "patch.diff")], cwd=wt)
        res["patch_applies"] = (rc == 0)
        if rc != 0:
            res["apply_error"] = out[-500:]
        else:
            rc, out = sh(["/venv/bin/python", "-m", "compileall", "-q", "rockit"], cwd=wt)
            res["compiles"] = (rc == 0)
            rc, out = sh(["/venv/bin/python", os.path.join(d, "demo.py")], cwd=wt, env=env)
            res["demo_mutant_exit"] = rc
            res["demo_mutant_tail"] = out.strip().splitlines()[-3:]
            rc, out = sh(["/venv/bin/python", "-m", "pytest", "-q", "-p", "no:cacheprovider", "-n", "8"] + baseline_ids(), cwd=wt, env=env)
            tail = [l for l in out.strip().splitlines() if "passed" in l or "failed" in l][-1:]
            res["baseline_with_mutant"] = tail[0] if tail else out[-300:]
        res["confirmed"] = bool(res.get("patch_applies") and res.get("compiles") and res.get("demo_original_exit") == 0
                                and res.get("demo_mutant_exit") not in (0, None) and "41 passed" in str(res.get("baseline_with_mutant")) and "failed" not in str(res.get("baseline_with_mutant")))
    finally:
        sh(["git", "-C", "/repo", "worktree", "remove", "--force", wt])
        shutil.rmtree(wt, ignore_errors=True)
    mp = os.path.join(d, "meta.json")
    meta = json.load(open(mp))
    meta["confirmation"] = res
    meta["confirmed_at_repo_commit"] = sh(["git", "-C", "/repo", "rev-parse", "--short", "HEAD"])[1].strip()
    json.dump(meta, open(mp, "w"), indent=1)
    print(sid, "confirmed" if res["confirmed"] else "NOT CONFIRMED", res)
    return res["confirmed"]


def claimed():
    return sorted(f[:-3].upper() for f in os.listdir(os.path.join(HERE, "rkverif", "rules")) if f.startswith("c") and f.endswith(".py"))


def detect(sid, props=None):
    d = os.path.join(SEEDED, sid)
    tmp = tempfile.mkdtemp(prefix="seeddet_")
    try:
        shutil.copytree("/repo/rockit", os.path.join(tmp, "rockit"))
        rc, out = sh(["git", "apply", "--unsafe-paths", "--directory", tmp, os.path.join(d, "patch.diff")], cwd="/")
        if rc != 0:
            rc, out = sh(["patch", "-p1", "-d", tmp, "-i", os.path.join(d, "patch.diff")])
        if rc != 0:
            print(sid, "PATCH DOES NOT APPLY", out[-300:])
            return None
        env = dict(os.environ, ROCKIT_REPO=tmp, RKVERIF_SHARE_PROG="1")
        hits, errs = {}, {}
        code = ("import sys, json; sys.path.insert(0, %r); from rkverif.core import run_property\n"
                "out = {}\n"
                "for pid in %r:\n"
                "    try:\n"
                "        c, ctx, new, known = run_property(pid, write=False, quiet=True)\n"
                "        out[pid] = {'exit': c, 'findings': [f.key for f in new], 'errors': [r + ': ' + m[:200] for r, m in ctx.errors]}\n"
                "    except Exception as e:\n"
                "        out[pid] = {'exit': 2, 'findings': [], 'errors': [str(e)[:200]]}\n"
                "print(json.dumps(out))\n") % (HERE, props or claimed())
        rc, out = sh(["/venv/bin/python", "-I", "-c", code], env=env)
        try:
            res = json.loads(out.strip().splitlines()[-1])
        except Exception:
            print(sid, "DETECT FAILED", out[-500:])
            return None
        det = {p: r["findings"] for p, r in res.items() if r["exit"] == 1}
        err = {p: r["errors"] for p, r in res.items() if r["exit"] == 2}
        mp = os.path.join(d, "meta.json")
        meta = json.load(open(mp))
        meta["detected_by"] = det
        if err:
            meta["analysis_errors"] = err
        else:
            meta.pop("analysis_errors", None)
        json.dump(meta, open(mp, "w"), indent=1)
        own = meta.get("property")
        print("%-8s %s own=%s detected_by=%s%s" % (sid, "DETECTED" if det else "MISSED  ", own in det, {p: v[:2] for p, v in det.items()}, (" ERR=%s" % err) if err else ""))
        return det
    finally:
        shutil.rmtree(tmp, ignore_errors=True)


def import_ref(src, rid):
    d = os.path.join(HERE, "refactors", rid)
    os.makedirs(d, exist_ok=True)
    for f in ("patch.diff", "meta.json"):
        shutil.copy(os.path.join(src, f), os.path.join(d, f))
    print("imported refactor", rid)


def refcheck(rid):
    """Run every check on a scratch copy with the refactoring applied: any exit != 0 is a false alarm."""
    global SEEDED
    d = os.path.join(HERE, "refactors", rid)
    tmp = tempfile.mkdtemp(prefix="refdet_")
    try:
        shutil.copytree("/repo/rockit", os.path.join(tmp, "rockit"))
        rc, out = sh(["patch", "-p1", "-s", "-f", "-d", tmp, "-i", os.path.join(d, "patch.diff")])
        if rc != 0:
            print(rid, "PATCH DOES NOT APPLY", out[-200:])
            return None
        env = dict(os.environ, ROCKIT_REPO=tmp, RKVERIF_SHARE_PROG="1")
        code = ("import sys, json; sys.setrecursionlimit(20000); sys.path.insert(0, %r); from rkverif.core import run_property\n"
                "out = {}\n"
                "for pid in %r:\n"
                "    try:\n"
                "        c, ctx, new, known = run_property(pid, write=False, quiet=True)\n"
                "        out[pid] = {'exit': c, 'findings': [f.key + ' @' + str(f.file) + ':' + str(f.line) for f in new], 'errors': [r + ': ' + m[:300] for r, m in ctx.errors]}\n"
                "    except Exception as e:\n"
                "        out[pid] = {'exit': 2, 'findings': [], 'errors': [str(e)[:300]]}\n"
                "print(json.dumps(out))\n") % (HERE, claimed())
        rc, out = sh(["/venv/bin/python", "-I", "-c", code], env=env)
        res = json.loads(out.strip().splitlines()[-1])
        alarms = {p: r for p, r in res.items() if r["exit"] != 0}
        mp = os.path.join(d, "meta.json")
        meta = json.load(open(mp))
        meta["alarms"] = {p: (r["findings"] or r["errors"]) for p, r in alarms.items()}
        json.dump(meta, open(mp, "w"), indent=1)
        if alarms:
            print("%-8s FALSE ALARM in %s" % (rid, sorted(alarms)))
            for p, r in alarms.items():
                for x in (r["findings"] + r["errors"])[:3]:
                    print("      %s: %s" % (p, x[:260]))
        else:
            print("%-8s silent" % rid)
        return alarms
    finally:
        shutil.rmtree(tmp, ignore_errors=True)


if __name__ == "__main__":
    cmd = sys.argv[1]
    if cmd == "import-ref":
        import_ref(sys.argv[2], sys.argv[3]); sys.exit(0)
    if cmd == "refcheck":
        ids = [r for r in (sys.argv[2:] or sorted(os.listdir(os.path.join(HERE, "refactors")))) if os.path.isdir(os.path.join(HERE, "refactors", r))]
        from multiprocessing.pool import ThreadPool
        with ThreadPool(12) as pool:
            pool.map(refcheck, ids)
        sys.exit(0)
    if cmd == "import":
        do_import(sys.argv[2], sys.argv[3])
    elif cmd == "confirm":
        for sid in sys.argv[2:]:
            confirm(sid)
    elif cmd == "detect":
        ids = [s for s in (sys.argv[2:] or sorted(os.listdir(SEEDED))) if os.path.isdir(os.path.join(SEEDED, s))]
        from multiprocessing.pool import ThreadPool
        with ThreadPool(12) as pool:
            pool.map(detect, ids)
