#!/usr/bin/env python3
"""Developer tool: turn the repairs recorded under 'fixed:' in known_findings.json into regression mutants.

For each repairing commit of /repo whose revert applies on HEAD (scratch worktree, git revert --no-commit) and for which a
triage script notes/triage/D<nn>_*.py exists, seeded/<property>-D<nn>/ is created with patch.diff (= the revert), demo.py
(= the triage script) and meta.json.  They still have to be confirmed (seed_eval.py confirm: 41 tests pass with the revert,
demo exits 0 without and non-zero with it) - unconfirmed ones are reported by that tool and must be removed.
"""
import glob, json, os, re, shutil, subprocess, sys

HERE = os.path.dirname(os.path.dirname(os.path.abspath(__file__)))
# triage scripts that print their observation without an exit code (or need an interactive reading): no regression mutant is made from them
SKIP = {"C04-D8", "C04-D9", "C06-D14", "C06-D6", "C12-D61", "C13-D13", "C15-D4", "C15-D5", "C17-D32", "C17-D67", "C20-D77"}


def sh(cmd, cwd=None):
    r = subprocess.run(cmd, cwd=cwd, capture_output=True, text=True)
    return r.returncode, r.stdout + r.stderr


def main():
    kf = json.load(open(os.path.join(HERE, "known_findings.json")))
    by_commit = {}
    for e in kf["findings"]:
        if e.get("status") == "fixed":
            by_commit.setdefault(e["commit"], []).append(e)
    made = []
    for commit, es in sorted(by_commit.items()):
        e = es[0]
        num = re.sub(r"\D", "", e["defect"].split(",")[0])
        tri = [p for p in glob.glob(os.path.join(HERE, "notes", "triage", "*.py")) if re.match(r"[dD]0*%s(_|\.|[a-z]?_)" % num, os.path.basename(p))]
        sid = "%s-D%s" % (e["property"], num)
        d = os.path.join(HERE, "seeded", sid)
        if os.path.isdir(d) or not tri or sid in SKIP:
            continue
        tri.sort(key=lambda p: (not os.path.basename(p).startswith('D%s_' % num), p))
        wt = "/tmp/regmut_%s" % commit
        sh(["git", "-C", "/repo", "worktree", "remove", "--force", wt])
        rc, out = sh(["git", "-C", "/repo", "worktree", "add", "-q", "--detach", wt, "HEAD"])
        if rc:
            continue
        try:
            rc, out = sh(["git", "revert", "--no-commit", commit], cwd=wt)
            if rc:
                print(sid, "revert conflicts - skipped")
                continue
            rc, diff = sh(["git", "diff", "HEAD", "--", "rockit"], cwd=wt)
            os.makedirs(d)
            open(os.path.join(d, "patch.diff"), "w").write(diff)
            shutil.copy(tri[0], os.path.join(d, "demo.py"))
            rc, files = sh(["git", "diff", "HEAD", "--name-only", "--", "rockit"], cwd=wt)
            meta = {"property": e["property"], "summary": "regression mutant: revert of the repair %s (%s)" % (commit, e["entry"].split(" ", 3)[-1][:300]),
                    "needs": "see demo.py (the triage script of defect %s)" % e["defect"], "clause": "the clause decided by %s" % ", ".join(sorted({x["rule"] for x in es})),
                    "files": files.split(), "function": "", "origin": "revert of fix commit %s" % commit, "also_properties": sorted({x["property"] for x in es})}
            json.dump(meta, open(os.path.join(d, "meta.json"), "w"), indent=1)
            made.append(sid)
        finally:
            sh(["git", "-C", "/repo", "worktree", "remove", "--force", wt])
    print("created:", " ".join(made))


if __name__ == "__main__":
    main()
