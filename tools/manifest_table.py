STRUCT = "decides the structural clauses listed in DESIGN.md section 4.%s for every N, M, degree, grid and decision vector at once (they are necessary conditions of the property: breaking one breaks the behaviour); it does not decide the numerical half of the statement"
NOTE = "trusted: CPython ast; CasADi semantics of Function/substitute/Opti; the receiver typing table of rkverif/model.py; assumes N, M, degree >= 1 and active asserts"

CLAIMED = {
 "C13": {"category": "other", "text": "Typestate/effect analysis: " + STRUCT % "C13" + ". Rules: invalidate-on-edit for every public Stage/Ocp mutator (path-sensitive write-implies-event), reset of the method object before every phase-1 transcription, copy discipline of _transcribe, solver-setting inheritance, @transcribed coverage.",
         "note": NOTE, "technique": "effect sets + path-sensitive must-analysis on structured CFG (ast)"},
}
NOT_APPLICABLE = {}
