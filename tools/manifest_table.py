STRUCT = "decides the structural clauses listed in DESIGN.md section 4.%s for every N, M, degree, grid and decision vector at once (they are necessary conditions of the property: breaking one breaks the behaviour); it does not decide the numerical half of the statement"
NOTE = "trusted: CPython ast; CasADi semantics of Function/substitute/Opti; the receiver typing table of rkverif/model.py; assumes N, M, degree >= 1 and active asserts"

CLAIMED = {
 "C13": {"category": "other", "text": "Typestate/effect analysis: " + STRUCT % "C13" + ". Rules: invalidate-on-edit for every public Stage/Ocp mutator (path-sensitive write-implies-event), reset of the method object before every phase-1 transcription, copy discipline of _transcribe, solver-setting inheritance, @transcribed coverage.",
         "note": NOTE, "technique": "effect sets + path-sensitive must-analysis on structured CFG (ast)"},
 "C06": {"category": "other", "text": "Path/affine analysis: " + STRUCT % "C06" + ". Rules: end points and normalisation of every grid class, integrator grid (M equal steps), coupling constraints placed by every method for every k, min/max bound rows yielded by every grid class for its extreme intervals (three-valued guard evaluation with symbolic k), localisation chain, DT/DT_control from grid differences, no T/N shortcut outside grid classes.",
         "note": NOTE, "technique": "must-yield analysis on structured CFG with symbolic guards + affine normal forms (ast)"},
 "C15": {"category": "other", "text": "Normal-form and exhaustiveness analysis: " + STRUCT % "C15" + ". Rules: certificate time scales are the step of interval k, opcode dispatch exhaustive with raising default, comparison operators relayed faithfully, exact check of the literal power->Bernstein table, placement for every (k,l) in every method, paired substitution lists.",
         "note": NOTE, "technique": "polynomial normal form of expressions + branch exhaustiveness (ast)"},
 "C04": {"category": "other", "text": "Placement-domain analysis: " + STRUCT % "C04" + ". Rules: grid-kind x method coverage (placed or rejected), placement sites with skip conditions evaluated as truth tables, evaluator/index/expression pass-through, IndexError-only drop discipline, shift semantics of next/prev/offset instantiated over nodes x offsets, before/after complementarity, subject_to classification, inventory of every NLP constraint site, store-once/replay-once in OptiWrapper, slot tables of the four evaluators.",
         "note": NOTE, "technique": "loop-context + slot-table extraction, truth tables of extracted guards, constraint-site inventory (ast)"},
}
NOT_APPLICABLE = {}
