STRUCT = "decides the structural clauses listed in DESIGN.md section 4.%s for every N, M, degree, grid and decision vector at once (they are necessary conditions of the property: breaking one breaks the behaviour); it does not decide the numerical half of the statement"
NOTE = "trusted: CPython ast; CasADi semantics of Function/substitute/Opti; the receiver typing table of rkverif/model.py; assumes N, M, degree >= 1 and active asserts"

CLAIMED = {
 "C13": {"category": "other", "text": "Typestate/effect analysis: " + STRUCT % "C13" + ". Rules: invalidate-on-edit for every public Stage/Ocp mutator (path-sensitive write-implies-event), reset of the method object before every phase-1 transcription, copy discipline of _transcribe, solver-setting inheritance, @transcribed coverage.",
         "note": NOTE, "technique": "effect sets + path-sensitive must-analysis on structured CFG (ast)"},
 "C06": {"category": "other", "text": "Path/affine analysis: " + STRUCT % "C06" + ". Rules: end points and normalisation of every grid class, integrator grid (M equal steps), coupling constraints placed by every method for every k, min/max bound rows yielded by every grid class for its extreme intervals (three-valued guard evaluation with symbolic k), localisation chain, DT/DT_control from grid differences, no T/N shortcut outside grid classes.",
         "note": NOTE, "technique": "must-yield analysis on structured CFG with symbolic guards + affine normal forms (ast)"},
 "C15": {"category": "other", "text": "Normal-form and exhaustiveness analysis: " + STRUCT % "C15" + ". Rules: certificate time scales are the step of interval k, opcode dispatch exhaustive with raising default, comparison operators relayed faithfully, exact check of the literal power->Bernstein table, placement for every (k,l) in every method, paired substitution lists.",
         "note": NOTE, "technique": "polynomial normal form of expressions + branch exhaustiveness (ast)"},
 "C04": {"category": "other", "text": "Placement-domain analysis: " + STRUCT % "C04" + ". Rules: grid-kind x method coverage (placed or rejected), placement sites with skip conditions evaluated as truth tables, evaluator/index/expression pass-through, IndexError-only drop discipline, shift semantics of next/prev/offset instantiated over nodes x offsets, before/after complementarity, subject_to classification, inventory of every NLP constraint site, store-once/replay-once in OptiWrapper, slot tables of the four evaluators.",
         "note": NOTE, "technique": "loop-context + slot-table extraction, truth tables of extracted guards, constraint-site inventory (ast)"},
}

def _e(pid, tech, rules):
    return {"category": "other", "text": tech.split(";")[0].capitalize() + ": " + STRUCT % pid + ". Rules: " + rules, "note": NOTE, "technique": tech}

CLAIMED.update({
 "C01": _e("C01", "slot tables + reaching definitions + exact tableau algebra (polynomial normal form) on the ast", "sub-stepping chain in discrete_system, step-map signatures, tableau consistency (c_i = sum a_ij, absolute stage times), interval wiring of F in MS/SS, gap closing against the call of the same interval, per-interval selection, pack order of the p vector (D10 known finding)."),
 "C02": _e("C02", "loop-context + slot-table extraction with affine normal forms (ast)", "helper-state layout, defect equation per (k,i,j) with polynomial derivative / dt_k, step-length provenance, collocation times, continuity via D for every scheme, one set of collocation tables, pack order."),
 "C03": _e("C03", "exact rational Butcher order conditions on the extracted tableau; normal-form comparison of time rescaling (ast)", "order conditions up to 4 for rk and 1 for expl_euler (exact arithmetic), quadrature weights, unit-interval rescaling and p packing of the CasADi-integrator wrapper and of sys_simulator, integral -> quadrature state at tf. The collocation orders and integrator tolerances of the statement are numerical and not decided."),
 "C05": _e("C05", "species/handler coverage + accumulation-shape analysis (ast)", "species x method handler coverage, handler shapes (first/last node, sum over N [+final], left interval-weighted sum), quadrature accumulation per method, objective assembly and hand-over to Opti.minimize, accumulation and invalidation in add_objective, quadrature scaled by the integrator step."),
 "C09": _e("C09", "writer/reader table agreement over the four parameter kinds (ast)", "creation / value transfer / set_value tables agree per kind and index, N resp. N+1 columns, values transferred in phase 1 and 2, set_value write-through, pack order (D10 known finding), horizon evaluated by the common substitution."),
 "C14": _e("C14", "normal-form and source-of-scale analysis (ast)", "scaled constraint rebuild divides lb/expr/ub by the same scale and keeps the sense (all entries infinite for one-sidedness, all constraint types), single un-scaling site, every variable/placement/dynamics constraint carries its own scale, read-back never reads scales, declaration-side scale recording."),
 "C16": _e("C16", "positional pairing + guard dominance + slot tables (ast)", "chain-rule pairing of variables and seeds, control-dependence guard before any return, signal order guard, integrator chain of control(order=k), ODE evaluated at the identity point including time in all three forms."),
 "C20": _e("C20", "guard catalogue with dominance + exception-handler discipline (ast)", "one raising guard per fault x site of the statement (about 40), frozen whitelist of benign handlers with reasons, unplaceable constraint kinds and unsupported inf expressions rejected."),
})

NOT_APPLICABLE = {}
