#!/usr/bin/env python3
"""Developer tool: print the normalised (un-renamed, canonicalised, inlined) source of a function, optionally with a
refactoring/mutant patch applied to a scratch copy.

usage: show_norm.py <Class.method | module.py:function> [refactors/<id> | seeded/<id>] [--findings Cxx]
"""
import ast, os, shutil, subprocess, sys, tempfile

HERE = os.path.dirname(os.path.dirname(os.path.abspath(__file__)))
sys.path.insert(0, HERE)
sys.setrecursionlimit(20000)

qn = sys.argv[1]
patch = sys.argv[2] if len(sys.argv) > 2 and not sys.argv[2].startswith("--") else None
tmp = None
if patch:
    tmp = tempfile.mkdtemp(prefix="shownorm_")
    shutil.copytree("/repo/rockit", os.path.join(tmp, "rockit"))
    subprocess.run(["patch", "-p1", "-s", "-f", "-d", tmp, "-i", os.path.join(HERE, patch, "patch.diff")], check=True)
    os.environ["ROCKIT_REPO"] = tmp
try:
    from rkverif.model import Program
    P = Program()
    print("# normalisation:", getattr(P, "normalisation", None))
    if ":" in qn:
        mod, fn = qn.split(":")
        f = [m for m in P.modules.values() if m.relpath.endswith(mod)][0].functions[fn]
    else:
        c, m = qn.split(".")
        f = P.own_method(c, m)
    print(ast.unparse(f.node))
    if "--findings" in sys.argv:
        from rkverif.core import run_property
        pid = sys.argv[sys.argv.index("--findings") + 1]
        c, ctx, new, known = run_property(pid, write=False, quiet=True)
        for x in new:
            print("FINDING", x.key, "expected=", x.expected, "found=", x.found)
        for r, m in ctx.errors:
            print("ERROR", r, m)
finally:
    if tmp:
        shutil.rmtree(tmp, ignore_errors=True)
