#!/usr/bin/env python3
"""Writes /verif/seeded/INDEX.md and /verif/refactors/INDEX.md from the meta.json files."""
import json, os
HERE = os.path.dirname(os.path.dirname(os.path.abspath(__file__)))
rows = []
for sid in sorted(os.listdir(os.path.join(HERE, "seeded"))):
    mp = os.path.join(HERE, "seeded", sid, "meta.json")
    if not os.path.exists(mp):
        continue
    m = json.load(open(mp))
    det = m.get("detected_by", {})
    rules = sorted({k.split("|")[0] for v in det.values() for k in v})
    conf = m.get("confirmation", {})
    rows.append("| %s | %s | %s | %s | %s | %s |" % (sid, m.get("property"), str(m.get("summary", "")).replace("|", "/").replace("\n", " ")[:230],
                str(m.get("needs", "")).replace("|", "/").replace("\n", " ")[:200], ", ".join(rules), "yes" if conf.get("confirmed") else ("pending" if not conf else "NO")))
with open(os.path.join(HERE, "seeded", "INDEX.md"), "w") as f:
    f.write("# Seeded changes (produced by independent sub-agents that saw only the property text)\n\n"
            "Each directory holds patch.diff (apply with `git -C /repo apply`), demo.py (exits 0 on the original, 1 with the change) and meta.json\n"
            "(summary, what it needs to manifest, confirmation record: baseline 41 passed with the change, demo both ways; detected_by: rule keys per property).\n\n"
            "| id | property | change | needs | rules that fire | confirmed |\n|---|---|---|---|---|---|\n" + "\n".join(rows) + "\n")
rows = []
rd = os.path.join(HERE, "refactors")
for rid in sorted(os.listdir(rd)) if os.path.isdir(rd) else []:
    mp = os.path.join(rd, rid, "meta.json")
    if not os.path.exists(mp):
        continue
    m = json.load(open(mp))
    rows.append("| %s | %s | %s | %s | %s |" % (rid, m.get("kind"), str(m.get("summary", "")).replace("|", "/").replace("\n", " ")[:260], ", ".join(m.get("functions", []))[:120] if isinstance(m.get("functions"), list) else str(m.get("functions"))[:120],
                "silent" if not m.get("alarms") else "ALARM: %s" % sorted(m["alarms"])))
if rows:
    with open(os.path.join(rd, "INDEX.md"), "w") as f:
        f.write("# Behaviour-preserving refactorings (false-alarm probes; every check must stay silent)\n\n| id | kind | change | functions | outcome |\n|---|---|---|---|---|\n" + "\n".join(rows) + "\n")
print(len(rows), "refactors indexed")
