#!/usr/bin/env python3
"""Developer aid: apply one textual replacement to a scratch copy of /repo/rockit and run checks on it.
usage: try_mutation.py <relfile> <old> <new> <Cxx>[,Cyy...]   (scratch copy is removed afterwards)"""
import os, shutil, subprocess, sys, tempfile
rel, old, new, props = sys.argv[1:5]
tmp = tempfile.mkdtemp(prefix="rkmut_")
try:
    shutil.copytree("/repo/rockit", os.path.join(tmp, "rockit"))
    p = os.path.join(tmp, rel)
    s = open(p).read()
    if s.count(old) < 1:
        print("OLD TEXT NOT FOUND"); sys.exit(3)
    s = s.replace(old, new, 1)
    compile(s, p, "exec")
    open(p, "w").write(s)
    env = dict(os.environ, ROCKIT_REPO=tmp)
    for pid in props.split(","):
        r = subprocess.run(["/venv/bin/python", "-I", "-c",
                            "import sys; sys.path.insert(0,'/verif'); from rkverif.core import run_property; c,ctx,new,known=run_property('%s',write=False,quiet=True); print('%s exit',c); [print('  ',f.text()[:300]) for f in new]; [print('  ERR',r,m[:300]) for r,m in ctx.errors]" % (pid, pid)],
                           env=env, capture_output=True, text=True)
        print(r.stdout + r.stderr[-2000:])
finally:
    shutil.rmtree(tmp, ignore_errors=True)
