#!/usr/bin/env python3
"""Regenerates /verif/MANIFEST.json from the table below (kept valid at all times)."""
import json, os, sys
HERE = os.path.dirname(os.path.dirname(os.path.abspath(__file__)))

CLAIMED = {
 # id: (category, text, note, technique)
}
sys.path.insert(0, HERE)
from tools.manifest_table import CLAIMED, NOT_APPLICABLE  # noqa

props = [json.loads(l) for l in open(os.path.join(HERE, "properties.jsonl"))]
ids = [p["id"] for p in props]
checks = []
for pid in ids:
    if pid in CLAIMED:
        c = CLAIMED[pid]
        checks.append({
            "property_id": pid,
            "quick_cmd": "./check %s quick" % pid,
            "thorough_cmd": "./check %s thorough" % pid,
            "evidence_file": "/verif/evidence/%s.json" % pid,
            "replay_cmd_template": "./check %s --replay {path}" % pid,
            "engine": "rkverif",
            "level_claimed": {"category": c["category"], "text": c["text"], "design_ref": "DESIGN.md section 4, %s" % pid},
            "level_note": c["note"],
            "technique": c["technique"],
        })
na = [{"property_id": pid, "reason": NOT_APPLICABLE.get(pid, "check under construction (implementation round in progress); see DESIGN.md section 4")}
      for pid in ids if pid not in CLAIMED]
man = {
 "version": 1,
 "setup_cmd": "/venv/bin/python -m compileall -q rkverif",
 "hooks": {
  "guard": "ROCKIT_VERIF",
  "enable": "none needed: every check reads /repo's source text only (ast); no instrumentation was added to the sources",
  "baseline_off_cmd": "cd /repo && /venv/bin/python -m pytest -ra -q -p no:cacheprovider --timeout=900 --continue-on-collection-errors",
  "source_commits": [],
  "add_only": True
 },
 "engines": [{"name": "rkverif", "path": "/verif/rkverif", "serves_properties": sorted(CLAIMED),
              "kind_free_text": "repository-specific static analyser on Python ast: program model with MRO/call resolution, reaching definitions, polynomial normal form of expressions, structured path engine, effect sets, list-growth/layout interpreter"}],
 "checks": checks,
 "not_applicable": na,
 "notes": "Static analysis only: no check imports rockit or casadi or runs the test-suite. Exit 0 = all obligations discharged (KNOWN-FINDING lines allowed), 1 = VIOLATION, 2 = ANALYSIS-ERROR (anchor vanished). Known findings: /verif/known_findings.json. Fix commits in /repo are unguarded 'fix:' commits (see DESIGN.md section 2)."
}
if not na:
    del man["not_applicable"]
json.dump(man, open(os.path.join(HERE, "MANIFEST.json"), "w"), indent=1)
print("claimed:", sorted(CLAIMED), "not applicable:", [x["property_id"] for x in na])
