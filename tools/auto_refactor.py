#!/usr/bin/env python3
"""Developer tool (not a registered check): mechanical behaviour-preserving rewrites of single functions, as a false-alarm fuzzer.

For every function a property's rules consult (evidence/Cxx.json, coverage.functions) one variant per transformation is made on a
scratch copy of /repo/rockit and the property's rules are run on it.  Every transformation is purely syntactic and preserves
behaviour by construction:
  T1  every local variable of the function (parameters excluded) gets a new name
  T4  every `if c: A else: B` with both branches non-empty becomes `if not c: B else: A`
  T5  `x = a if c else b` (statement level) becomes an if/else statement
  T6  a repeated, never-stored attribute path self.<name> / stage._method is cached in a fresh local at the top of the function
  T7  Base.m(self, ..) -> super().m(..) in a method of a class whose only base is Base
  T8  runs of `self.a = None; self.b = None` -> a setattr loop over a tuple of names
Any alarm is a false alarm of the checker (or a bug of this tool - check the diff it prints).

usage: auto_refactor.py Cxx [T1,T4,..] [max_functions]
"""
import ast, copy, json, os, shutil, sys, tempfile
from multiprocessing import Pool

HERE = os.path.dirname(os.path.dirname(os.path.abspath(__file__)))
sys.path.insert(0, HERE)
sys.setrecursionlimit(20000)
ROOT = os.environ.get("ROCKIT_REPO", "/repo")


def own_bindings(fnode):
    from rkverif.canon import scope_bindings
    return [(n, s) for n, s in scope_bindings(fnode)]


def t1_rename(fnode):
    from rkverif.canon import _AlphaRename, _all_names
    used = _all_names(fnode)
    params = {a.arg for a in fnode.args.posonlyargs + fnode.args.args + fnode.args.kwonlyargs} | ({fnode.args.vararg.arg} if fnode.args.vararg else set()) | ({fnode.args.kwarg.arg} if fnode.args.kwarg else set())
    glob = {n for st in ast.walk(fnode) if isinstance(st, (ast.Global, ast.Nonlocal)) for n in st.names}
    mapping = {}
    for name, sig in own_bindings(fnode):
        if name in params or name in glob or sig == "def" or name.startswith("__"):
            continue
        new = name + "_rn"
        while new in used:
            new += "x"
        mapping[name] = new
    if not mapping:
        return False
    r = _AlphaRename(mapping)
    fnode.body = [r.visit(st) for st in fnode.body]
    return True


class _Swap(ast.NodeTransformer):
    def __init__(self):
        self.n = 0

    def visit_If(self, n):
        self.generic_visit(n)
        if n.body and n.orelse and not (len(n.orelse) == 1 and isinstance(n.orelse[0], ast.If)):
            n.test = ast.UnaryOp(op=ast.Not(), operand=n.test)
            n.body, n.orelse = n.orelse, n.body
            self.n += 1
        return n

    def visit_FunctionDef(self, n):
        return n


def t4_swap(fnode):
    s = _Swap()
    fnode.body = [s.generic_visit(st) if isinstance(st, (ast.FunctionDef,)) else s.visit(st) for st in fnode.body]
    return s.n > 0


class _Unfold(ast.NodeTransformer):
    def __init__(self):
        self.n = 0

    def visit_Assign(self, n):
        if isinstance(n.value, ast.IfExp) and len(n.targets) == 1 and isinstance(n.targets[0], ast.Name):
            self.n += 1
            a = ast.Assign(targets=[copy.deepcopy(n.targets[0])], value=n.value.body)
            b = ast.Assign(targets=[copy.deepcopy(n.targets[0])], value=n.value.orelse)
            return ast.If(test=n.value.test, body=[a], orelse=[b])
        return n

    def visit_FunctionDef(self, n):
        return n


def t5_unfold(fnode):
    u = _Unfold()
    def rec(lst):
        out = []
        for st in lst:
            for fld in ("body", "orelse", "finalbody"):
                if hasattr(st, fld) and isinstance(getattr(st, fld), list) and not isinstance(st, (ast.FunctionDef, ast.ClassDef)):
                    setattr(st, fld, rec(getattr(st, fld)))
            if isinstance(st, ast.Try):
                for h in st.handlers:
                    h.body = rec(h.body)
            out.append(u.visit_Assign(st) if isinstance(st, ast.Assign) else st)
        return out
    fnode.body = rec(fnode.body)
    return u.n > 0


def t6_cache(fnode):
    # attribute paths of depth 1-2 rooted at a parameter, read >= 2 times, never stored to (nor any prefix / extension of them), root never rebound
    params = [a.arg for a in fnode.args.args]
    counts, stored = {}, set()
    for n in ast.walk(fnode):
        if isinstance(n, ast.Attribute):
            txt = ast.unparse(n)
            if isinstance(n.ctx, (ast.Store, ast.Del)):
                stored.add(txt)
            elif txt.count(".") in (1, 2) and txt.split(".")[0] in params and all(p.isidentifier() for p in txt.split(".")):
                counts[txt] = counts.get(txt, 0) + 1
        if isinstance(n, ast.Name) and isinstance(n.ctx, ast.Store):
            stored.add(n.id)
        if isinstance(n, ast.Call) and isinstance(n.func, ast.Attribute) and n.func.attr in ("append", "extend", "insert", "pop", "clear", "update", "remove", "setdefault", "move_to_end"):
            stored.add(ast.unparse(n.func.value))
    cands = [p for p, c in counts.items() if c >= 2 and not any(s == p or s.startswith(p + ".") or p.startswith(s + ".") or s == p.split(".")[0] for s in stored)]
    # paths that are called (methods) stay as they are
    called = {ast.unparse(n.func) for n in ast.walk(fnode) if isinstance(n, ast.Call) and isinstance(n.func, ast.Attribute)}
    cands = [p for p in cands if p not in called and not any(c.startswith(p + ".") for c in called if False)]
    if not cands:
        return False
    path = sorted(cands, key=lambda p: (-counts[p], p))[0]
    local = "cached_" + path.replace(".", "_").strip("_")

    class R(ast.NodeTransformer):
        def visit_Attribute(self, n):
            if ast.unparse(n) == path and isinstance(n.ctx, ast.Load):
                return ast.copy_location(ast.Name(id=local, ctx=ast.Load()), n)
            self.generic_visit(n)
            return n

        def visit_FunctionDef(self, n):
            return n
    r = R()
    body = [r.visit(st) for st in fnode.body]
    doc = 1 if body and isinstance(body[0], ast.Expr) and isinstance(getattr(body[0], "value", None), ast.Constant) and isinstance(body[0].value.value, str) else 0
    # evaluate the path where the original first evaluated it only if that is the very first statement; otherwise skip (exceptions could move)
    first = body[doc] if len(body) > doc else None
    if first is None or local not in {x.id for x in ast.walk(first) if isinstance(x, ast.Name)}:
        return False
    body.insert(doc, ast.Assign(targets=[ast.Name(id=local, ctx=ast.Store())], value=ast.parse(path, mode="eval").body))
    fnode.body = body
    return True


_CUR_CLASS = [None]


def t7_super(fnode):
    """Base.m(self, a, ..) -> super().m(a, ..) inside a method of a class whose only base is Base"""
    cls = _CUR_CLASS[0]
    if cls is None or len(cls.bases) != 1 or not isinstance(cls.bases[0], ast.Name) or not fnode.args.args:
        return False
    base, me = cls.bases[0].id, fnode.args.args[0].arg
    if any(isinstance(d, ast.Name) and d.id in ("staticmethod", "classmethod") for d in fnode.decorator_list):
        return False
    n_ = 0
    for c in ast.walk(fnode):
        if isinstance(c, ast.Call) and isinstance(c.func, ast.Attribute) and isinstance(c.func.value, ast.Name) and c.func.value.id == base \
                and c.args and isinstance(c.args[0], ast.Name) and c.args[0].id == me:
            # only at the top level of the method (super() without arguments does not work in nested functions/comprehensions)
            c.func.value = ast.Call(func=ast.Name(id="super", ctx=ast.Load()), args=[], keywords=[])
            c.args = c.args[1:]
            n_ += 1
    nested = [x for x in ast.walk(fnode) if isinstance(x, (ast.FunctionDef, ast.Lambda, ast.ListComp, ast.GeneratorExp, ast.DictComp, ast.SetComp)) and x is not fnode]
    if any(isinstance(y, ast.Call) and isinstance(y.func, ast.Name) and y.func.id == "super" for x in nested for y in ast.walk(x)):
        return False
    return n_ > 0


def t8_table(fnode):
    """runs of >= 2 consecutive `self.a = CONST` with one immutable constant -> for name in ('a', ..): setattr(self, name, CONST)"""
    if not fnode.args.args:
        return False
    me = fnode.args.args[0].arg
    changed = [0]

    def is_const_assign(st):
        return isinstance(st, ast.Assign) and len(st.targets) == 1 and isinstance(st.targets[0], ast.Attribute) and isinstance(st.targets[0].value, ast.Name) \
            and st.targets[0].value.id == me and isinstance(st.value, ast.Constant) and (st.value.value is None or isinstance(st.value.value, (bool, int, float, str)))

    def rec(lst):
        out, i = [], 0
        while i < len(lst):
            st = lst[i]
            if is_const_assign(st):
                j = i
                while j + 1 < len(lst) and is_const_assign(lst[j + 1]) and ast.dump(lst[j + 1].value) == ast.dump(st.value):
                    j += 1
                if j > i:
                    names = ast.Tuple(elts=[ast.Constant(value=x.targets[0].attr) for x in lst[i:j + 1]], ctx=ast.Load())
                    call = ast.Expr(value=ast.Call(func=ast.Name(id="setattr", ctx=ast.Load()), args=[ast.Name(id=me, ctx=ast.Load()), ast.Name(id="attr_name_", ctx=ast.Load()), st.value], keywords=[]))
                    out.append(ast.For(target=ast.Name(id="attr_name_", ctx=ast.Store()), iter=names, body=[call], orelse=[]))
                    changed[0] += 1
                    i = j + 1
                    continue
            for fld in ("body", "orelse", "finalbody"):
                if hasattr(st, fld) and isinstance(getattr(st, fld), list) and not isinstance(st, (ast.FunctionDef, ast.ClassDef)):
                    setattr(st, fld, rec(getattr(st, fld)))
            out.append(st)
            i += 1
        return out
    fnode.body = rec(fnode.body)
    return changed[0] > 0


def _stmt_lists(fnode):
    """every statement list of the function (not of nested functions/classes)"""
    out = []
    def rec(lst):
        out.append(lst)
        for st in lst:
            if isinstance(st, (ast.FunctionDef, ast.ClassDef)):
                continue
            for fld in ("body", "orelse", "finalbody"):
                if hasattr(st, fld) and isinstance(getattr(st, fld), list):
                    rec(getattr(st, fld))
            if isinstance(st, ast.Try):
                for h in st.handlers:
                    rec(h.body)
    rec(fnode.body)
    return out


def t9_enumerate(fnode):
    """for x in L -> for unused_i_, x in enumerate(L)"""
    n_ = 0
    for lst in _stmt_lists(fnode):
        for st in lst:
            if isinstance(st, ast.For) and not (isinstance(st.iter, ast.Call) and isinstance(st.iter.func, ast.Name) and st.iter.func.id in ("enumerate", "zip", "range")):
                st.target = ast.Tuple(elts=[ast.Name(id="unused_i_", ctx=ast.Store()), st.target], ctx=ast.Store())
                st.iter = ast.Call(func=ast.Name(id="enumerate", ctx=ast.Load()), args=[st.iter], keywords=[])
                n_ += 1
    return n_ > 0


def t10_comp_to_loop(fnode):
    """x = [e for v in L (if c)] at statement level (single generator) -> x = []; for v in L: (if c:) x.append(e)"""
    n_ = 0
    for lst in _stmt_lists(fnode):
        i = 0
        while i < len(lst):
            st = lst[i]
            if isinstance(st, ast.Assign) and len(st.targets) == 1 and isinstance(st.targets[0], ast.Name) and isinstance(st.value, ast.ListComp) and len(st.value.generators) == 1 \
                    and not st.value.generators[0].is_async:
                g = st.value.generators[0]
                x = st.targets[0].id
                # the target must not occur in the comprehension itself
                if not any(isinstance(y, ast.Name) and y.id == x for y in ast.walk(st.value)):
                    app = ast.Expr(value=ast.Call(func=ast.Attribute(value=ast.Name(id=x, ctx=ast.Load()), attr="append", ctx=ast.Load()), args=[st.value.elt], keywords=[]))
                    body = [app]
                    for c in reversed(g.ifs):
                        body = [ast.If(test=c, body=body, orelse=[])]
                    lst[i:i + 1] = [ast.Assign(targets=[ast.Name(id=x, ctx=ast.Store())], value=ast.List(elts=[], ctx=ast.Load())), ast.For(target=g.target, iter=g.iter, body=body, orelse=[])]
                    n_ += 1
                    i += 1
            i += 1
    return n_ > 0


def t12_flip_eq(fnode):
    """x == CONST -> CONST == x (yoda form) in test positions (Python truth values; a symbolic relation is never flipped)"""
    n_ = 0
    simple = lambda e: isinstance(e, (ast.Name, ast.Attribute, ast.Constant))
    tests = [x.test for x in ast.walk(fnode) if isinstance(x, (ast.If, ast.IfExp, ast.While, ast.Assert))]
    for c in [y for t in tests for y in ast.walk(t)]:
        if isinstance(c, ast.Compare) and len(c.ops) == 1 and isinstance(c.ops[0], (ast.Eq, ast.NotEq)) and simple(c.left) and isinstance(c.comparators[0], ast.Constant) and not isinstance(c.left, ast.Constant):
            c.left, c.comparators = c.comparators[0], [c.left]
            n_ += 1
    return n_ > 0


def _always_leaves(body):
    return bool(body) and isinstance(body[-1], (ast.Return, ast.Raise, ast.Continue, ast.Break))


def t13_else_after_return(fnode):
    """if c: ...; return X  <rest>   ->   if c: ...; return X  else: <rest>"""
    n_ = 0
    for lst in _stmt_lists(fnode):
        for i, st in enumerate(lst):
            if isinstance(st, ast.If) and not st.orelse and _always_leaves(st.body) and i + 1 < len(lst):
                st.orelse = lst[i + 1:]
                del lst[i + 1:]
                n_ += 1
                break
    return n_ > 0


def t18_guard_clause(fnode):
    """a function body ending in `if c: A` (no else, A does not end in return) -> `if not c: return` ; A"""
    lst = fnode.body
    if lst and isinstance(lst[-1], ast.If) and not lst[-1].orelse and not any(isinstance(x, (ast.Yield, ast.YieldFrom)) for x in ast.walk(fnode)):
        st = lst[-1]
        lst[-1:] = [ast.If(test=ast.UnaryOp(op=ast.Not(), operand=st.test), body=[ast.Return(value=None)], orelse=[])] + st.body
        return True
    return False


def t19_temp_arg(fnode):
    """f(.., g(x), ..) as an expression statement, first argument that is itself a call -> tmp_arg_ = g(x); f(.., tmp_arg_, ..)  (only when it is the first argument: evaluation order)"""
    n_ = 0
    for lst in _stmt_lists(fnode):
        i = 0
        while i < len(lst):
            st = lst[i]
            if isinstance(st, ast.Expr) and isinstance(st.value, ast.Call) and st.value.args and isinstance(st.value.args[0], ast.Call) and isinstance(st.value.func, (ast.Name, ast.Attribute)) \
                    and all(isinstance(x, (ast.Name, ast.Attribute)) for x in ast.walk(st.value.func) if isinstance(x, ast.expr) and not isinstance(x, ast.expr_context)):
                name = "tmp_arg_%d" % n_
                lst.insert(i, ast.Assign(targets=[ast.Name(id=name, ctx=ast.Store())], value=st.value.args[0]))
                st.value.args[0] = ast.Name(id=name, ctx=ast.Load())
                n_ += 1
                i += 1
            i += 1
    return n_ > 0


TRANSFORMS = {"T9": t9_enumerate, "T10": t10_comp_to_loop, "T12": t12_flip_eq, "T13": t13_else_after_return, "T18": t18_guard_clause, "T19": t19_temp_arg, "T1": t1_rename, "T4": t4_swap, "T5": t5_unfold, "T6": t6_cache, "T7": t7_super, "T8": t8_table}


def run_one(task):
    pid, rel, qual, tname = task
    from rkverif.core import run_property
    tmp = tempfile.mkdtemp(prefix="rkverif_autoref_")
    try:
        shutil.copytree(os.path.join(ROOT, "rockit"), os.path.join(tmp, "rockit"), ignore=shutil.ignore_patterns("__pycache__", "*.pyc"))
        p = os.path.join(tmp, rel)
        src = open(p).read()
        tree = ast.parse(src)
        target = None
        parts = qual.split(".")
        for n in tree.body:
            if len(parts) == 2 and isinstance(n, ast.ClassDef) and n.name == parts[0]:
                for m in n.body:
                    if isinstance(m, ast.FunctionDef) and m.name == parts[1]:
                        target = m
                        _CUR_CLASS[0] = n
            elif len(parts) == 1 and isinstance(n, ast.FunctionDef) and n.name == parts[0]:
                target = n
        if target is None:
            return task, "no-target", []
        before = ast.unparse(target)
        if not TRANSFORMS[tname](target):
            return task, "not-applicable", []
        ast.fix_missing_locations(tree)
        after = ast.unparse(target)
        if before == after:
            return task, "not-applicable", []
        # only the function is rewritten: splice its new text into the original source (keeps every other line as it is)
        lines = src.split("\n")
        orig = [n for n in ast.walk(ast.parse(src)) if isinstance(n, ast.FunctionDef) and n.lineno == target.lineno]
        o = orig[0]
        start = (o.decorator_list[0].lineno if o.decorator_list else o.lineno) - 1
        indent = " " * o.col_offset
        new_text = "\n".join(indent + l if l else l for l in after.split("\n"))
        lines[start:o.end_lineno] = new_text.split("\n")
        out = "\n".join(lines)
        compile(out, p, "exec")
        open(p, "w").write(out)
        try:
            code, ctx, newf, known = run_property(pid, "quick", 0, root=tmp, write=False, quiet=True)
        except Exception as e:
            return task, "error", [str(e)[:120]]
        if code == 0:
            return task, "silent", []
        return task, "ALARM" if code == 1 else "ANALYSIS-ERROR", sorted({f.rule for f in newf})[:4] + [m[:100] for r, m in ctx.errors][:2]
    finally:
        shutil.rmtree(tmp, ignore_errors=True)


def main():
    pid = sys.argv[1].upper()
    tnames = sys.argv[2].split(",") if len(sys.argv) > 2 else sorted(TRANSFORMS)
    limit = int(sys.argv[3]) if len(sys.argv) > 3 else 1000
    ev = json.load(open(os.path.join(HERE, "evidence", pid + ".json")))
    wanted = set(ev["coverage"].get("functions", []))
    from rkverif.model import Program
    os.environ["RKVERIF_RAW"] = "1"
    P = Program(ROOT)
    os.environ.pop("RKVERIF_RAW", None)
    tasks = []
    for f in P.all_functions(include_nested=False):
        if f.qualname in wanted:
            for t in tnames:
                tasks.append((pid, f.module.relpath, f.qualname, t))
    tasks = tasks[:limit]
    with Pool(int(os.environ.get("VERIF_JOBS", "8"))) as pool:
        res = pool.map(run_one, tasks, chunksize=1)
    tally = {}
    for task, outcome, info in res:
        tally[outcome] = tally.get(outcome, 0) + 1
        if outcome not in ("silent", "not-applicable"):
            print("%-14s %s %-45s %s" % (outcome, task[3], task[2], info))
    print(pid, tally)


if __name__ == "__main__":
    main()
