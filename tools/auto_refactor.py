#!/usr/bin/env python3
"""Developer tool (not a registered check): mechanical behaviour-preserving rewrites of single functions, as a false-alarm fuzzer.

For every function a property's rules consult (evidence/Cxx.json, coverage.functions) one variant per transformation is made on a
scratch copy of /repo/rockit and the property's rules are run on it.  Every transformation is purely syntactic and preserves
behaviour by construction:
  T1  every local variable of the function (parameters excluded) gets a new name
  T4  every `if c: A else: B` with both branches non-empty becomes `if not c: B else: A`
  T5  `x = a if c else b` (statement level) becomes an if/else statement
  T6  a repeated, never-stored attribute path self.<name> / stage._method is cached in a fresh local at the top of the function
Any alarm is a false alarm of the checker (or a bug of this tool - check the diff it prints).

usage: auto_refactor.py Cxx [T1,T4,..] [max_functions]
"""
import ast, copy, json, os, shutil, sys, tempfile
from multiprocessing import Pool

HERE = os.path.dirname(os.path.dirname(os.path.abspath(__file__)))
sys.path.insert(0, HERE)
sys.setrecursionlimit(20000)
ROOT = os.environ.get("ROCKIT_REPO", "/repo")


def own_bindings(fnode):
    from rkverif.canon import scope_bindings
    return [(n, s) for n, s in scope_bindings(fnode)]


def t1_rename(fnode):
    from rkverif.canon import _AlphaRename, _all_names
    used = _all_names(fnode)
    params = {a.arg for a in fnode.args.posonlyargs + fnode.args.args + fnode.args.kwonlyargs} | ({fnode.args.vararg.arg} if fnode.args.vararg else set()) | ({fnode.args.kwarg.arg} if fnode.args.kwarg else set())
    glob = {n for st in ast.walk(fnode) if isinstance(st, (ast.Global, ast.Nonlocal)) for n in st.names}
    mapping = {}
    for name, sig in own_bindings(fnode):
        if name in params or name in glob or sig == "def" or name.startswith("__"):
            continue
        new = name + "_rn"
        while new in used:
            new += "x"
        mapping[name] = new
    if not mapping:
        return False
    r = _AlphaRename(mapping)
    fnode.body = [r.visit(st) for st in fnode.body]
    return True


class _Swap(ast.NodeTransformer):
    def __init__(self):
        self.n = 0

    def visit_If(self, n):
        self.generic_visit(n)
        if n.body and n.orelse and not (len(n.orelse) == 1 and isinstance(n.orelse[0], ast.If)):
            n.test = ast.UnaryOp(op=ast.Not(), operand=n.test)
            n.body, n.orelse = n.orelse, n.body
            self.n += 1
        return n

    def visit_FunctionDef(self, n):
        return n


def t4_swap(fnode):
    s = _Swap()
    fnode.body = [s.generic_visit(st) if isinstance(st, (ast.FunctionDef,)) else s.visit(st) for st in fnode.body]
    return s.n > 0


class _Unfold(ast.NodeTransformer):
    def __init__(self):
        self.n = 0

    def visit_Assign(self, n):
        if isinstance(n.value, ast.IfExp) and len(n.targets) == 1 and isinstance(n.targets[0], ast.Name):
            self.n += 1
            a = ast.Assign(targets=[copy.deepcopy(n.targets[0])], value=n.value.body)
            b = ast.Assign(targets=[copy.deepcopy(n.targets[0])], value=n.value.orelse)
            return ast.If(test=n.value.test, body=[a], orelse=[b])
        return n

    def visit_FunctionDef(self, n):
        return n


def t5_unfold(fnode):
    u = _Unfold()
    def rec(lst):
        out = []
        for st in lst:
            for fld in ("body", "orelse", "finalbody"):
                if hasattr(st, fld) and isinstance(getattr(st, fld), list) and not isinstance(st, (ast.FunctionDef, ast.ClassDef)):
                    setattr(st, fld, rec(getattr(st, fld)))
            if isinstance(st, ast.Try):
                for h in st.handlers:
                    h.body = rec(h.body)
            out.append(u.visit_Assign(st) if isinstance(st, ast.Assign) else st)
        return out
    fnode.body = rec(fnode.body)
    return u.n > 0


def t6_cache(fnode):
    # attribute paths of depth 1-2 rooted at a parameter, read >= 2 times, never stored to (nor any prefix / extension of them), root never rebound
    params = [a.arg for a in fnode.args.args]
    counts, stored = {}, set()
    for n in ast.walk(fnode):
        if isinstance(n, ast.Attribute):
            txt = ast.unparse(n)
            if isinstance(n.ctx, (ast.Store, ast.Del)):
                stored.add(txt)
            elif txt.count(".") in (1, 2) and txt.split(".")[0] in params and all(p.isidentifier() for p in txt.split(".")):
                counts[txt] = counts.get(txt, 0) + 1
        if isinstance(n, ast.Name) and isinstance(n.ctx, ast.Store):
            stored.add(n.id)
        if isinstance(n, ast.Call) and isinstance(n.func, ast.Attribute) and n.func.attr in ("append", "extend", "insert", "pop", "clear", "update", "remove", "setdefault", "move_to_end"):
            stored.add(ast.unparse(n.func.value))
    cands = [p for p, c in counts.items() if c >= 2 and not any(s == p or s.startswith(p + ".") or p.startswith(s + ".") or s == p.split(".")[0] for s in stored)]
    # paths that are called (methods) stay as they are
    called = {ast.unparse(n.func) for n in ast.walk(fnode) if isinstance(n, ast.Call) and isinstance(n.func, ast.Attribute)}
    cands = [p for p in cands if p not in called and not any(c.startswith(p + ".") for c in called if False)]
    if not cands:
        return False
    path = sorted(cands, key=lambda p: (-counts[p], p))[0]
    local = "cached_" + path.replace(".", "_").strip("_")

    class R(ast.NodeTransformer):
        def visit_Attribute(self, n):
            if ast.unparse(n) == path and isinstance(n.ctx, ast.Load):
                return ast.copy_location(ast.Name(id=local, ctx=ast.Load()), n)
            self.generic_visit(n)
            return n

        def visit_FunctionDef(self, n):
            return n
    r = R()
    body = [r.visit(st) for st in fnode.body]
    doc = 1 if body and isinstance(body[0], ast.Expr) and isinstance(getattr(body[0], "value", None), ast.Constant) and isinstance(body[0].value.value, str) else 0
    # evaluate the path where the original first evaluated it only if that is the very first statement; otherwise skip (exceptions could move)
    first = body[doc] if len(body) > doc else None
    if first is None or local not in {x.id for x in ast.walk(first) if isinstance(x, ast.Name)}:
        return False
    body.insert(doc, ast.Assign(targets=[ast.Name(id=local, ctx=ast.Store())], value=ast.parse(path, mode="eval").body))
    fnode.body = body
    return True


TRANSFORMS = {"T1": t1_rename, "T4": t4_swap, "T5": t5_unfold, "T6": t6_cache}


def run_one(task):
    pid, rel, qual, tname = task
    from rkverif.core import run_property
    tmp = tempfile.mkdtemp(prefix="rkverif_autoref_")
    try:
        shutil.copytree(os.path.join(ROOT, "rockit"), os.path.join(tmp, "rockit"), ignore=shutil.ignore_patterns("__pycache__", "*.pyc"))
        p = os.path.join(tmp, rel)
        src = open(p).read()
        tree = ast.parse(src)
        target = None
        parts = qual.split(".")
        for n in tree.body:
            if len(parts) == 2 and isinstance(n, ast.ClassDef) and n.name == parts[0]:
                for m in n.body:
                    if isinstance(m, ast.FunctionDef) and m.name == parts[1]:
                        target = m
            elif len(parts) == 1 and isinstance(n, ast.FunctionDef) and n.name == parts[0]:
                target = n
        if target is None:
            return task, "no-target", []
        before = ast.unparse(target)
        if not TRANSFORMS[tname](target):
            return task, "not-applicable", []
        ast.fix_missing_locations(tree)
        after = ast.unparse(target)
        if before == after:
            return task, "not-applicable", []
        # only the function is rewritten: splice its new text into the original source (keeps every other line as it is)
        lines = src.split("\n")
        orig = [n for n in ast.walk(ast.parse(src)) if isinstance(n, ast.FunctionDef) and n.lineno == target.lineno]
        o = orig[0]
        start = (o.decorator_list[0].lineno if o.decorator_list else o.lineno) - 1
        indent = " " * o.col_offset
        new_text = "\n".join(indent + l if l else l for l in after.split("\n"))
        lines[start:o.end_lineno] = new_text.split("\n")
        out = "\n".join(lines)
        compile(out, p, "exec")
        open(p, "w").write(out)
        try:
            code, ctx, newf, known = run_property(pid, "quick", 0, root=tmp, write=False, quiet=True)
        except Exception as e:
            return task, "error", [str(e)[:120]]
        if code == 0:
            return task, "silent", []
        return task, "ALARM" if code == 1 else "ANALYSIS-ERROR", sorted({f.rule for f in newf})[:4] + [m[:100] for r, m in ctx.errors][:2]
    finally:
        shutil.rmtree(tmp, ignore_errors=True)


def main():
    pid = sys.argv[1].upper()
    tnames = sys.argv[2].split(",") if len(sys.argv) > 2 else sorted(TRANSFORMS)
    limit = int(sys.argv[3]) if len(sys.argv) > 3 else 1000
    ev = json.load(open(os.path.join(HERE, "evidence", pid + ".json")))
    wanted = set(ev["coverage"].get("functions", []))
    from rkverif.model import Program
    os.environ["RKVERIF_RAW"] = "1"
    P = Program(ROOT)
    os.environ.pop("RKVERIF_RAW", None)
    tasks = []
    for f in P.all_functions(include_nested=False):
        if f.qualname in wanted:
            for t in tnames:
                tasks.append((pid, f.module.relpath, f.qualname, t))
    tasks = tasks[:limit]
    with Pool(int(os.environ.get("VERIF_JOBS", "8"))) as pool:
        res = pool.map(run_one, tasks, chunksize=1)
    tally = {}
    for task, outcome, info in res:
        tally[outcome] = tally.get(outcome, 0) + 1
        if outcome not in ("silent", "not-applicable"):
            print("%-14s %s %-45s %s" % (outcome, task[3], task[2], info))
    print(pid, tally)


if __name__ == "__main__":
    main()
