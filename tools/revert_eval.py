#!/usr/bin/env python3
"""Developer tool (not a registered check): regression of the 'fixed:' entries of known_findings.json.

For every fixed entry the repairing commit of /repo is reverted in a scratch git worktree (git revert --no-commit; a revert
that conflicts with later commits is reported as 'conflict' and skipped) and the owning property's rules are run on that
tree.  Expected: exit 1 with a finding of the rule named in the entry -- "a fixed entry suppresses nothing: the check reports
the violation again if it ever returns".

usage: revert_eval.py [Dnn ...]
"""
import json, os, subprocess, sys
from multiprocessing import Pool

HERE = os.path.dirname(os.path.dirname(os.path.abspath(__file__)))


def sh(cmd, cwd=None, env=None):
    r = subprocess.run(cmd, cwd=cwd, env=env, capture_output=True, text=True)
    return r.returncode, r.stdout + r.stderr


def one(job):
    commit, entries = job
    wt = "/tmp/revert_%s" % commit
    sh(["git", "-C", "/repo", "worktree", "remove", "--force", wt])
    rc, out = sh(["git", "-C", "/repo", "worktree", "add", "-q", "--detach", wt, "HEAD"])
    if rc:
        return [(commit, e["defect"], e["property"], e["rule"], "worktree-failed", out[-200:]) for e in entries]
    res = []
    try:
        rc, out = sh(["git", "revert", "--no-commit", commit], cwd=wt)
        if rc:
            # later commits touched neighbouring lines: undo the repair with a fuzzy reverse patch instead
            sh(["git", "revert", "--abort"], cwd=wt)
            sh(["git", "checkout", "-q", "--", "."], cwd=wt)
            import subprocess
            diff = subprocess.run(["git", "show", commit, "--", "rockit"], cwd=wt, capture_output=True, text=True).stdout
            pr = subprocess.run(["patch", "-R", "-p1", "-F3", "--no-backup-if-mismatch"], cwd=wt, input=diff, capture_output=True, text=True)
            if pr.returncode:
                return [(commit, e["defect"], e["property"], e["rule"], "conflict", "") for e in entries]
        rc, out = sh(["/venv/bin/python", "-m", "compileall", "-q", "rockit"], cwd=wt)
        if rc:
            return [(commit, e["defect"], e["property"], e["rule"], "does-not-compile", out[-200:]) for e in entries]
        props = sorted({e["property"] for e in entries})
        code = ("import sys, json; sys.path.insert(0, %r); from rkverif.core import run_property\n"
                "out = {}\n"
                "for pid in %r:\n"
                "    try:\n"
                "        c, ctx, new, known = run_property(pid, write=False, quiet=True)\n"
                "        out[pid] = {'exit': c, 'rules': sorted({f.rule for f in new}), 'errors': [r + ': ' + m[:200] for r, m in ctx.errors]}\n"
                "    except Exception as e:\n"
                "        out[pid] = {'exit': 2, 'rules': [], 'errors': [str(e)[:200]]}\n"
                "print(json.dumps(out))\n") % (HERE, props)
        rc, out = sh(["/venv/bin/python", "-I", "-c", code], env=dict(os.environ, ROCKIT_REPO=wt))
        try:
            r = json.loads(out.strip().splitlines()[-1])
        except Exception:
            return [(commit, e["defect"], e["property"], e["rule"], "run-failed", out[-300:]) for e in entries]
        for e in entries:
            pr = r[e["property"]]
            if pr["exit"] == 2:
                res.append((commit, e["defect"], e["property"], e["rule"], "analysis-error", "; ".join(pr["errors"])[:200]))
            elif e["rule"] in pr["rules"]:
                res.append((commit, e["defect"], e["property"], e["rule"], "reported", ",".join(pr["rules"])))
            elif pr["exit"] == 1:
                res.append((commit, e["defect"], e["property"], e["rule"], "reported-by-other-rule", ",".join(pr["rules"])))
            else:
                res.append((commit, e["defect"], e["property"], e["rule"], "SILENT", ""))
        return res
    finally:
        sh(["git", "-C", "/repo", "worktree", "remove", "--force", wt])


def main():
    kf = json.load(open(os.path.join(HERE, "known_findings.json")))
    want = set(sys.argv[1:])
    jobs = {}
    for e in kf["findings"]:
        if e.get("status") == "fixed" and (not want or e["defect"] in want):
            jobs.setdefault(e["commit"], []).append(e)
    with Pool(8) as pool:
        out = pool.map(one, sorted(jobs.items()), chunksize=1)
    rows = sorted((r for rs in out for r in rs), key=lambda r: (int("".join(c for c in r[1] if c.isdigit()) or 0), r[2]))
    tally = {}
    for commit, defect, prop, rule, verdict, extra in rows:
        tally[verdict] = tally.get(verdict, 0) + 1
        print("%-5s %s %s %-7s %-22s %s" % (defect, commit, prop, rule, verdict, extra[:110]))
    print(tally)
    json.dump([dict(zip(("commit", "defect", "property", "rule", "verdict", "detail"), r)) for r in rows], open(os.path.join(HERE, "notes", "revert_eval.json"), "w"), indent=1)


if __name__ == "__main__":
    main()
