#!/bin/sh
# imports finished round-11 mutants (from /tmp/wt12/<Cxx>/_seeded/<n>) and reports detection
for p in "$@"; do
  for n in 1 2 3; do
    d=/tmp/wt12/$p/_seeded/$n
    if [ -f $d/patch.diff ] && [ -f $d/demo.py ] && [ -f $d/meta.json ] && [ ! -d /verif/seeded/$p-r11-$n ]; then
      python3 /verif/tools/seed_eval.py import $d $p-r11-$n >/dev/null
    fi
  done
done
ids=""
for p in "$@"; do for n in 1 2 3; do [ -d /verif/seeded/$p-r11-$n ] && ids="$ids $p-r11-$n"; done; done
[ -n "$ids" ] && python3 /verif/tools/seed_eval.py detect $ids | cut -c1-330
