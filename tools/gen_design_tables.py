#!/usr/bin/env python3
"""Rewrites the generated tables of DESIGN.md (between the SEEDED-TABLE / RULE-TABLE markers) from seeded/*/meta.json
and the rule registry.  Developer tool; not a registered check."""
import json, os, re, sys
HERE = os.path.dirname(os.path.dirname(os.path.abspath(__file__)))
sys.path.insert(0, HERE)


def seeded_table():
    rows = ["| change | property | own check fires with | other checks that also fire |", "|---|---|---|---|"]
    sd = os.path.join(HERE, "seeded")
    for sid in sorted(os.listdir(sd)):
        mp = os.path.join(sd, sid, "meta.json")
        if not os.path.exists(mp):
            continue
        m = json.load(open(mp))
        det = m.get("detected_by", {})
        own = m.get("property")
        own_rules = sorted({k.split("|")[0] for k in det.get(own, [])})
        others = sorted(p for p in det if p != own)
        rows.append("| %s | %s | %s | %s |" % (sid, own, ", ".join(own_rules) or "**missed**", ", ".join(others) or "-"))
    return "\n".join(rows)


def rule_table():
    import importlib
    rows = ["| property | rules (hand-confirmed minimum number of instances) |", "|---|---|"]
    total = 0
    for i in range(1, 21):
        pid = "C%02d" % i
        mod = importlib.import_module("rkverif.rules.c%02d" % i)
        specs = sorted((getattr(v, "_rule") for v in vars(mod).values() if callable(v) and hasattr(v, "_rule") and getattr(v, "__module__", "") == mod.__name__),
                       key=lambda r: [int(x) if x.isdigit() else x for x in re.split(r"(\d+)", r.id)])
        total += len(specs)
        rows.append("| %s | %s |" % (pid, ", ".join("%s (%d)" % (r.id, r.min) for r in specs)))
    rows.append("| all | %d rules |" % total)
    return "\n".join(rows)


def splice(text, name, body):
    b, e = "<!-- %s-BEGIN -->" % name, "<!-- %s-END -->" % name
    if b not in text:
        return text
    return text[:text.index(b) + len(b)] + "\n" + body + "\n" + text[text.index(e):]


p = os.path.join(HERE, "DESIGN.md")
t = open(p).read()
t = splice(t, "SEEDED-TABLE", seeded_table())
try:
    t = splice(t, "RULE-TABLE", rule_table())
except Exception as ex:
    print("rule table skipped:", ex)
open(p, "w").write(t)
print("DESIGN.md tables regenerated")
