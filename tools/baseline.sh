#!/bin/sh
# Runs the 41 stable baseline tests of /repo (or $1) quickly with xdist. Not part of any registered check.
R=${1:-/repo}
IDS=$(python3 -c "
import json
b=json.load(open('/root/.vp/BASELINE.json'))
out=[]
for t in b['stable_pass']:
    mod,rest=t.split('::')
    parts=mod.split('.')
    out.append('/'.join(parts[:-1])+'.py::'+parts[-1]+'::'+rest)
print(' '.join(out))")
cd "$R" && /venv/bin/python -m pytest -q -p no:cacheprovider -n 8 $IDS 2>&1 | tail -5
rm -f "$R"/solver.000000.in.* 2>/dev/null
