#!/bin/sh
# imports finished round-6 refactorings (from /tmp/wt7/<A..H>/_refactors/<n>) and runs every check on them
for a in "$@"; do
  for n in 1 2 3 4 5 6; do
    d=/tmp/wt7/$a/_refactors/$n
    if [ -f $d/patch.diff ] && [ -f $d/meta.json ] && [ ! -d /verif/refactors/R6$a-$n ]; then
      python3 /verif/tools/seed_eval.py import-ref $d R6$a-$n >/dev/null
    fi
  done
done
ids=""
for a in "$@"; do for n in 1 2 3 4 5 6; do [ -d /verif/refactors/R6$a-$n ] && ids="$ids R6$a-$n"; done; done
[ -n "$ids" ] && python3 /verif/tools/seed_eval.py refcheck $ids | cut -c1-300
