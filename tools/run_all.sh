#!/bin/sh
# Developer tool: runs all 40 registered commands on /repo's current tree, validates MANIFEST and the evidence
# files against the schemas, and prints one line per command.  usage: tools/run_all.sh [quick|thorough|both]
cd "$(dirname "$0")/.." || exit 2
which=${1:-both}
fail=0
for t in quick thorough; do
  [ "$which" = both ] || [ "$which" = "$t" ] || continue
  for i in 01 02 03 04 05 06 07 08 09 10 11 12 13 14 15 16 17 18 19 20; do
    out=$(./check C$i $t 2>&1); rc=$?
    n=$(printf '%s\n' "$out" | grep -c '^VIOLATION')
    e=$(printf '%s\n' "$out" | grep -c 'ANALYSIS-ERROR')
    printf 'C%s %-8s exit=%s violations=%s analysis-errors=%s  %s\n' "$i" "$t" "$rc" "$n" "$e" "$(printf '%s\n' "$out" | grep 'obligations' | head -1 | cut -d: -f2-)"
    printf '%s\n' "$out" | grep -E 'missed|alarmed|survived' | grep -vE ' 0 missed.* 0 alarmed' | sed 's/^/      /'
    [ "$rc" = 0 ] && [ "$n" = 0 ] || fail=1
  done
done
python3-vt - <<'PY' || fail=1
import json, jsonschema, glob, sys
ms = json.load(open('/root/.vp/MANIFEST.schema.json')); es = json.load(open('/root/.vp/EVIDENCE.schema.json'))
jsonschema.validate(json.load(open('MANIFEST.json')), ms)
bad = 0
for f in sorted(glob.glob('evidence/C??.json')):
    try:
        jsonschema.validate(json.load(open(f)), es)
    except Exception as e:
        bad += 1; print('EVIDENCE INVALID', f, str(e)[:200])
print('schemas: MANIFEST ok, %d evidence files checked, %d invalid' % (len(glob.glob('evidence/C??.json')), bad))
sys.exit(1 if bad else 0)
PY
[ $fail = 0 ] && echo "ALL CLEAN" || echo "NOT CLEAN"
exit $fail
