#!/bin/sh
# imports finished round-12 mutants (from /tmp/wt13/<Cxx>/_seeded/<n>) and reports detection
for p in "$@"; do
  for n in 1 2 3; do
    d=/tmp/wt13/$p/_seeded/$n
    if [ -f $d/patch.diff ] && [ -f $d/demo.py ] && [ -f $d/meta.json ] && [ ! -d /verif/seeded/$p-r12-$n ]; then
      python3 /verif/tools/seed_eval.py import $d $p-r12-$n >/dev/null
    fi
  done
done
ids=""
for p in "$@"; do for n in 1 2 3; do [ -d /verif/seeded/$p-r12-$n ] && ids="$ids $p-r12-$n"; done; done
[ -n "$ids" ] && python3 /verif/tools/seed_eval.py detect $ids | cut -c1-330
