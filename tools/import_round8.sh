#!/bin/sh
# imports finished round-8 refactorings (from /tmp/wt9/<A..H>/_refactors/<n>) and runs every check on them
for a in "$@"; do
  for n in 1 2 3 4 5 6; do
    d=/tmp/wt9/$a/_refactors/$n
    if [ -f $d/patch.diff ] && [ -f $d/meta.json ] && [ ! -d /verif/refactors/R8$a-$n ]; then
      python3 /verif/tools/seed_eval.py import-ref $d R8$a-$n >/dev/null
    fi
  done
done
ids=""
for a in "$@"; do for n in 1 2 3 4 5 6; do [ -d /verif/refactors/R8$a-$n ] && ids="$ids R8$a-$n"; done; done
[ -n "$ids" ] && python3 /verif/tools/seed_eval.py refcheck $ids | cut -c1-300
