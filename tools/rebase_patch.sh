#!/bin/sh
# Developer tool: re-base seeded/<id>/patch.diff or refactors/<id>/patch.diff onto /repo's HEAD with a 3-way merge in a scratch
# worktree.  Clean merges are written back; conflicts are left in /tmp/rebase_<id> for manual resolution (then: finish).
# usage: rebase_patch.sh <seeded|refactors>/<id> [finish]
d=/verif/$1; id=$(basename $1); wt=/tmp/rebase_$id
if [ "$2" = finish ]; then
  cd $wt || exit 2
  if grep -rl '^<<<<<<< ' rockit; then echo "conflict markers remain in $wt"; exit 1; fi
  git diff HEAD -- rockit > $d/patch.diff && /venv/bin/python -m compileall -q rockit >/dev/null && echo "rebased $id (manual)"
  cd /; git -C /repo worktree remove --force $wt; exit 0
fi
git -C /repo worktree add -q --detach $wt HEAD || exit 2
cd $wt || exit 2
if git apply --3way $d/patch.diff >/tmp/rebase_$id.log 2>&1 && ! git status --short | grep -q '^UU\|^U \|^ U'; then
  git diff HEAD -- rockit > $d/patch.diff; git reset -q; echo "rebased $id (clean)"; cd /; git -C /repo worktree remove --force $wt
else
  echo "CONFLICT $id: resolve in $wt then run: tools/rebase_patch.sh $1 finish"; git status --short | head -5
fi
