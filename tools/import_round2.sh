#!/bin/sh
# imports finished round-2 mutants and reports detection
for p in "$@"; do
  for n in 1 2 3; do
    d=/tmp/wt2/$p/_mutants/$n
    if [ -f $d/patch.diff ] && [ -f $d/demo.py ] && [ -f $d/meta.json ] && [ ! -d /verif/seeded/$p-r2-$n ]; then
      python3 /verif/tools/seed_eval.py import $d $p-r2-$n >/dev/null
    fi
  done
done
ids=""
for p in "$@"; do for n in 1 2 3; do [ -d /verif/seeded/$p-r2-$n ] && ids="$ids $p-r2-$n"; done; done
[ -n "$ids" ] && python3 /verif/tools/seed_eval.py detect $ids | cut -c1-400
