#!/bin/sh
# Developer tool (not a registered check): the whole test directory of /repo with networkx made importable from a scratch
# directory, so that the SplineMethod tests (absent from the 41-test baseline because networkx is not installed) also run.
# Reference on this image: 58 passed, 7 failed (the 7 are in BASELINE.json's always_fail list for unrelated reasons).
[ -d /tmp/nxdeps/networkx ] || /venv/bin/pip install -q --no-index --find-links /opt/veriftools/wheels --target /tmp/nxdeps networkx
cd ${1:-/repo} && PYTHONPATH=$PWD:/tmp/nxdeps timeout 1700 /venv/bin/python -m pytest -q -p no:cacheprovider -n 12 tests 2>&1 | tail -12
rm -f solver.000000.* 2>/dev/null
