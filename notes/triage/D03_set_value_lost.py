from rockit import *
from casadi import *
ocp = Ocp(T=1.0)
x = ocp.state(); u = ocp.control(); p = ocp.parameter()
ocp.set_der(x,u)
ocp.subject_to(ocp.at_t0(x)==p)
ocp.subject_to(-1<=(u<=1))
ocp.add_objective(-ocp.at_tf(x))
ocp.method(MultipleShooting(N=3))
ocp.solver('ipopt',{"ipopt.print_level":0,"print_time":False,"ipopt.sb":"yes"})
ocp.set_value(p, 1)
sol = ocp.solve(); print("p=1: x0 =", sol.sample(x,grid='control')[1][0])
ocp.set_value(p, 2)
sol = ocp.solve(); print("p=2: x0 =", sol.sample(x,grid='control')[1][0])
ocp.method(MultipleShooting(N=4))
sol = ocp.solve(); print("after method change (p should still be 2): x0 =", sol.sample(x,grid='control')[1][0])
# same for set_initial
ocp.set_initial(x, 7)
ocp.method(MultipleShooting(N=2))
ocp._transcribed
print("initial x after method change:", ocp.initial_value(ocp.sample(x,grid='control')[1]))
