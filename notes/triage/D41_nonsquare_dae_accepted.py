"""C02 finding 1: DirectCollocation silently drops algebraic equations when the stage
has no algebraic variable (and never checks #alg equations == #algebraic variables)."""
import sys
pass
import numpy as np
import casadi as ca
from rockit import Ocp, DirectCollocation, MultipleShooting

opts = {"ipopt.print_level": 0, "print_time": False, "ipopt.sb": "yes"}


def build(method):
    ocp = Ocp(T=2.0)
    x = ocp.state()
    u = ocp.control()
    ocp.set_der(x, u)
    ocp.add_alg(x - u)          # algebraic equation, but no ocp.algebraic() declared
    ocp.subject_to(ocp.at_t0(x) == 1)
    ocp.add_objective(ocp.integral(u**2))
    ocp.method(method)
    ocp.solver('ipopt', opts)
    return ocp, x, u

violation = False

# Reference behaviour of another method: loud rejection
try:
    ocp, x, u = build(MultipleShooting(N=2, intg='collocation'))
    ocp.solve()
    print("MultipleShooting: accepted (unexpected)")
except Exception as e:
    print("MultipleShooting: rejected loudly:", str(e).strip().splitlines()[-1][:120])

try:
    ocp, x, u = build(DirectCollocation(N=2, degree=2))
    sol = ocp.solve()
except Exception as e:
    print("DirectCollocation: rejected loudly (fine):", str(e).strip().splitlines()[-1][:120])
    sys.exit(0)

opti = ocp._transcribed.master._method.opti
ts, xs = sol.sample(x, grid='integrator_roots')
_, us = sol.sample(u, grid='control')
print("DirectCollocation: accepted. number of NLP constraints rows:", opti.ng,
      "(4 collocation + 2 continuity + 1 boundary = 7; no row for the 4 algebraic residuals)")
print("x at collocation times:", xs, " u:", us[:-1])
alg_res = np.abs(np.array(xs) - np.repeat(us[:-1], 2))
print("algebraic residual x-u at collocation times:", alg_res)
print("property requires: the algebraic equations vanish at every collocation time (or the input is rejected)")
if np.max(alg_res) > 1e-6:
    violation = True

# second face of the same hole: fewer equations than algebraic variables is accepted too
ocp = Ocp(T=2.0)
x = ocp.state(); u = ocp.control(); z = ocp.algebraic(); z2 = ocp.algebraic()
ocp.set_der(x, u + z)
ocp.add_alg(z - x)              # 1 equation for 2 algebraic variables
ocp.subject_to(ocp.at_t0(x) == 1)
ocp.add_objective(ocp.integral(u**2 + z2**2))
ocp.method(DirectCollocation(N=2, degree=2)); ocp.solver('ipopt', opts)
try:
    ocp.solve()
    print("DAE with 2 algebraic variables and 1 algebraic equation: accepted silently")
    violation = True
except Exception as e:
    print("under-determined DAE rejected:", str(e)[-100:])

sys.exit(1 if violation else 0)
