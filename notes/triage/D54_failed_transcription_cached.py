"""C20 finding 4: an ill-posed specification is rejected by the first ocp.solve(), but the OCP is already
flagged 'transcribed' at that moment (the exception comes from phase 2 of the transcription). A second
ocp.solve() - a retry, a notebook cell run again, a try/except fallback - therefore skips transcription and
hands the half-built NLP (objective missing, constraints truncated) to the solver, which 'succeeds'."""
import sys, os
sys.path.insert(0, os.path.join(os.path.dirname(os.path.abspath(__file__)), '..', '..'))
import casadi as ca
from rockit import Ocp, MultipleShooting, DirectCollocation

opts = {"ipopt.print_level": 0, "print_time": False, "ipopt.sb": "yes"}
violations = 0

def build(Method):
    ocp = Ocp(T=1)
    x = ocp.state(); u = ocp.control()
    ocp.set_der(x, u)
    ocp.subject_to(ocp.at_t0(x) == 0)
    ocp.subject_to(ocp.at_tf(x) == 1)
    ocp.add_objective(ocp.integral(u**2))
    ocp.solver('ipopt', opts)
    ocp.method(Method(N=4))
    return ocp, x, u

foreign = ca.MX.sym('not_part_of_the_ocp')
cases = [
  ("objective uses a symbol that is not part of the OCP", lambda ocp, x, u: ocp.add_objective(foreign)),
  ("objective is a quadrature state (signal-valued)",     lambda ocp, x, u: (lambda q: (ocp.set_der(q, x**2), ocp.add_objective(q)))(ocp.state(quad=True))),
  ("path constraint uses a symbol that is not part of the OCP", lambda ocp, x, u: ocp.subject_to(x <= foreign)),
]
for Method in [MultipleShooting, DirectCollocation]:
    for name, spoil in cases:
        ocp, x, u = build(Method)
        spoil(ocp, x, u)
        ocp.subject_to(u <= 1.2)
        try:
            ocp.solve()
            print("??        %s/%s: first solve accepted" % (Method.__name__, name)); violations += 1
            continue
        except Exception as e:
            first = str(e).splitlines()[0][:70]
        try:
            sol = ocp.solve()          # nothing was changed in between
        except Exception as e:
            print("ok        %s/%s: 1st solve rejected, 2nd solve rejected too (%s)" % (Method.__name__, name, str(e).splitlines()[0][:60]))
            continue
        violations += 1
        opti = ocp._method.opti
        print("VIOLATION %s/%s:" % (Method.__name__, name))
        print("            1st solve: rejected (%s)" % first)
        print("            2nd solve: returns a solution, status %s; NLP has %d constraint rows, objective = %s"
              % (sol.stats["return_status"] if not callable(sol.stats) else sol.stats()["return_status"], opti.ng, str(opti.f)[:40]))

print()
print("Property C20 requires (for every history): the ill-posed OCP raises and no NLP is handed to the solver.")
if violations:
    print("OBSERVED: %d case(s) in which a repeated solve() of the unchanged, ill-posed OCP solved a truncated NLP." % violations)
    sys.exit(1)
print("No violation observed.")
sys.exit(0)
