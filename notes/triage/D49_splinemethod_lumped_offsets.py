"""SplineMethod: a path constraint loses its final-node instance when another path
constraint that uses ocp.next() is declared on the same stage (constraints are lumped)."""
import sys
sys.path.insert(0, '/tmp/nxdeps')
import numpy as np, casadi as ca
from rockit import Ocp, SplineMethod

def build(with_offset_constraint):
    ocp = Ocp(T=1)
    x = ocp.state(); u = ocp.control()
    ocp.set_der(x, u)
    ocp.subject_to(x <= 5)                       # must hold at all N+1 nodes
    if with_offset_constraint:
        ocp.subject_to(ocp.next(x) - x <= 0.3)   # legitimately defined at nodes 0..N-1 only
    ocp.add_objective(ocp.at_tf(x)**2)
    ocp.solver('ipopt', {"ipopt.print_level": 0, "print_time": False})
    ocp.method(SplineMethod(N=4))
    ocp._transcribed
    opti = ocp._method.opti
    f = ca.Function('f', [opti.x], [opti.g, opti.lbg, opti.ubg])
    xv = np.random.RandomState(0).rand(opti.nx) + 0.5
    g, lb, ub = [np.array(e).ravel() for e in f(xv)]
    _, xs = ocp.sample(x, grid='control')
    xs = np.array(ca.Function('s', [opti.x], [xs])(xv)).ravel()
    inst = [g[i] for i in range(len(g)) if ub[i] == 5.0]
    return xs, inst

bad = False
for flag in [False, True]:
    xs, inst = build(flag)
    missing = [k for k in range(len(xs)) if not any(abs(v - xs[k]) < 1e-9 for v in inst)]
    print("second constraint with ocp.next declared:", flag)
    print("   x at the nodes            :", xs)
    print("   instances of 'x<=5' in NLP:", np.array(inst))
    print("   nodes without an instance :", missing, "(required: none)")
    if missing: bad = True
print("VIOLATION: 'x<=5' is not imposed at the final node" if bad else "OK")
sys.exit(1 if bad else 0)
