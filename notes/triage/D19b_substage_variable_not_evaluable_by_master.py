from rockit import *
ocp = Ocp()
s = ocp.stage(t0=0, T=1.0)
x = s.state(); u = s.control(); w = s.variable(); wc = s.variable(grid='control')
s.set_der(x, u)
s.subject_to(s.at_t0(x) == 1)
s.subject_to(w >= 0.3)
s.add_objective(s.integral(u**2) + s.at_tf(x)**2 + w**2 + s.sum(wc**2+1))
s.method(MultipleShooting(N=4))
ocp.add_objective(1e-4)
ocp.solver('ipopt', {"ipopt.print_level": 0, "print_time": False})
sol = ocp.solve()
print("f =", sol.stats["iterations"]["obj"][-1])
print("stage:", sol(s).value(s.objective))
try:
    print("via master:", sol.value(ocp.objective + s.objective))
except Exception as e:
    print("ERR", str(e)[:400])
