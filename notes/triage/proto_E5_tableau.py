import ast, sys
from fractions import Fraction as Fr
src=open('/repo/rockit/sampling_method.py').read()
tree=ast.parse(src)
cls=[n for n in tree.body if isinstance(n,ast.ClassDef) and n.name=='SamplingMethod'][0]
fn={f.name:f for f in cls.body if isinstance(f,ast.FunctionDef)}

# Laurent polynomial in DT: dict exp->Fraction
class L:
    def __init__(s,d=None): s.d={e:c for e,c in (d or {}).items() if c!=0}
    @staticmethod
    def const(c): return L({0:Fr(c)})
    def __add__(a,b):
        d=dict(a.d)
        for e,c in b.d.items(): d[e]=d.get(e,0)+c
        return L(d)
    def __neg__(a): return L({e:-c for e,c in a.d.items()})
    def __mul__(a,b):
        d={}
        for e1,c1 in a.d.items():
            for e2,c2 in b.d.items(): d[e1+e2]=d.get(e1+e2,0)+c1*c2
        return L(d)
    def inv(a):
        assert len(a.d)==1, "division by non-monomial"
        (e,c),=a.d.items(); return L({-e:1/c})
    def __eq__(a,b): return a.d==b.d
    def __repr__(s): return "+".join(f"{c}*DT^{e}" for e,c in sorted(s.d.items())) or "0"
# linear form: dict atom->L ; scalar = form with atom '1'
class F:
    def __init__(s,d=None): s.d={k:v for k,v in (d or {}).items() if v.d}
    @staticmethod
    def scalar(l): return F({'1':l})
    def is_scalar(s): return set(s.d)<= {'1'}
    def sc(s): return s.d.get('1',L())
    def __add__(a,b):
        d=dict(a.d)
        for k,v in b.d.items(): d[k]=d.get(k,L())+v
        return F(d)
    def __neg__(a): return F({k:-v for k,v in a.d.items()})
    def __mul__(a,b):
        if a.is_scalar(): return F({k:v*a.sc() for k,v in b.d.items()})
        if b.is_scalar(): return F({k:v*b.sc() for k,v in a.d.items()})
        raise Exception("nonlinear product")
    def __eq__(a,b): return a.d==b.d
    def __repr__(s): return " + ".join(f"({v})·{k}" for k,v in s.d.items()) or "0"

def analyse(f, params):
    env={p:F({p:L.const(1)}) for p in params}
    stages=[]  # list of dict(args)
    out={}
    def ev(n):
        if isinstance(n,ast.Constant): return F.scalar(L.const(n.value))
        if isinstance(n,ast.Name): return env[n.id]
        if isinstance(n,ast.BinOp):
            a,b=ev(n.left),ev(n.right)
            if isinstance(n.op,ast.Add): return a+b
            if isinstance(n.op,ast.Sub): return a+(-b)
            if isinstance(n.op,ast.Mult): return a*b
            if isinstance(n.op,ast.Div):
                assert b.is_scalar(); return a*F.scalar(b.sc().inv())
            if isinstance(n.op,ast.Pow):
                assert a.is_scalar() and isinstance(n.right,ast.Constant)
                r=F.scalar(L.const(1))
                for _ in range(n.right.value): r=r*a
                return r
        if isinstance(n,ast.UnaryOp) and isinstance(n.op,ast.USub): return -ev(n.operand)
        if isinstance(n,ast.Subscript) and isinstance(n.value,ast.Name) and isinstance(env.get(n.value.id),tuple):
            tag,idx=env[n.value.id]; key=n.slice.value
            return F({f"{key}_{idx}":L.const(1)})
        raise Exception("unsupported "+ast.dump(n)[:80])
    for st in f.body:
        if isinstance(st,ast.Assert): continue
        if isinstance(st,ast.Assign) and isinstance(st.value,ast.Call):
            c=st.value
            fname=ast.unparse(c.func)
            tgt=st.targets[0].id
            if fname=='MX.sym':
                nm=c.args[0].value
                env[tgt]=F.scalar(L({1:Fr(1)})) if nm=='DT' else F({nm:L.const(1)})
                continue
            if fname=='f':
                args={k.arg:ev(k.value) for k in c.keywords}
                stages.append(args); env[tgt]=('stage',len(stages))
                continue
            if fname=='hcat':
                env[tgt]=[ev(e) for e in c.args[0].elts]; continue
        if isinstance(st,ast.Assign):
            env[st.targets[0].id]=ev(st.value); continue
        if isinstance(st,ast.Return):
            c=st.value; outs=c.args[2].elts; names=[e.value for e in c.args[4].elts]
            for nm,e in zip(names,outs):
                try: out[nm]=ev(e) if not (isinstance(e,ast.Name) and isinstance(env.get(e.id),list)) else env[e.id]
                except Exception as ex: out[nm]=('opaque',ast.unparse(e))
    return stages,out
for name in ['intg_rk','intg_expl_euler']:
    stages,out=analyse(fn[name],['X','U','P','Z'])
    print("==",name)
    s=len(stages)
    A=[[Fr(0)]*s for _ in range(s)]; c=[None]*s
    for i,a in enumerate(stages):
        x=a['x']; t=a['t']
        assert x.d.get('X')==L.const(1)
        for k,v in x.d.items():
            if k=='X': continue
            assert k.startswith('ode_') and set(v.d)=={1}
            A[i][int(k[4:])-1]=v.d[1]
        assert t.d.get('t0')==L.const(1)
        c[i]=t.d.get('1',L()).d.get(1,Fr(0))
        assert a['u']==F({'U':L.const(1)}) and a['p']==F({'P':L.const(1)})
    xf=out['xf']; b=[xf.d.get(f'ode_{i+1}',L()).d.get(1,Fr(0)) for i in range(s)]
    print(" A",A," c",c," b",b)
    print(" row sums ok:", all(sum(A[i])==c[i] for i in range(s)))
    S=lambda f: sum(f(i) for i in range(s))
    conds={ 'b':(S(lambda i:b[i]),1), 'bc':(S(lambda i:b[i]*c[i]),Fr(1,2)), 'bc2':(S(lambda i:b[i]*c[i]**2),Fr(1,3)),
      'bAc':(sum(b[i]*A[i][j]*c[j] for i in range(s) for j in range(s)),Fr(1,6)), 'bc3':(S(lambda i:b[i]*c[i]**3),Fr(1,4)),
      'bcAc':(sum(b[i]*c[i]*A[i][j]*c[j] for i in range(s) for j in range(s)),Fr(1,8)),
      'bAc2':(sum(b[i]*A[i][j]*c[j]**2 for i in range(s) for j in range(s)),Fr(1,12)),
      'bAAc':(sum(b[i]*A[i][j]*A[j][k]*c[k] for i in range(s) for j in range(s) for k in range(s)),Fr(1,24))}
    print(" order conds:",{k:(v[0]==v[1]) for k,v in conds.items()})
    pc=out['poly_coeff']
    tot=F()
    for i,ci in enumerate(pc): tot=tot+ci*F.scalar(L({i:Fr(1)}))
    print(" dense: c0==X",pc[0]==F({'X':L.const(1)})," c1==ode_1",pc[1]==F({'ode_1':L.const(1)})," p(DT)==xf",tot==xf)
    qf=out['qf']; pq=out['poly_coeff_q']
    if isinstance(pq,list):
        tot=F()
        for i,ci in enumerate(pq): tot=tot+ci*F.scalar(L({i+1:Fr(1)}))
        print(" quad dense: q(DT)==qf",tot==qf)
    print(" qf",qf)
