"""SplineMethod: include_first=False (include_last=False) combined with ocp.prev (ocp.next) drops
a second, valid instance of the constraint."""
import sys
sys.path.insert(0, '/tmp/nxdeps')
import numpy as np, casadi as ca
from rockit import Ocp, SplineMethod, MultipleShooting

def instances(method, kind):
    ocp = Ocp(T=1)
    x = ocp.state(); u = ocp.control()
    ocp.set_der(x, u)
    if kind == 'prev':
        ocp.subject_to(x - ocp.prev(x) <= 0.3, include_first=False)
    else:
        ocp.subject_to(ocp.next(x) - x <= 0.3, include_last=False)
    ocp.add_objective(ocp.at_tf(x)**2)
    ocp.solver('ipopt', {"ipopt.print_level": 0, "print_time": False})
    ocp.method(method)
    ocp._transcribed
    opti = ocp._method.opti
    f = ca.Function('f', [opti.x], [opti.g, opti.lbg, opti.ubg])
    xv = np.random.RandomState(0).rand(opti.nx) + 0.5
    g, lb, ub = [np.array(e).ravel() for e in f(xv)]
    _, xs = ocp.sample(x, grid='control')
    xs = np.array(ca.Function('s', [opti.x], [xs])(xv)).ravel()
    inst = sorted(g[i] for i in range(len(g)) if ub[i] == 0.3)
    expected = sorted(np.diff(xs))   # x_{k+1}-x_k for k=0..N-1 : all N differences are inside the horizon
    return inst, expected

bad = False
for kind in ['prev', 'next']:
    for m in [MultipleShooting(N=4), SplineMethod(N=4)]:
        inst, exp = instances(m, kind)
        ok = len(inst) == len(exp) and np.allclose(inst, exp)
        print(type(m).__name__, kind, ": instances in NLP", len(inst), " required", len(exp), "->", "ok" if ok else "MISSING INSTANCE")
        if not ok:
            print("    got     ", np.array(inst)); print("    required", np.array(exp)); bad = True
sys.exit(1 if bad else 0)
