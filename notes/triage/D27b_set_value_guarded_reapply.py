"""C13: set_value after a solve leaves initial guesses that were given as expressions of the
parameter (or of the time of a parametric horizon) at their old numerical value.

Path planning around an obstacle: the side on which to pass is chosen through a parameter `side`
that enters only the initial guess  y(t) = side*sin(pi*t/2).
 - reference (fresh OCP, side=-1): x0 of the NLP is -sin(pi*t/2), the optimiser passes below the obstacle
 - evolved OCP (solved once with side=+1, then set_value(side,-1)): same final specification
The property requires the same NLP start point x0 (and hence the same result) for both.
"""
import sys
import numpy as np
import casadi as ca
from rockit import Ocp, MultipleShooting

OPTS = {"ipopt.print_level": 0, "print_time": False, "ipopt.sb": "yes"}
N = 20

def build():
    ocp = Ocp(T=2)
    y = ocp.state()
    u = ocp.control()
    side = ocp.parameter()
    ocp.set_der(y, u)
    ocp.add_objective(ocp.integral(u**2))
    ocp.subject_to(ocp.at_t0(y) == 0)
    ocp.subject_to(ocp.at_tf(y) == 0)
    ocp.subject_to((ocp.t-1)**2 + y**2 >= 0.25)          # obstacle: disc of radius 0.5 around (t,y)=(1,0)
    ocp.set_initial(y, side*ca.sin(ca.pi*ocp.t/2))       # the parameter selects the side to pass
    ocp.method(MultipleShooting(N=N))
    ocp.solver('ipopt', OPTS)
    return ocp, y, side

def nlp_x0(ocp):
    ocp.sample(ocp.x, grid='control')     # make sure the OCP is transcribed (a query, changes nothing)
    opti = ocp._method.opti
    return np.array(opti.debug.value(opti.x, opti.initial())).flatten()

try:
    # reference: freshly written OCP with the final specification
    f, fy, fside = build()
    f.set_value(fside, -1.0)
    x0_fresh = nlp_x0(f)
    y_fresh = f.solve().sample(fy, grid='control')[1]

    # evolved: same declarations, solved once with side=+1, then the parameter is changed
    o, oy, oside = build()
    o.set_value(oside, 1.0)
    o.solve()
    o.set_value(oside, -1.0)
    x0_evolved = nlp_x0(o)
    y_evolved = o.solve().sample(oy, grid='control')[1]
except Exception as e:
    print("library raised:", str(e)[:300])
    sys.exit(0)

# ---- part B: with a DAE in MultipleShooting the stale guess sits in the NLP parameter vector p (Z0)
# and selects the branch of the algebraic equation z^2 = 1+x^2: the constraint function g differs
def build_dae():
    ocp = Ocp(T=1)
    x = ocp.state(); z = ocp.algebraic(); u = ocp.control(); br = ocp.parameter()
    ocp.set_der(x, z+u)
    ocp.add_alg(z**2 - (1+x**2))
    ocp.add_objective(ocp.integral(u**2) + ocp.at_tf(x)**2)
    ocp.subject_to(ocp.at_t0(x) == 0)
    ocp.set_initial(z, br)                 # the parameter selects the branch z = br*sqrt(1+x^2)
    ocp.method(MultipleShooting(N=4, intg='collocation'))
    ocp.solver('ipopt', OPTS)
    return ocp, z, br

def nlp_p(ocp):
    ocp.sample(ocp.x, grid='control')
    opti = ocp._method.opti
    return np.array(opti.debug.value(opti.p, opti.initial())).flatten()

try:
    import io, contextlib
    with contextlib.redirect_stdout(io.StringIO()):   # (the library prints debug lines for algebraic guesses)
        fd, fz, fbr = build_dae(); fd.set_value(fbr, -1.0); p_fresh = nlp_p(fd); z_fresh = fd.solve().sample(fz, grid='control')[1]
        od, oz, obr = build_dae(); od.set_value(obr, 1.0); od.solve(); od.set_value(obr, -1.0); p_evolved = nlp_p(od); z_evolved = od.solve().sample(oz, grid='control')[1]
    print("DAE: NLP parameter vector p fresh  :", p_fresh, " solution z:", np.round(z_fresh, 3))
    print("DAE: NLP parameter vector p evolved:", p_evolved, " solution z:", np.round(z_evolved, 3))
    dae_bad = np.abs(p_fresh-p_evolved).max() > 1e-9
except Exception as e:
    print("DAE part: library raised:", str(e)[:200])
    dae_bad = False

tgrid = np.linspace(0, 2, N+1)
prescribed = -np.sin(np.pi*tgrid/2)          # the guess of the final specification, in closed form
# x0 is ordered [y_0, u_0, y_1, u_1, ..., y_N]
print("guess for y prescribed by the final specification :", np.round(prescribed[:6], 3), "...")
print("x0 (y entries) of the fresh OCP                   :", np.round(x0_fresh[0::2][:6], 3), "...")
print("x0 (y entries) of the evolved OCP                 :", np.round(x0_evolved[0::2][:6], 3), "...")
print("solution y(t=1) fresh   :", round(float(y_fresh[N//2]), 4))
print("solution y(t=1) evolved :", round(float(y_evolved[N//2]), 4))
dx0 = np.abs(x0_fresh-x0_evolved).max()
dsol = np.abs(y_fresh-y_evolved).max()
print("max |x0 fresh - x0 evolved| = %g ; max |y fresh - y evolved| = %g" % (dx0, dsol))
print("property C13 requires: same x0 (both equal to the prescribed guess) and the same solution")
if dx0 > 1e-9 or np.abs(x0_evolved[0::2]-prescribed).max() > 1e-9 or dae_bad:
    print("VIOLATION: set_value after the solve left the parameter-dependent guess at its old value")
    sys.exit(1)
print("ok")
sys.exit(0)
