import sys
from rockit import *
import numpy as np
def start(pre, grid, Meth=MultipleShooting):
    ocp = Ocp(t0=0, T=FreeTime(1.0))
    x = ocp.state(); u = ocp.control()
    ocp.set_der(x, u)
    ocp.add_objective(ocp.T)
    ocp.subject_to(ocp.at_t0(x) == 0); ocp.subject_to(ocp.at_tf(x) == 1); ocp.subject_to(-1 <= (u <= 1))
    ocp.method(Meth(N=4, grid=grid))
    ocp.solver('ipopt', {"ipopt.max_iter": 0, "ipopt.print_level": 0, "print_time": False})
    if not pre:
        try: ocp.solve()
        except Exception: pass
    ocp.set_initial(ocp.T, 2.0)
    ocp.set_initial(x, ocp.t)
    try: ocp.solve()
    except Exception: pass
    ts, xs = ocp.sample(x, grid='control')
    o = ocp._augmented._method.opti
    return np.array(o.debug.value(ts, o.initial())).flatten(), np.array(o.debug.value(xs, o.initial())).flatten()
bad = 0
for name, mk in (("UniformGrid(localize_T)", lambda: UniformGrid(localize_T=True)), ("UniformGrid(localize_t0)", lambda: UniformGrid(localize_t0=True)), ("FreeGrid", lambda: FreeGrid())):
    a, b = start(True, mk()), start(False, mk())
    print(name, "\n  before transcription: t =", np.round(a[0], 3), " x =", np.round(a[1], 3), "\n  after  transcription: t =", np.round(b[0], 3), " x =", np.round(b[1], 3))
    if not (np.allclose(a[0], b[0]) and np.allclose(a[1], b[1])):
        bad = 1
print("FAIL" if bad else "PASS"); sys.exit(bad)
