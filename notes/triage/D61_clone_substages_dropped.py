"""C12 finding 1: clone() silently drops the sub-stages of a template.

A template stage that itself contains a sub-stage is cloned into an Ocp.
Required: the clone is equivalent to declaring the same content directly
(stage + its sub-stage -> same NLP size / same stage tree).
Observed: the clone has no sub-stages; half of the NLP is silently missing.
"""
import sys
sys.path.insert(0, '/tmp/nxdeps')
from rockit import Ocp, Stage, MultipleShooting
OPTS = {"ipopt.print_level": 0, "print_time": False, "ipopt.sb": "yes"}

def leaf(s, x0):
    x = s.state(); u = s.control()
    s.set_der(x, u)
    s.subject_to(s.at_t0(x) == x0)
    s.add_objective(s.integral(u**2 + x**2))
    s.method(MultipleShooting(N=2))
    return x

def size(ocp):
    opti = ocp._transcribed._method.opti
    return opti.x.numel(), opti.g.numel()

# Declared directly: stage with one sub-stage
ocp = Ocp()
a = ocp.stage(T=1); leaf(a, 1)
a1 = a.stage(t0=1, T=2); leaf(a1, 3)
ocp.solver('ipopt', OPTS)
direct = size(ocp)

# Same content as a template, then cloned
tpl = Stage(T=1); leaf(tpl, 1)
t1 = tpl.stage(t0=1, T=2); leaf(t1, 3)
ocp2 = Ocp()
b = ocp2.stage(tpl)
ocp2.solver('ipopt', OPTS)
cloned = size(ocp2)

print("declared directly : (nx, ng) =", direct, " stages in tree:", len(list(ocp.iter_stages())))
print("cloned from template: (nx, ng) =", cloned, " stages in tree:", len(list(ocp2.iter_stages())))
print("template still has", len(tpl._stages), "sub-stage(s); clone has", len(b._stages))
print("required: identical NLP sizes and 2 stages in both trees")
if cloned != direct or len(b._stages) != len(tpl._stages):
    print("VIOLATION: sub-stages of the template were silently dropped by clone()")
    sys.exit(1)
print("no violation")
sys.exit(0)
