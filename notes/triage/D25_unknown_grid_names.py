import sys
from rockit import *
bad = 0
def expect_raise(label, fn):
    global bad
    try:
        fn()
        print("NOT REJECTED:", label); bad = 1
    except Exception as e:
        print("rejected:", label, "->", str(e).split("\n")[0][:70])
def base():
    ocp = Ocp(T=1.0)
    x = ocp.state(); u = ocp.control()
    ocp.set_der(x, u); ocp.subject_to(ocp.at_t0(x) == 0)
    ocp.method(MultipleShooting(N=4)); ocp.solver('ipopt', {"ipopt.print_level": 0, "print_time": False})
    return ocp, x, u
def t_integral():
    ocp, x, u = base(); ocp.add_objective(ocp.integral(u**2, grid='foo')); ocp.solve()
def t_integral2():
    ocp, x, u = base(); ocp.add_objective(ocp.integral(u**2, grid='integrator')); ocp.solve()
def t_sum():
    ocp, x, u = base(); ocp.add_objective(ocp.sum(u**2, grid='foo')); ocp.solve()
def t_var():
    ocp, x, u = base(); v = ocp.variable(grid='foo'); ocp.add_objective(ocp.integral(u**2)); ocp.solve()
def t_par():
    ocp, x, u = base(); p = ocp.parameter(grid='foo'); ocp.add_objective(ocp.integral(u**2)); ocp.solve()
for l, f in (("integral(grid='foo')", t_integral), ("integral(grid='integrator')", t_integral2), ("sum(grid='foo')", t_sum), ("variable(grid='foo')", t_var), ("parameter(grid='foo')", t_par)):
    expect_raise(l, f)
# the valid names still work
ocp, x, u = base()
v = ocp.variable(grid='control'); w = ocp.variable(grid='control', include_last=True); s = ocp.variable(grid='states'); g = ocp.variable(); b = ocp.variable(grid='bspline', order=1)
p = ocp.parameter(grid='control'); ocp.set_value(p, 1); q = ocp.parameter(); ocp.set_value(q, 1)
ocp.add_objective(ocp.integral(u**2) + ocp.integral(u**2, grid='inf') + ocp.sum(u**2) + ocp.sum(u**2, grid='control', include_last=True) + ocp.sum(v**2 + p) + g**2 + q)
ocp.solve(); print("valid names accepted")
print("FAIL" if bad else "PASS"); sys.exit(bad)
