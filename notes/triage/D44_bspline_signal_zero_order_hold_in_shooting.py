"""C03 finding 3: shooting methods (MultipleShooting / SingleShooting, any integrator) freeze a grid='bspline'
signal at its value at the start of each control interval inside the ODE and the quadrature.
The error w.r.t. the declared continuous-time model does not vanish as M grows. DirectCollocation is right."""
import sys
pass; sys.path.insert(0, '/tmp/nxdeps')
import numpy as np, casadi as ca
from rockit import Ocp, MultipleShooting, SingleShooting, DirectCollocation
from rockit.splines.micro_spline import get_greville_points
OPTS = {"ipopt.print_level": 0, "print_time": False, "ipopt.tol": 1e-12, "ipopt.sb": "yes"}
N, T = 4, 2.0

def run(method, order=1):
    ocp = Ocp(t0=0, T=T)
    x = ocp.state()
    p = ocp.parameter(grid='bspline', order=order)
    ocp.set_der(x, -x + p)
    ocp.subject_to(ocp.at_t0(x) == 1)
    I = ocp.integral(p)
    ocp.add_objective(I)
    ocp.solver('ipopt', OPTS)
    ocp.method(method)
    xi = ca.vec(ca.DM(np.linspace(0, 1, N+1))).T
    ocp.set_value(p, np.array(get_greville_points(xi, order)).flatten()*T)   # spline coefficients of p(t) = t
    sol = ocp.solve()
    ts, ps = sol.sample(p, grid='control')
    assert np.allclose(ps, ts)   # the signal itself is p(t)=t
    return float(sol.value(ocp.at_tf(x))), float(sol.value(I))

ex_x, ex_q = T - 1 + 2*np.exp(-T), T**2/2      # x' = -x + t, x(0)=1 ; int_0^T t dt
bad = False
for name, mk in [("DirectCollocation", lambda M: DirectCollocation(N=N, M=M, degree=3)),
                 ("MultipleShooting rk", lambda M: MultipleShooting(N=N, M=M, intg='rk')),
                 ("MultipleShooting cvodes", lambda M: MultipleShooting(N=N, M=M, intg='cvodes')),
                 ("SingleShooting rk", lambda M: SingleShooting(N=N, M=M, intg='rk'))]:
    for M in [1, 4, 32]:
        xf, q = run(mk(M))
        print("%-24s M=%2d  |x(tf) err|=%.3e  |integral(p) err|=%.3e" % (name, M, abs(xf-ex_x), abs(q-ex_q)))
        if M == 32 and (abs(xf-ex_x) > 1e-3 or abs(q-ex_q) > 1e-3):
            bad = True
print("Property requires both errors -> 0 as M grows (exact: x(tf)=%.6f, integral=%.1f)." % (ex_x, ex_q))
if bad:
    print("VIOLATION: shooting methods integrate a zero-order-hold of the bspline signal (integral(p)=1.5 = left Riemann sum on the control grid).")
    sys.exit(1)
print("no violation")
sys.exit(0)
