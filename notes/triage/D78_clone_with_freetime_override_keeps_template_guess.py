"""D78 (C11/C12): ocp.stage(template, T=FreeTime(2)) with a template that carries set_initial(template.T, 3):
the clone's free horizon must start at the guess of its own declaration (2), not at the template's stale guess (3).
Exits 1 when the violation is present."""
import sys
from rockit import *
opts = {"ipopt.print_level": 0, "print_time": False, "ipopt.sb": "yes", "ipopt.max_iter": 0}
bad = False
for label, kw, attr, want in (("T", dict(T=FreeTime(2.0)), "T", 2.0), ("t0", dict(t0=FreeTime(-0.5)), "t0", -0.5), ("T fixed", dict(T=1.5), "T", 1.5)):
    ocp = Ocp()
    tpl = Stage(T=FreeTime(1.0), t0=FreeTime(0.0)) if hasattr(Stage, "__call__") else None
    tpl = Stage(T=FreeTime(1.0), t0=FreeTime(0.0))
    x = tpl.state(); u = tpl.control()
    tpl.set_der(x, u)
    tpl.subject_to(tpl.at_t0(x) == 0)
    tpl.add_objective(tpl.integral(u**2) + (tpl.at_tf(x) - 1)**2)
    tpl.set_initial(tpl.T, 3.0)
    tpl.set_initial(tpl.t0, 0.7)
    tpl.method(MultipleShooting(N=4))
    s = ocp.stage(tpl, **kw)
    ocp.solver('ipopt', opts)
    try:
        ocp.solve()
    except Exception:
        pass
    got = float(ocp.initial_value(ocp.value(getattr(s, attr)))) if hasattr(ocp, "initial_value") else None
    print("clone declared %s=FreeTime(%g): starting value %s (required %g)" % (label, want, got, want))
    if got is None or abs(got - want) > 1e-9:
        bad = True
print("VIOLATION PRESENT" if bad else "no violation")
sys.exit(1 if bad else 0)
