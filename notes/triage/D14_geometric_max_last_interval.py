from rockit import *
from casadi import *
import numpy as np
for loc in [False, True]:
    ocp = Ocp(T=FreeTime(1.0))
    x = ocp.state(); u = ocp.control()
    ocp.set_der(x,u)
    ocp.subject_to(ocp.at_t0(x)==0)
    ocp.subject_to(ocp.at_tf(x)==3)
    ocp.subject_to(-1<=(u<=1))
    ocp.add_objective(ocp.T)
    ocp.method(MultipleShooting(N=3,grid=GeometricGrid(2,local=True,max=0.5,localize_T=loc)))
    ocp.solver('ipopt',{"ipopt.print_level":0,"print_time":False,"ipopt.sb":"yes"})
    sol = ocp.solve()
    ts = sol.sample(x,grid='control')[0]
    print("localize_T",loc,"intervals", np.diff(ts), "(max=0.5 requested)")
