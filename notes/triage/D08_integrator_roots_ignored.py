from rockit import *
from casadi import *
for meth in [MultipleShooting(N=3), SingleShooting(N=3), DirectCollocation(N=3)]:
    ocp = Ocp(T=1.0)
    x = ocp.state(); u = ocp.control()
    ocp.set_der(x,u)
    ocp.subject_to(ocp.at_t0(x)==0)
    ocp.subject_to(-1<=(u<=1))
    ocp.add_objective(-ocp.at_tf(x))
    ocp.method(meth)
    ocp.solver('ipopt',{"ipopt.print_level":0,"print_time":False,"ipopt.sb":"yes"})
    ocp._transcribed; ng0 = ocp._method.opti.ng
    ocp.subject_to(x<=0.3, grid='integrator_roots')
    ocp.method(meth)
    try:
        sol = ocp.solve(); ng1 = ocp._method.opti.ng
        print(type(meth).__name__, "ng before", ng0, "after adding integrator_roots constraint", ng1, "x(tf)=", sol.sample(x,grid='control')[1][-1])
    except Exception as e:
        print(type(meth).__name__, "RAISED", str(e)[:100])
