"""C05 finding 2: a stage cloned from a template keeps referring to the TEMPLATE's inner placeholders
(at_t0/at_tf/sum/integral nested inside another placeholder), so its objective silently uses the other stage's trajectory."""
import sys, os
sys.path.insert(0, os.path.abspath(os.path.join(os.path.dirname(__file__), '..', '..')))
import numpy as np
from rockit import Ocp, MultipleShooting

opts = {"ipopt.print_level": 0, "print_time": False, "ipopt.sb": "yes"}

ocp = Ocp()
s1 = ocp.stage(t0=0, T=1)
x = s1.state(); u = s1.control()
s1.set_der(x, -x+u)
s1.subject_to(-1 <= (u <= 1))
# deviation from the stage's own final value: an at_tf placeholder nested in a sum placeholder
s1.add_objective(s1.sum((x-s1.at_tf(x))**2))
s1.add_objective(s1.integral(u**2, grid='control'))
s1.method(MultipleShooting(N=3))
s2 = ocp.stage(s1, t0=1, T=2)          # clone (template is itself part of the problem)
s2.method(MultipleShooting(N=5))
ocp.subject_to(s1.at_t0(x) == 1)
ocp.subject_to(s2.at_t0(x) == s1.at_tf(x)+1)
ocp.solver('ipopt', opts)
sol = ocp.solve()

f = float(sol.value(ocp._method.opti.f))
t1, x1 = sol(s1).sample(x, grid='control'); _, u1 = sol(s1).sample(u, grid='control')
t2, x2 = sol(s2).sample(x, grid='control'); _, u2 = sol(s2).sample(u, grid='control')
def cost(t, xx, uu, xf): return np.sum((xx[:-1]-xf)**2)+np.sum(np.diff(t)*uu[:-1]**2)
required = cost(t1, x1, u1, x1[-1]) + cost(t2, x2, u2, x2[-1])
wrong    = cost(t1, x1, u1, x1[-1]) + cost(t2, x2, u2, x1[-1])   # stage 2 measured against stage 1's final state
print("NLP objective                                  :", f)
print("sol(s2).value(s2.objective)                    :", float(sol(s2).value(s2.objective)), " (own at_tf would give", cost(t2, x2, u2, x2[-1]), ")")
print("required (each stage w.r.t. its own x(tf))     :", required)
print("value if stage 2 uses stage 1's at_tf(x)       :", wrong)
if abs(f-required) > 1e-8*max(1, abs(required)):
    print("VIOLATION: the cloned stage's objective does not use its own at_tf(x)")
    sys.exit(1)
sys.exit(0)
