"""C11 finding 2: FreeTime(guess) declared through set_T/set_t0 does not start at its guess when an older
set_initial(ocp.T/ocp.t0, ...) is still on record: the stale guess silently wins."""
import sys
import numpy as np
from rockit import Ocp, MultipleShooting, DirectCollocation, FreeTime
opts={"ipopt.print_level":0,"print_time":False,"ipopt.sb":"yes"}
ocp = Ocp(T=FreeTime(2.0), t0=FreeTime(0.5))
x=ocp.state(); u=ocp.control()
ocp.set_der(x,u)
ocp.add_objective(ocp.T+ocp.integral(u**2))
ocp.subject_to(ocp.at_t0(x)==0); ocp.subject_to(ocp.at_tf(x)==1); ocp.subject_to(-1<=(u<=1)); ocp.subject_to(ocp.t0==0.5)
ocp.set_initial(x, ocp.t)
ocp.solver('ipopt',opts); ocp.method(MultipleShooting(N=4))
sol=ocp.solve()
# typical warm start of the first problem
ocp.set_initial(ocp.T, sol.value(ocp.T))
ocp.set_initial(ocp.t0, sol.value(ocp.t0))
ocp.solve()
# now restart from a deliberately different declaration
ocp.set_T(FreeTime(5.0))
ocp.set_t0(FreeTime(3.0))
T0 = float(ocp.initial_value(ocp.value(ocp.T)))
t00 = float(ocp.initial_value(ocp.value(ocp.t0)))
xs = np.array(ocp.initial_value(ocp.sample(x,grid='control')[1])).ravel()
print("starting value of T :", T0, "(declared FreeTime(5.0))")
print("starting value of t0:", t00, "(declared FreeTime(3.0))")
print("guess of x=ocp.t    :", xs, "(required linspace(3,8,5))")
violated = abs(T0-5.0)>1e-9 or abs(t00-3.0)>1e-9
print("property requires the starting value of a FreeTime(guess) horizon to be its guess")
print("VIOLATION PRESENT" if violated else "no violation")
sys.exit(1 if violated else 0)
