import sys
sys.path.insert(0, '/tmp/nxdeps')
from rockit import *
import numpy as np
bad = 0
def run(Meth, rhs_kind):
    ocp = Ocp(T=2.0)
    x = ocp.state(); u = ocp.control(); p = ocp.parameter(); ocp.set_value(p, 1.0)
    rhs = {"u+1": u + 1, "u+p": u + p, "u": u}[rhs_kind]
    ocp.set_der(x, rhs)
    ocp.subject_to(ocp.at_t0(x) == 0); ocp.subject_to(ocp.at_tf(x) == 3)
    ocp.add_objective(ocp.sum(u**2, include_last=True))
    ocp.method(Meth(N=4))
    ocp.solver('ipopt', {"ipopt.print_level": 0, "print_time": False})
    sol = ocp.solve()
    return np.array(sol.sample(u, grid="control")[1]).flatten()[1]
for kind in ("u+1", "u+p"):
    ref = run(MultipleShooting, kind)
    try:
        got = run(SplineMethod, kind)
        print("x' = %s: MultipleShooting u = %.3f, SplineMethod u = %.3f" % (kind, ref, got))
        if abs(ref - got) > 1e-6: bad = 1
    except Exception as e:
        print("x' = %s: SplineMethod rejects: %s" % (kind, str(e).split("\n")[0][:80]))
print("x' = u: SplineMethod u = %.3f (must still work)" % run(SplineMethod, "u"))
print("FAIL" if bad else "PASS"); sys.exit(bad)
