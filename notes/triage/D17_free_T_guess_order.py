from rockit import *
import numpy as np
def build(pre):
    ocp = Ocp(T=FreeTime(1.0))
    x = ocp.state(); u = ocp.control()
    ocp.set_der(x, u)
    ocp.add_objective(ocp.T)
    ocp.subject_to(ocp.at_t0(x)==0)
    ocp.subject_to(ocp.at_tf(x)==1)
    ocp.subject_to(-1<=(u<=1))
    ocp.method(MultipleShooting(N=4))
    ocp.solver('ipopt', {"ipopt.max_iter":0, "ipopt.print_level":0, "print_time":False})
    if pre:
        ocp.set_initial(ocp.T, 4.0)
        ocp.set_initial(x, ocp.t)
    else:
        try: ocp.solve()
        except Exception: pass
        ocp.set_initial(ocp.T, 4.0)
        ocp.set_initial(x, ocp.t)
    try: ocp.solve()
    except Exception: pass
    ts, xs = ocp.sample(x, grid='control')
    o = ocp._augmented._method.opti
    print("pre" if pre else "post", "T0=", o.debug.value(ocp._augmented._method.T, o.initial()), "x0=", o.debug.value(xs, o.initial()))
build(True); build(False)
