"""C12 finding 4: clones share the template's _meta/_scale/_catalog dictionaries.

Required: a clone leaves the template unchanged and is independent of its siblings.
Observed: - declaring a new state on one clone registers it in the template and in every sibling;
          - a sibling (and the template) then ACCEPT set_initial() for that foreign state and silently drop it
            (directly declared stages reject it with "unknown symbol");
          - registering one external symbol in two siblings with different attributes (scale/domain)
            makes the second registration overwrite the first sibling's attributes.
"""
import sys
sys.path.insert(0, '/tmp/nxdeps')
import numpy as np
from casadi import MX
from rockit import Ocp, Stage, MultipleShooting
OPTS = {"ipopt.print_level": 0, "print_time": False, "ipopt.sb": "yes"}

def content(s):
    x = s.state(); u = s.control()
    s.set_der(x, u); s.subject_to(s.at_t0(x) == 0)
    s.add_objective(s.integral(u**2) + s.at_tf(x)**2)
    s.method(MultipleShooting(N=2))
    return x, u

violation = False
tpl = Stage(T=1); x, u = content(tpl)
n_before = len(tpl._meta)
B = Ocp(); b1 = B.stage(tpl); b2 = B.stage(tpl, t0=1); B.solver('ipopt', OPTS)
y = b1.state(); b1.set_der(y, x)          # only stage b1 has y
print("template bookkeeping entries before/after a state was added to clone b1:", n_before, "->", len(tpl._meta))
if len(tpl._meta) != n_before:
    print("VIOLATION: the template was modified by its clone"); violation = True

for st, name in [(b2, "sibling clone"), (tpl, "template")]:
    try:
        st.set_initial(y, 3.0)
        print(name, ": set_initial(<state of another stage>) ACCEPTED (and silently ignored)")
        violation = True
    except Exception as e:
        print(name, ": rejected:", str(e)[:70])

# reference behaviour of directly declared stages
A = Ocp(); a1 = A.stage(T=1); content(a1); a2 = A.stage(T=1, t0=1); content(a2)
ya = a1.state(); a1.set_der(ya, a1.states[0])
try:
    a2.set_initial(ya, 3.0); print("directly declared sibling: accepted")
except Exception as e:
    print("directly declared sibling: rejected (required behaviour):", str(e)[:70])

# attributes of one symbol registered in two siblings
v = MX.sym('v')
b1.register_variable(v, scale=10, domain='integer')
s1_before = (float(b1._scale[v]), b1._catalog[v]['domain'])
b2.register_variable(v)                   # default scale=1, domain='real'
s1_after = (float(b1._scale[v]), b1._catalog[v]['domain'])
print("b1's (scale, domain) of v before/after sibling b2 registered the same symbol:", s1_before, "->", s1_after)
if s1_before != s1_after:
    print("VIOLATION: sibling registration overwrote b1's variable attributes (integer variable became real)")
    violation = True
sys.exit(1 if violation else 0)
