"""C04 / finding 2: subject_to(..., include_last="auto") is documented as
   '"auto" mode will only enforce the constraint if it is not dependent on a control signal'
but MultipleShooting / SingleShooting / DirectCollocation treat the string as True: a constraint that depends on a
control is also imposed at tf, with the control of the last interval.

x' = u, x(0)=0, T=2, N=2 (every method integrates this exactly), u >= 0, maximise x(T)
path constraint   x + 2u <= 1   with include_last="auto"   (depends on u  ->  not to be imposed at tf)
   instances k=0: 2 u0 <= 1 ;  k=1: u0 + 2 u1 <= 1          ->  max u0+u1 = 0.75   (u = 0.5, 0.25)
   with the extra instance at tf:  (u0+u1) + 2 u1 <= 1      ->  max u0+u1 = 2/3
"""
import sys
from rockit import Ocp, MultipleShooting, SingleShooting, DirectCollocation
OPTS = {"ipopt.print_level": 0, "print_time": False, "ipopt.sb": "yes", "ipopt.tol": 1e-10}

def build(method, include_last):
    ocp = Ocp(t0=0, T=2)
    x = ocp.state(); u = ocp.control()
    ocp.set_der(x, u)
    ocp.subject_to(ocp.at_t0(x) == 0)
    ocp.subject_to(u >= 0, include_last=False)
    ocp.subject_to(x + 2*u <= 1, include_last=include_last)
    ocp.add_objective(-ocp.at_tf(x))
    ocp.solver('ipopt', OPTS)
    ocp.method(method)
    return ocp, x

violated = False
try:
    for name, mf in [("MultipleShooting", lambda: MultipleShooting(N=2)), ("SingleShooting", lambda: SingleShooting(N=2)),
                     ("DirectCollocation", lambda: DirectCollocation(N=2, degree=2))]:
        res = {}
        rows = {}
        for il in ["auto", False, True]:
            ocp, x = build(mf(), il)
            sol = ocp.solve()
            res[il] = float(sol.value(ocp.at_tf(x)))
            rows[il] = ocp.jacobian().shape[0]
        bad = abs(res["auto"] - 0.75) > 1e-5
        violated = violated or bad
        print("%-18s x(T)*: include_last='auto' %.6f | False %.6f | True %.6f ; NLP rows: 'auto' %d, False %d, True %d"
              % (name, res["auto"], res[False], res[True], rows["auto"], rows[False], rows[True]))
        print("   property/docstring: 'auto' on a constraint that depends on u == include_last=False: 0.750000, %d rows  -> %s"
              % (rows[False], "VIOLATION" if bad else "ok"))
except Exception as e:
    print("library raised:", str(e)[:300]); sys.exit(0)
sys.exit(1 if violated else 0)
