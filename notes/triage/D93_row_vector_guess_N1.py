"""
C10 violation: with N=1, a constant guess for a row-vector-valued (1-by-m) state or control is taken
apart column by column: entry j of the guess is broadcast over the whole symbol at node j.

Reference: the property itself ("constants everywhere"), and the very same OCP with N=2, where the
guess arrives intact.
"""
import sys
import numpy as np
import casadi as ca
from rockit import Ocp, MultipleShooting, SingleShooting, DirectCollocation

opts = {"ipopt.print_level": 0, "print_time": False, "ipopt.sb": "yes"}
G = ca.DM([[1, 2, 3]])          # guess for a 1-by-3 symbol


def start(method, kind, when):
    ocp = Ocp(T=2)
    ocp.solver('ipopt', opts)
    ocp.method(method)
    X = ocp.state(1, 3)
    rhs = -X
    if kind == 'control':
        U = ocp.control(1, 3)
        rhs = rhs + U
    ocp.set_der(X, rhs)
    ocp.add_objective(ocp.integral(ca.sumsqr(X)))
    s = X if kind == 'state' else U
    if when == 'after':
        ocp.sample(X, grid='control')
    ocp.set_initial(s, G)
    grid = 'control' if kind == 'state' else 'control-'
    r = np.array(ocp.initial_value(ocp.sample(s, grid=grid)[1])).reshape(1, -1)
    return r.reshape(-1, 3)        # one row per node / interval


bad = False
for name, mf in [("MultipleShooting", MultipleShooting), ("SingleShooting", SingleShooting), ("DirectCollocation", DirectCollocation)]:
    for kind in ['state', 'control']:
        for when in ['before', 'after']:
            try:
                ref = start(mf(N=2), kind, when)
                obs = start(mf(N=1), kind, when)
            except Exception as e:
                print(name, kind, when, ": library rejected the input:", str(e).replace("\n", " ")[-120:])
                continue
            if name == "SingleShooting" and kind == 'state':
                ref = ref[:1]; obs = obs[:1]          # only the initial state is a decision variable
            assert np.allclose(ref, np.tile([1, 2, 3], (ref.shape[0], 1)))
            ok = np.allclose(obs, np.tile([1, 2, 3], (obs.shape[0], 1)))
            print("%-17s 1x3 %-7s guess [1,2,3] given %-6s transcription: N=2 start %s | N=1 start %s -> %s"
                  % (name, kind, when, ref.tolist(), obs.tolist(), "ok" if ok else "VIOLATION (required [1,2,3] at every node)"))
            if not ok:
                bad = True
if bad:
    print("\nC10: 'the starting value of every decision variable ... equals the guess: constants everywhere'.")
    sys.exit(1)
print("no violation")
sys.exit(0)
