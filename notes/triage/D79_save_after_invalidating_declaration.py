"""D79 (C18): solve, then change the declaration (subject_to / set_T / add_objective ...), then save.
The change withdraws the transcribed flag but the method objects keep their Opti-bound state; Ocp.save() un-transcribes only
when the flag is set, so it pickles a live Opti and raises "Opti cannot be serialized".  Required: saving works after any history.
Exits 1 when the violation is present."""
import sys, os, tempfile
from rockit import *
opts = {"ipopt.print_level": 0, "print_time": False, "ipopt.sb": "yes"}
bad = False
for label, method in (("MultipleShooting", lambda: MultipleShooting(N=4)), ("DirectCollocation", lambda: DirectCollocation(N=4)), ("SplineMethod", lambda: SplineMethod(N=4))):
    ocp = Ocp(T=1.0)
    x = ocp.state(); u = ocp.control(order=1) if label == "SplineMethod" else ocp.control()
    ocp.set_der(x, u)
    ocp.subject_to(ocp.at_t0(x) == 0)
    ocp.add_objective(ocp.integral(u**2) + (ocp.at_tf(x) - 1)**2)
    ocp.method(method())
    ocp.solver('ipopt', opts)
    try:
        ocp.solve()
    except Exception as e:
        print(label, "solve failed:", str(e)[:80]); continue
    ocp.subject_to(-10 <= (u <= 10))          # a declaration after the solve: invalidates the transcription
    fn = os.path.join(tempfile.mkdtemp(), "a.rockit")
    try:
        ocp.save(fn)
        ocp2 = Ocp.load(fn)
        ocp2.solve()
        ocp.solve()
        print(label, "save after solve+subject_to: ok")
    except Exception as e:
        print(label, "save after solve+subject_to raises:", str(e)[:100])
        bad = True
print("VIOLATION PRESENT" if bad else "no violation")
sys.exit(1 if bad else 0)
