from rockit import *
import numpy as np
from casadi import *
def run(f, label):
    ocp = Ocp(T=1.0)
    x = ocp.state(); 
    u = ocp.control()
    ocp.set_der(x, u)
    ocp.subject_to(ocp.at_t0(x)==0)
    ocp.subject_to(f(x)<=0.5, grid='inf')
    ocp.subject_to(-10<=(u<=10))
    ocp.add_objective(-ocp.integral(x))
    ocp.method(MultipleShooting(N=2, M=1, intg='rk'))
    ocp.solver('ipopt',{"ipopt.print_level":0,"print_time":False,"ipopt.sb":"yes"})
    try:
        ocp._transcribed
        opti = ocp._method.opti
        print(label, "TRANSCRIBED ng=",opti.ng)
        pass
    except Exception as e:
        print(label, "RAISED", type(e).__name__, str(e)[:150])
run(lambda x: sin(x), "sin")
run(lambda x: x/3+1, "div")
run(lambda x: 2*x*x - x, "poly")
run(lambda x: x**3, "cube")
run(lambda x: exp(x)+x, "exp+x")
