"""C17 finding 2: with FreeGrid (unprescribed control-interval lengths) a grid='bspline'
variable/parameter is built on UNIFORM knots in normalised time, not on the knots of the
actual control grid. Refined samples do not equal the Cox-de Boor evaluation of the
coefficients on the control-grid knots (the signal is not even C^1 at the knots)."""
import sys
import numpy as np, casadi as ca
from scipy.interpolate import BSpline
from rockit import Ocp, DirectCollocation, MultipleShooting, FreeGrid

def run(Method):
    N, d, T = 4, 2, 2.0
    ocp = Ocp(t0=0, T=T)
    x = ocp.state(); u = ocp.control(); ocp.set_der(x, u)
    w = ocp.variable(grid='bspline', order=d)
    tgt = ocp.parameter(grid='control', include_last=True)       # pulls the free grid to a non-uniform one
    ocp.set_value(tgt, T*np.array([0, 0.1, 0.3, 0.6, 1.0]))
    ocp.add_objective(ocp.sum((ocp.t-tgt)**2, include_last=True))
    ocp.add_objective(ocp.sum((w-ocp.t**2)**2, include_last=True))
    ocp.add_objective(ocp.sum(u**2))
    ocp.subject_to(ocp.at_t0(x) == 0)
    ocp.solver('ipopt', {"ipopt.print_level": 0, "print_time": False, "ipopt.sb": "yes", "ipopt.tol": 1e-10})
    ocp.method(Method(N=N, M=1, grid=FreeGrid()))
    sol = ocp.solve()
    coeff = [np.array(sol.value(s.coeff)).ravel() for s in ocp._transcribed._method.signals.values()][0]
    tc = np.array(sol.sample(ocp.t, grid='control')[1]).ravel()
    kn = np.concatenate([[tc[0]]*d, tc, [tc[-1]]*d])
    spline = BSpline(kn, coeff, d)                               # Cox-de Boor on the control-grid knots
    ts, ws = sol.sample(w, grid='integrator', refine=4)
    err = np.abs(ws-spline(ts)).max()
    print(Method.__name__, "control grid:", tc)
    print("  refined samples of w          :", np.round(ws, 4))
    print("  Cox-de Boor on control knots  :", np.round(spline(ts), 4))
    print("  max |difference| = %.3g" % err)
    return err

errs = [run(M) for M in (DirectCollocation, MultipleShooting)]
print("Property C17 requires the samples at any refinement to equal the Cox-de Boor evaluation of the coefficients on the control-grid knots.")
sys.exit(1 if max(errs) > 1e-6 else 0)
