"""C16 finding 1: Stage.der() silently treats every symbol it does not know as a constant.
der(ocp.next(x) - x) comes out as -xdot (the shifted state is dropped), and
ocp.der(<state of another stage>) comes out as exactly 0 -- no exception in either case."""
import sys
import numpy as np
from rockit import Ocp, MultipleShooting
from casadi import depends_on

opts = {"ipopt.print_level": 0, "print_time": False, "ipopt.sb": "yes"}
bad = False

# (a) offset symbols (ocp.next / ocp.prev / ocp.offset)
ocp = Ocp(t0=0, T=1)
x = ocp.state(); u = ocp.control()
ocp.set_der(x, -x + u)
ocp.subject_to(ocp.at_t0(x) == 1)
ocp.add_objective(ocp.integral(u**2) + ocp.at_tf(x)**2)
ocp.method(MultipleShooting(N=4, intg='rk')); ocp.solver('ipopt', opts)
e = ocp.next(x) - x
try:
    de = ocp.der(e)
    raised = False
except Exception as ex:
    raised = True
    print("(a) der(next(x)-x) raised:", str(ex)[:80])
if not raised:
    sol = ocp.solve()
    ts, xs = sol.sample(x, grid='control'); _, us = sol.sample(u, grid='control')
    xdot = -xs + us
    try:
        got = sol.sample(de, grid='control')[1]
    except Exception as ex:
        got = None
        print("(a) sampling raised:", str(ex)[:80])
    if got is not None:
        required = xdot[1:] - xdot[:-1]          # d/dt (x_{k+1}-x_k) along the solution
        print("(a) der(next(x)-x) sampled :", got)
        print("    required (or an error) :", required)
        print("    -xdot (next(x) ignored):", -xdot)
        if np.allclose(got[:len(required)], -xdot[:len(required)]) and not np.allclose(got[:len(required)], required):
            print("    -> VIOLATION: the shifted state was silently treated as a constant")
            bad = True

# (b) a state that belongs to another stage
ocp = Ocp()
st = ocp.stage(t0=0, T=1)
y = st.state(); st.set_der(y, -3*y)
try:
    d = ocp.der(y)          # y is not a state of `ocp` itself (user meant st.der(y))
    print("(b) ocp.der(<state of a sub-stage>) returned", d, " nnz =", d.nnz(), "; required: -3*y or an exception")
    if not depends_on(d, y):
        print("    -> VIOLATION: derivative of a state with rhs -3*y reported as 0, no error")
        bad = True
except Exception as ex:
    print("(b) raised:", str(ex)[:80])

sys.exit(1 if bad else 0)
