import sys
from rockit import *
import casadi as ca
ocp = Ocp(T=1.0)
x = ocp.state(); q = ocp.state(quad=True); z = ocp.algebraic(); u = ocp.control()
ocp.set_der(x, -x + u); ocp.set_der(q, x**2); ocp.add_alg(z - 2*x)
bad = 0
d = ocp.der(q)
print("der(q) =", d, "  (declared: x**2)")
f = ca.Function('f', [x, q, u, ocp.t, z], [d - x**2])
r0 = float(f(0.7, 0.3, 0.2, 0.5, 1.4)); print("der(q) - x**2 =", r0)
if abs(r0) > 1e-12: bad = 1
d2 = ocp.der(q*x + ocp.t*q)
g = ca.Function('g', [x, q, u, ocp.t, z], [d2 - (x**2*x + q*(-x+u) + q + ocp.t*x**2)])
r = float(g(0.7, 0.3, 0.2, 0.5, 1.4)); print("der(q*x + t*q) - expected =", r)
if abs(r) > 1e-12: bad = 1
try:
    dz = ocp.der(z); print("der(z) =", dz, " (no exception)"); bad = 1
except Exception as e:
    print("der(z) raises:", str(e)[:60])
print("FAIL" if bad else "PASS"); sys.exit(bad)
