"""C15 finding 1: grid='inf' constraint on a product/square of a VECTOR-valued state
silently constrains only the first component (no guarantee, no error)."""
import sys, warnings
warnings.filterwarnings("ignore")
import numpy as np
from rockit import Ocp, MultipleShooting, DirectCollocation
from casadi import vertcat

opts = {"ipopt.print_level": 0, "print_time": False, "ipopt.sb": "yes"}

def solve(method, vector):
    ocp = Ocp(T=2.0)
    if vector:
        s = ocp.state(2)
        x, y = s[0], s[1]
    else:
        x = ocp.state(); y = ocp.state(); s = vertcat(x, y)
    u = ocp.control()
    if vector:
        ocp.set_der(s, vertcat(y, -5*x + u - 0.1*y**3))
    else:
        ocp.set_der(x, y)
        ocp.set_der(y, -5*x + u - 0.1*y**3)
    ocp.subject_to(ocp.at_t0(s) == 0)
    ocp.subject_to(-10 <= (u <= 10))
    ocp.add_objective(-ocp.at_tf(x) + 0.001*ocp.integral(u**2))
    # the constraint under test: every component of the state squared stays below 0.64
    if vector:
        ocp.subject_to(s*s <= 0.64, grid='inf')
    else:
        ocp.subject_to(x*x <= 0.64, grid='inf')
        ocp.subject_to(y*y <= 0.64, grid='inf')
    ocp.method(method)
    ocp.solver('ipopt', opts)
    try:
        sol = ocp.solve()
    except Exception as _e:
        print("rejected:", str(_e).splitlines()[-1][:100]); return None
    _, xs = sol.sample(x*x, grid='integrator', refine=40)
    _, ys = sol.sample(y*y, grid='integrator', refine=40)
    return xs.max(), ys.max()

bad = False
for name, mk in [("MultipleShooting(rk)", lambda: MultipleShooting(N=4, M=2, intg='rk')),
                 ("DirectCollocation", lambda: DirectCollocation(N=4, M=2))]:
    ref = solve(mk(), vector=False)
    got = solve(mk(), vector=True)
    print("%-22s two scalar states : max x^2 = %.4f  max y^2 = %.4f (bound 0.64)" % (name, ref[0], ref[1]))
    if got is None:
        print("%-22s one 2-vector state: rejected" % name); continue
    print("%-22s one 2-vector state: max x^2 = %.4f  max y^2 = %.4f (bound 0.64)" % (name, got[0], got[1]))
    if got[1] > 0.64 + 1e-6 or got[0] > 0.64 + 1e-6:
        bad = True

print()
print("Required: the refined sample of s*s stays <= 0.64 for EVERY component (or the problem is rejected).")
if bad:
    print("VIOLATION: with a vector-valued state only the first component is constrained; the second one exceeds the bound silently.")
    sys.exit(1)
print("OK: no violation observed.")
sys.exit(0)
