# get_p_sys ordering vs Stage.p/Stage.v ordering with bspline parameter + global variable
from rockit import *
import numpy as np
from casadi import *
for M in [MultipleShooting, SingleShooting]:
    ocp = Ocp(T=1.0)
    x = ocp.state()
    pb = ocp.parameter(grid='bspline', order=1)
    v = ocp.variable()
    ocp.set_der(x, pb + 100*v)
    ocp.subject_to(ocp.at_t0(x)==0)
    ocp.subject_to(v==1)
    ocp.add_objective(ocp.at_tf(x))
    ocp.set_value(pb, DM([[2,2,2]]))   # N+order = 3 coeffs, constant spline = 2
    ocp.method(M(N=2, intg='expl_euler'))
    ocp.solver('ipopt',{"ipopt.print_level":0,"print_time":False,"ipopt.sb":"yes"})
    sol = ocp.solve()
    print(M.__name__, "x(tf) =", sol.sample(x,grid='control')[1], " expected slope 2+100*1=102")
