"""C10 finding 3: guess given after transcription for an OCP-level variable that is the horizon of a stage does not
refresh that stage's time grid variables and time-dependent guesses: before != after."""
import sys
pass
import numpy as np, casadi as ca
from rockit import Ocp, MultipleShooting, FreeGrid, UniformGrid
OPTS = {"ipopt.print_level": 0, "print_time": False, "ipopt.sb": "yes"}

def start(ocp, expr):
    opti = ocp._augmented._method.opti
    return np.array(opti.debug.value(expr, opti.initial()))

def run(when, grid):
    ocp = Ocp(); ocp.solver('ipopt', OPTS)
    Tv = ocp.variable(); ocp.subject_to(Tv >= 0.1); ocp.add_objective(Tv)
    s = ocp.stage(t0=0, T=Tv)
    x = s.state(); u = s.control(); s.set_der(x, u)
    s.method(MultipleShooting(N=4, grid=grid)); s.add_objective(s.integral(u**2))
    s.set_initial(x, s.t); s.set_initial(u, 2*s.t)
    if when == 'before': ocp.set_initial(Tv, 8)
    ocp._transcribed
    if when == 'after': ocp.set_initial(Tv, 8)
    t, xs = s.sample(x, grid='control'); _, us = s.sample(u, grid='control')
    return float(start(ocp, ocp.value(Tv))), start(ocp, t), start(ocp, xs), start(ocp, us)

bad = False
for gname, G in [('FreeGrid', FreeGrid), ('UniformGrid', UniformGrid)]:
    rb = run('before', G()); ra = run('after', G())
    for when, r in [('before', rb), ('after', ra)]:
        print(f"{gname:11s} guess T=8 given {when:6s}: T={r[0]} node times={r[1]} x={r[2]} u={r[3][:-1]}")
    same = all(np.allclose(a, b) for a, b in zip(rb, ra))
    req = np.allclose(ra[1], np.linspace(0, 8, 5)) and np.allclose(ra[2], ra[1]) and np.allclose(ra[3][:-1], 2*ra[1][:-1])
    bad |= not (same and req)
print("Property C10: guesses given before or after the first transcription must give the same start (x=t, u=2t on t=0,2,..,8).")
print("VIOLATED (silently different/stale start)" if bad else "ok")
sys.exit(1 if bad else 0)
