from rockit import *
import numpy as np
from casadi import *
def build(method):
    ocp = Ocp(T=FreeTime(1.0))
    x = ocp.state(); u = ocp.control()
    ocp.set_der(x,u)
    ocp.subject_to(ocp.at_t0(x)==0)
    ocp.subject_to(ocp.at_tf(x)==1)
    ocp.subject_to(-1<=(u<=1))
    ocp.add_objective(ocp.T)
    ocp.method(method)
    ocp.solver('ipopt',{"ipopt.print_level":0,"print_time":False})
    return ocp,x,u
for name,M in [("SS",SingleShooting),("DC",DirectCollocation),("MS",MultipleShooting)]:
    for grid in [FreeGrid(min=0.05,max=0.4),UniformGrid(min=0.3,max=0.5)]:
        ocp,x,u = build(M(N=4,grid=grid))
        try:
            sol = ocp.solve()
        except Exception as e:
            print(name, "solve failed", str(e)[:100]); sol = ocp.non_converged_solution
        ts,xs = sol.sample(x,grid='control')
        print(name, type(grid).__name__, "T=",sol.value(ocp.T), "grid", ts, "diff", np.diff(ts))
