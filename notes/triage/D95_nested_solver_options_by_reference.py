"""C13: Ocp.solver() keeps the nested parts of the option dictionary by reference.

ocp.solver('ipopt', {"ipopt": {"tol": 1e-10, ...}})  is the specification.  When the caller later
changes the nested dictionary it passed (e.g. to re-use it for a rough solve of another problem),
nothing happens at first (the cached transcription is used), but the next re-transcription
(here caused by an extra constraint) silently picks up the changed options.
Reference: a fresh OCP with the final specification (tol=1e-10, extra constraint).
"""
import sys
import numpy as np
from rockit import Ocp, MultipleShooting

def options():
    return {"ipopt": {"print_level": 0, "sb": "yes", "tol": 1e-10}, "print_time": False}

def build(opts):
    ocp = Ocp(T=1)
    x = ocp.state(); u = ocp.control()
    ocp.set_der(x, u-x**3)
    ocp.add_objective(ocp.integral(u**2+(x-1)**2))
    ocp.subject_to(ocp.at_t0(x) == 0)
    ocp.method(MultipleShooting(N=10))
    ocp.solver('ipopt', opts)
    return ocp, x, u

try:
    f, fx, fu = build(options())
    f.subject_to(fu <= 0.9)
    sf = f.solve()

    opts = options()
    o, ox, ou = build(opts)
    o.solve()
    opts["ipopt"]["tol"] = 1e-1      # the caller goes on using its own dictionary; ocp.solver is not called again
    s_same = o.solve()               # still the old transcription: tol=1e-10
    o.subject_to(ou <= 0.9)          # final specification == that of f
    so = o.solve()
except Exception as e:
    print("library raised:", str(e)[:300])
    sys.exit(0)

err = np.abs(sf.sample(fx, grid='control')[1]-so.sample(ox, grid='control')[1]).max()
print("ipopt iterations  fresh (tol 1e-10): %d   evolved: %d" % (sf.stats['iter_count'], so.stats['iter_count']))
print("max |x fresh - x evolved| = %g   (declared tolerance 1e-10)" % err)
print("property C13 requires: same solver settings as the fresh OCP -> same iterations, same solution")
if sf.stats['iter_count'] != so.stats['iter_count'] or err > 1e-8:
    print("VIOLATION: the evolved OCP silently solved with the mutated option ipopt.tol=0.1")
    sys.exit(1)
print("ok")
sys.exit(0)
