import sys
from rockit import *
import numpy as np
def start(history):
    ocp = Ocp(T=1.0)
    x = ocp.state(); u = ocp.control(); a = ocp.parameter()
    ocp.set_der(x, u); ocp.subject_to(ocp.at_t0(x) == 0); ocp.add_objective(ocp.integral(u**2))
    ocp.set_initial(x, a*ocp.t)
    ocp.method(MultipleShooting(N=4)); ocp.solver('ipopt', {"ipopt.max_iter": 0, "ipopt.print_level": 0, "print_time": False})
    if history:
        ocp.set_value(a, 2)
        try: ocp.solve()
        except Exception: pass
    ocp.set_value(a, 7)
    try: ocp.solve()
    except Exception: pass
    o = ocp._augmented._method.opti
    return np.array(o.debug.value(ocp.sample(x, grid='control')[1], o.initial())).flatten()
a, b = start(False), start(True)
print("value written before transcription: x start =", a); print("value changed after a solve:        x start =", b)
ok = np.allclose(a, b); print("PASS" if ok else "FAIL"); sys.exit(0 if ok else 1)
