import sys
sys.path.insert(0, '/tmp/nxdeps')
from rockit import *
import numpy as np
bad = 0
def attempt(label, build):
    global bad
    try:
        r = build()
        print(label, "-> accepted, result", r); return r
    except Exception as e:
        print(label, "-> rejected:", str(e).split("\n")[0][:90]); return None
def integral_obj():
    ocp = Ocp(T=1.0)
    p = ocp.state(); v = ocp.state(); a = ocp.control()
    ocp.set_der(p, v); ocp.set_der(v, a)
    ocp.subject_to(ocp.at_t0(p) == 0); ocp.subject_to(ocp.at_t0(v) == 0); ocp.subject_to(ocp.at_tf(p) == 0.25); ocp.subject_to(-50 <= (a <= 50))
    ocp.add_objective(ocp.integral(a**2))
    ocp.method(SplineMethod(N=10)); ocp.solver('ipopt', {"ipopt.print_level": 0, "print_time": False})
    sol = ocp.solve()
    return float(sol.value(ocp.objective)), float(np.max(np.abs(sol.sample(a, grid='control')[1])))
r = attempt("SplineMethod with ocp.integral(a**2)", integral_obj)
if r is not None and not (1.2 < r[0] < 1.9):   # exact optimum 0.75*... (MultipleShooting: ~1.5)
    print("   objective value %.3f is not the integral (max |a| = %.1f)" % r); bad = 1
def zero_der():
    ocp = Ocp(T=1.0)
    p = ocp.state(); v = ocp.state()
    ocp.set_der(p, v); ocp.set_der(v, 0)
    ocp.subject_to(ocp.at_t0(p) == 0); ocp.subject_to(ocp.at_t0(v) == 1)
    ocp.add_objective((ocp.at_tf(p) - 7)**2)
    ocp.method(SplineMethod(N=5)); ocp.solver('ipopt', {"ipopt.print_level": 0, "print_time": False})
    sol = ocp.solve()
    return float(sol.value(ocp.at_tf(p)))
r = attempt("SplineMethod with p'=v, v'=0, v(0)=1", zero_der)
if r is not None and abs(r - 1.0) > 1e-6:
    print("   p(tf) = %.3f, the declared model gives 1.0" % r); bad = 1
print("FAIL" if bad else "PASS"); sys.exit(bad)
