"""C08 finding 2: with a shooting method and a CasADi built-in integrator (no interpolation polynomial),
refined sampling of an algebraic variable silently returns NaN instead of raising (as it does for states)."""
import sys
pass
import numpy as np, casadi as ca
from rockit import Ocp, MultipleShooting, SingleShooting

OPTS = {"ipopt.print_level": 0, "print_time": False, "ipopt.sb": "yes"}
bad = False
for mname, meth in [("MultipleShooting(intg='collocation')", lambda: MultipleShooting(N=3, M=2, intg='collocation')),
                    ("SingleShooting(intg='idas')", lambda: SingleShooting(N=3, M=2, intg='idas'))]:
    ocp = Ocp(t0=0.5, T=2)
    x = ocp.state(2); u = ocp.control(); z = ocp.algebraic()
    ocp.set_der(x, ca.vertcat(z, u-x[0]))
    ocp.add_alg(z-x[1]*ca.cos(ocp.t))
    ocp.subject_to(ocp.at_t0(x) == ca.vertcat(1, 0))
    ocp.add_objective(ocp.integral(u**2+x[0]**2))
    ocp.solver('ipopt', OPTS)
    ocp.method(meth())
    sol = ocp.solve()
    _, zi = sol.sample(z, grid='integrator')
    print(mname)
    print("   sample(z, grid='integrator')           :", np.round(zi, 4))
    try:
        sol.sample(x, grid='integrator', refine=2)
        print("   sample(x, refine=2) did not raise")
    except Exception as e:
        print("   sample(x, refine=2) raises (fine)       :", str(e))
    for expr, name in [(z, "z"), (z+u, "z+u")]:
        try:
            _, zr = sol.sample(expr, grid='integrator', refine=2)
            print("   sample(%s, grid='integrator', refine=2) :" % name, zr)
            if np.isnan(zr).any():
                bad = True
        except Exception as e:
            print("   sample(%s, refine=2) raises: %s" % (name, e))
print("required: either the values of the unrefined integrator grid at every 2nd entry, or a clear error")
print("VIOLATION present (silent NaN)" if bad else "no violation")
sys.exit(1 if bad else 0)
