"""C10 finding 9: set_initial accepts placeholder expressions (ocp.at_t0(x), ocp.at_tf(x), ocp.next(x), ...) as target
and silently ignores the guess, instead of rejecting them like any other non-symbol."""
import sys
pass
import numpy as np, casadi as ca
from rockit import Ocp, MultipleShooting, DirectCollocation
OPTS = {"ipopt.print_level": 0, "print_time": False, "ipopt.sb": "yes"}

def start(ocp, expr):
    opti = ocp._augmented._method.opti
    return np.array(opti.debug.value(expr, opti.initial()))

bad = False
for name, M in [('MultipleShooting', lambda: MultipleShooting(N=3)), ('DirectCollocation', lambda: DirectCollocation(N=3))]:
    for tname, target in [('ocp.at_t0(x)', lambda o, x: o.at_t0(x)), ('ocp.at_tf(x)', lambda o, x: o.at_tf(x)), ('ocp.next(x)', lambda o, x: o.next(x))]:
        for when in ['before', 'after']:
            ocp = Ocp(T=2)
            x = ocp.state(); u = ocp.control(); ocp.set_der(x, u); ocp.add_objective(ocp.integral(u**2))
            ocp.method(M()); ocp.solver('ipopt', OPTS)
            if when == 'after': ocp._transcribed
            try:
                ocp.set_initial(target(ocp, x), 5)
                xs = start(ocp, ocp.sample(x, grid='control')[1])
                print(f"{name:18s} set_initial({tname}, 5) {when:6s}: ACCEPTED, start x = {xs}  (guess silently dropped)")
                bad = True
            except Exception as e:
                print(f"{name:18s} set_initial({tname}, 5) {when:6s}: rejected: {str(e).strip().splitlines()[-1][:100]}")
print("Required: either the addressed node starts at 5, or the call is rejected ('unknown symbol' as for 2*x or x[0]).")
sys.exit(1 if bad else 0)
