from rockit import *
from rockit.sampling_method import FunctionGrid, DensityGrid
import numpy as np, sys
from casadi import MX
opts={"ipopt.print_level":0,"print_time":False,"ipopt.sb":"yes"}
bad=False
def run(grid, label, want_T):
    global bad
    ocp = Ocp(T=FreeTime(1.0))
    x = ocp.state(); u = ocp.control()
    ocp.set_der(x, u)
    ocp.subject_to(ocp.at_t0(x)==0); ocp.subject_to(ocp.at_tf(x)==1)
    ocp.subject_to(-1<=(u<=1)) if want_T is not None else None
    if want_T is None:
        ocp.add_objective(-ocp.T); ocp.subject_to(ocp.T<=10); want_T = 0.35*16/7    # largest interval 7T/16 <= 0.35
    else:
        ocp.add_objective(ocp.T)          # minimum time: T*=1 unless the grid's minimum interval length forces more
    ocp.method(MultipleShooting(N=4, grid=grid))
    ocp.solver('ipopt',opts)
    sol = ocp.solve()
    T = sol.value(ocp.T); ts = sol.sample(ocp.t, grid='control')[1]
    ok = abs(T-want_T)<1e-5
    print("%-34s T=%.4f (required %.4f) intervals %s %s" % (label, T, want_T, np.round(np.diff(ts),4), "ok" if ok else "WRONG"))
    if not ok: bad=True
f = lambda N: list(np.linspace(0,1,N+1)**2)      # intervals 1/16,3/16,5/16,7/16 of T
run(FunctionGrid(f), "FunctionGrid, no bounds", 1.0)
run(FunctionGrid(f, min=0.25), "FunctionGrid(min=0.25)", 4.0)      # smallest interval T/16 >= 0.25
tau = MX.sym("tau")
run(DensityGrid(1+tau, min=0.3), "DensityGrid(1+tau, min=0.3)", 0.3/(1-(-1+np.sqrt(3.25))))
run(FunctionGrid(f, max=0.35), "FunctionGrid(max=0.35), maximise T", None)
sys.exit(1 if bad else 0)
