import ast, sys, collections
# polynomial over symbols with int coeffs: dict{tuple(sorted syms)->int}
class P:
    def __init__(s,d=None): s.d={k:v for k,v in (d or {}).items() if v!=0}
    @staticmethod
    def c(n): return P({():n})
    @staticmethod
    def v(x): return P({(x,):1})
    def __add__(a,b):
        b=b if isinstance(b,P) else P.c(b); d=dict(a.d)
        for k,v in b.d.items(): d[k]=d.get(k,0)+v
        return P(d)
    __radd__=__add__
    def __mul__(a,b):
        b=b if isinstance(b,P) else P.c(b); d={}
        for k1,v1 in a.d.items():
            for k2,v2 in b.d.items():
                k=tuple(sorted(k1+k2)); d[k]=d.get(k,0)+v1*v2
        return P(d)
    def __eq__(a,b): return a.d==(b if isinstance(b,P) else P.c(b)).d
    def __repr__(s):
        if not s.d: return "0"
        return " + ".join((str(v) if not k else (("" if v==1 else str(v)+"*")+"*".join(k))) for k,v in sorted(s.d.items()))
    def subst(s,x,val):
        r=P()
        for k,v in s.d.items():
            t=P.c(v)
            for sym in k: t=t*(val if sym==x else P.v(sym))
            r=r+t
        return r

files={m:ast.parse(open(f'/repo/rockit/{m}.py').read()) for m in ['sampling_method','multiple_shooting','single_shooting','direct_collocation','direct_method']}
classes={}
for m,t in files.items():
    for n in t.body:
        if isinstance(n,ast.ClassDef): classes[n.name]=n
MRO={'MultipleShooting':['MultipleShooting','SamplingMethod','DirectMethod'],'SingleShooting':['SingleShooting','SamplingMethod','DirectMethod'],'DirectCollocation':['DirectCollocation','SamplingMethod','DirectMethod']}
def resolve(cls,name):
    for c in MRO[cls]:
        for f in classes[c].body:
            if isinstance(f,ast.FunctionDef) and f.name==name: return f
SIZE={'self.N':'N','self.M':'M','self.degree':'d'}
def rng(n):
    # range(self.N) etc
    if isinstance(n,ast.Call) and ast.unparse(n.func)=='range' and len(n.args)==1 and ast.unparse(n.args[0]) in SIZE:
        return P.v(SIZE[ast.unparse(n.args[0])])
class Interp:
    def __init__(s,cls): s.cls=cls; s.len=collections.defaultdict(P); s.sites=[]; s.loops=[]
    def attr(s,n):
        # self.X -> 'X' ; self.V_control[i] -> 'V_control[*]'
        if isinstance(n,ast.Attribute) and isinstance(n.value,ast.Name) and n.value.id=='self': return n.attr
        if isinstance(n,ast.Subscript):
            b=s.attr(n.value)
            if b: return b+'[*]'
    def count(s,e):
        # number of items of an iterable expression used in extend
        if isinstance(e,ast.ListComp) and len(e.generators)==1 and rng(e.generators[0].iter) is not None: return rng(e.generators[0].iter)
        u=ast.unparse(e)
        if isinstance(e,ast.Call) and ast.unparse(e.func)=='horzsplit' and len(e.args)==2 and ast.unparse(e.args[1]).endswith('.shape[1] // self.M'): return P.v('M')
        raise Exception('count? '+u)
    def run(s,body,ctx):
        for st in body:
            s.stmt(st,ctx)
    def record(s,L,n,st,what):
        idx=s.len[L]
        s.sites.append((L,repr(idx),[v for v,_ in s.loops],st.lineno,what))
        s.len[L]=s.len[L]+n
    def stmt(s,st,ctx):
        if isinstance(st,ast.Expr) and isinstance(st.value,ast.Call):
            c=st.value
            if isinstance(c.func,ast.Attribute) and c.func.attr in('append','extend'):
                L=s.attr(c.func.value)
                if L:
                    n=P.c(1) if c.func.attr=='append' else s.count(c.args[0])
                    s.record(L,n,st,ast.unparse(c.args[0])[:50]); return
            if isinstance(c.func,ast.Attribute) and isinstance(c.func.value,ast.Name) and c.func.value.id=='self':
                f=resolve(s.cls,c.func.attr)
                if f and c.func.attr.startswith('add_'):
                    # bind k argument if literal name passes through
                    s.run(f.body,ctx); return
            if isinstance(c.func,ast.Attribute) and ast.unparse(c.func.value) in('SamplingMethod','DirectMethod'):
                for f in classes[ast.unparse(c.func.value)].body:
                    if isinstance(f,ast.FunctionDef) and f.name==c.func.attr: s.run(f.body,ctx)
                return
            return
        if isinstance(st,ast.Assign) and len(st.targets)==1:
            L=s.attr(st.targets[0])
            if L and isinstance(st.value,ast.List) and not st.value.elts: s.len[L]=P(); return
            if L and isinstance(st.value,ast.ListComp): 
                try: n=s.count(st.value)
                except Exception:
                    s.len[L+'[*]']=P(); return
                # nested list comp like [[] for v in ...]: length unknown count
                s.len[L]=P(); s.sites.append((L,'fresh',[],st.lineno,'listcomp len '+repr(n))); s.len[L]=n; return
            return
        if isinstance(st,ast.AugAssign):
            return
        if isinstance(st,ast.For):
            B=rng(st.iter)
            if B is None:
                # enumerate(...) loops over symbol lists: treat body once w/ star index
                s.run(st.body,ctx); return
            v=st.target.id
            len0=dict(s.len)
            # pass 1: delta
            save_sites=len(s.sites)
            s.loops.append((v,B)); s.run(st.body,ctx); s.loops.pop()
            delta={L:s.len[L]+P({k:-c for k,c in len0.get(L,P()).d.items()}) for L in s.len}
            del s.sites[save_sites:]
            # peeled blocks: detect 'if v==0' top-level
            # pass 2 with len = len0 + v*delta
            s.len=collections.defaultdict(P,{L:len0.get(L,P())+P.v(v)*delta[L] for L in delta})
            s.loops.append((v,B)); s.run(st.body,ctx); s.loops.pop()
            s.len=collections.defaultdict(P,{L:len0.get(L,P())+B*delta[L] for L in delta})
            return
        if isinstance(st,ast.If):
            t=ast.unparse(st.test)
            if s.loops and t==f'{s.loops[-1][0]} == 0':
                # peeled: count but as constant pre-loop contribution: approximate by running with marker
                before=dict(s.len)
                s.run(st.body,ctx)
                s.sites[-1]=s.sites[-1]+('PEELED k==0',)
                # revert growth inside loop-delta (treated separately)
                for L in list(s.len):
                    if s.len[L]!=before.get(L,P()): s.peeled=getattr(s,'peeled',{}); s.peeled[L]=1; s.len[L]=before.get(L,P())
                return
            if 'is not None' in t or t.startswith('stage.') or 'include' in t or 'self.time_grid' in t or t.startswith('F.numel_out'):
                s.run(st.body,ctx); 
                if 'time_grid' in t or 'F.numel_out' in t: return
                return
            return
for cls,entry in [('MultipleShooting',['add_parameter','add_variables','add_constraints']),('SingleShooting',['add_parameter','add_variables','add_constraints']),('DirectCollocation',['add_parameter','add_variables','add_constraints'])]:
    it=Interp(cls)
    for e in entry: it.run(resolve(cls,e).body,{})
    print('=====',cls)
    for L in ['X','U','Q','Z','xk','xqk','zk','poly_coeff','poly_coeff_q','P_control','P_control_plus','V_control[*]','V_control_plus[*]','V_states[*]','Z0','xr','tr','Xc','X_intg']:
        print(f'  len({L}) = {it.len.get(L)}', '(+1 peeled at k==0)' if getattr(it,'peeled',{}).get(L) else '')
    for site in it.sites:
        if site[0] in('xk','xqk','Z','Q','poly_coeff'): print('   site',site)
