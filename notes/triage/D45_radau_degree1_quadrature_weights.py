import sys
from rockit import *
import numpy as np
bad = 0
for degree, scheme in ((1, 'radau'), (1, 'legendre'), (2, 'radau'), (3, 'legendre'), (4, 'radau')):
    ocp = Ocp(T=2.0)
    x = ocp.state(); u = ocp.control()
    ocp.set_der(x, u); ocp.subject_to(ocp.at_t0(x) == 0); ocp.subject_to(-1 <= (u <= 1))
    I = ocp.integral(1 + 0*x)
    ocp.add_objective(4*I + ocp.at_tf(x))
    ocp.method(DirectCollocation(N=3, M=2, degree=degree, scheme=scheme)); ocp.solver('ipopt', {"ipopt.print_level": 0, "print_time": False})
    sol = ocp.solve()
    v = float(sol.value(4*I)); B = np.array(ocp._method.B).flatten()
    print("degree=%d %-8s integral(1) over T=2 times 4 = %.4f  (weights B = %s, sum %.3f)" % (degree, scheme, v, np.round(B, 4), B.sum()))
    if abs(v - 8.0) > 1e-8: bad = 1
print("FAIL" if bad else "PASS"); sys.exit(bad)
