"""C04 / finding 5: include_last=False is ignored for grid='integrator_roots': with Radau points the last collocation
time of the last interval IS tf, and the constraint is imposed there although the declaration says not to.

x' = u, x(0)=0, 0<=u<=2, T=1, DirectCollocation(N=1, M=1, degree=2, scheme='radau') -> roots at t=1/3 and t=1 (=tf)
maximise x(T);   x <= 0.5 on grid='integrator_roots', include_last=False
   property: imposed at t=1/3 only: x(1/3) = u/3 <= 0.5 -> u = 1.5 -> x(T)* = 1.5
   imposed at tf as well:           x(1)   = u   <= 0.5           -> x(T)* = 0.5
"""
import sys
from rockit import Ocp, DirectCollocation
OPTS = {"ipopt.print_level": 0, "print_time": False, "ipopt.sb": "yes", "ipopt.tol": 1e-10}
def run(include_last, scheme='radau'):
    ocp = Ocp(t0=0, T=1)
    x = ocp.state(); u = ocp.control()
    ocp.set_der(x, u)
    ocp.subject_to(ocp.at_t0(x) == 0)
    ocp.subject_to(0 <= (u <= 2), include_last=False)
    ocp.subject_to(x <= 0.5, grid='integrator_roots', include_last=include_last)
    ocp.add_objective(-ocp.at_tf(x))
    ocp.solver('ipopt', OPTS)
    ocp.method(DirectCollocation(N=1, M=1, degree=2, scheme=scheme))
    sol = ocp.solve()
    return float(sol.value(ocp.at_tf(x))), ocp.jacobian().shape[0]
try:
    vT, rT = run(True)
    vF, rF = run(False)
except Exception as e:
    print("library raised:", str(e)[:300]); sys.exit(0)
print("include_last=True : x(T)* = %.6f, %d NLP rows" % (vT, rT))
print("include_last=False: x(T)* = %.6f, %d NLP rows   (property: 1.500000 and one row less: the root at tf is left out)" % (vF, rF))
bad = abs(vF - 1.5) > 1e-5
print("VIOLATION: include_last=False ignored on grid='integrator_roots'" if bad else "ok")
sys.exit(1 if bad else 0)
