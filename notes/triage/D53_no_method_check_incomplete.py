"""C20 finding 3: the 'forgot to declare a method' check only looks at states and controls. A stage whose
dynamics consist of algebraic / quadrature states, or that carries path constraints, is transcribed by the
bare DirectMethod, which silently ignores the DAE and every non-'point' constraint."""
import sys, os
sys.path.insert(0, os.path.join(os.path.dirname(os.path.abspath(__file__)), '..', '..'))
import casadi as ca
from rockit import Ocp, MultipleShooting

opts = {"ipopt.print_level": 0, "print_time": False, "ipopt.sb": "yes"}
violations = 0

def case_dae():
    ocp = Ocp(T=1)
    v = ocp.variable()
    z = ocp.algebraic()
    ocp.add_alg(z - v - 1)        # z = v + 1
    ocp.subject_to(z >= 3)        # path constraint => v >= 2
    ocp.add_objective(v**2)
    ocp.solver('ipopt', opts)
    sol = ocp.solve()             # no ocp.method(...)
    return "v = %g (z = v+1 >= 3 requires v >= 2), NLP has %d constraints" % (sol.value(v), ocp._method.opti.ng)

def case_time_path_constraint():
    ocp = Ocp(T=1)
    v = ocp.variable()
    ocp.subject_to(v*ocp.t >= 1, include_first=False)   # path constraint: needs a time grid, hence a method
    ocp.subject_to(v >= 0)
    ocp.add_objective(v**2)
    ocp.solver('ipopt', opts)
    sol = ocp.solve()
    return "v = %g (v*t >= 1 on (0,1] requires v >= 1), NLP has %d constraints" % (sol.value(v), ocp._method.opti.ng)

def case_quadrature():
    ocp = Ocp(T=1)
    v = ocp.variable()
    q = ocp.state(quad=True)      # a quadrature state *without* set_der and without a method
    ocp.add_objective((v-1)**2)
    ocp.solver('ipopt', opts)
    sol = ocp.solve()
    return "v = %g; quadrature state without derivative and without method went unnoticed" % sol.value(v)

def case_reference():
    ocp = Ocp(T=1)
    x = ocp.state(); ocp.set_der(x, 1)
    ocp.solver('ipopt', opts)
    ocp.solve()
    return "accepted"

for name, f, should_raise in [("algebraic variable + DAE + path constraint, no method", case_dae, True),
                              ("path constraint in ocp.t, no method", case_time_path_constraint, True),
                              ("quadrature state, no derivative, no method", case_quadrature, True),
                              ("reference: ordinary state, no method", case_reference, True)]:
    try:
        r = f()
        violations += 1
        print("VIOLATION %s: solved silently: %s" % (name, r))
    except Exception as e:
        print("ok        %s: rejected: %s" % (name, str(e).splitlines()[0][:90]))

print()
print("Property C20 requires: a stage with dynamics (or anything that needs a time grid) and no method raises.")
if violations:
    print("OBSERVED: %d specification(s) without a method were transcribed; DAE and path constraints were dropped." % violations)
    sys.exit(1)
print("No violation observed.")
sys.exit(0)
