"""C19 finding 2: in a multi-stage OCP whose stages use DirectCollocation, a state guess passed to
ocp.to_function is only written on the control-grid states; the collocation helper states (roots, and for M>1 the
intermediate integrator states) keep their old guess.  stage.set_initial(x, values) initialises them as well.
(For a single-stage Ocp, DirectCollocation.to_function takes care of this; the master of a multi-stage Ocp
has a plain DirectMethod, so that code never runs.)"""
import sys, numpy as np, casadi as ca
from rockit import Ocp, DirectCollocation

N = 3
def build(max_iter, M):
    ocp = Ocp()
    st = []
    for i in range(2):
        s = ocp.stage(t0=i, T=1)
        x = s.state(2); u = s.control()
        s.set_der(x, ca.vertcat(x[1], -x[0] + u*(1 - x[0]**2)))
        s.subject_to(-1 <= (u <= 1))
        s.add_objective(s.integral(x[0]**2 + x[1]**2 + u**2))
        s.method(DirectCollocation(N=N, M=M))
        st.append((s, x, u))
    ocp.subject_to(st[0][0].at_t0(st[0][1]) == ca.vertcat(1, 0))
    ocp.subject_to(st[0][0].at_tf(st[0][1]) == st[1][0].at_t0(st[1][1]))
    ocp.solver('ipopt', {"ipopt.print_level": 0, "print_time": False, "ipopt.sb": "yes", "ipopt.max_iter": max_iter})
    return ocp, st

xs = np.array([[1., 2., 3., 4.], [0.1, 0.2, 0.3, 0.4]])   # guess for the states of stage 2 on its control grid
bad = False
for M in [1, 2]:
    for max_iter in [0, 2]:
        ocp, st = build(max_iter, M)
        s2, x2, u2 = st[1]
        f = ocp.to_function('f', [s2.sample(x2, grid='control')[1]],
                            [s2.sample(x2, grid='integrator_roots')[1], s2.sample(x2, grid='integrator')[1], s2.sample(u2, grid='control-')[1]])
        f_roots, f_intg, f_u = [np.array(e) for e in f(xs)]

        ocp, st = build(max_iter, M)
        s2, x2, u2 = st[1]
        s2.set_initial(x2, xs)
        try: sol = ocp.solve()
        except Exception: sol = ocp.non_converged_solution
        p_roots = sol(s2).sample(x2, grid='integrator_roots')[1].T
        p_intg = sol(s2).sample(x2, grid='integrator')[1].T
        p_u = sol(s2).sample(u2, grid='control-')[1]
        same = np.allclose(f_roots, p_roots, atol=1e-8) and np.allclose(f_intg, p_intg, atol=1e-8) and np.allclose(f_u.flatten(), p_u, atol=1e-8)
        print("M=%d max_iter=%d : %s" % (M, max_iter, "same" if same else "DIFFERENT"))
        if not same:
            bad = True
            print("   x[0] at collocation roots, to_function :", np.round(f_roots[0, :8], 4), "...")
            print("   x[0] at collocation roots, set_initial :", np.round(p_roots[0, :8], 4), "...")
            print("   x[0] on integrator grid,   to_function :", np.round(f_intg[0, :], 4))
            print("   x[0] on integrator grid,   set_initial :", np.round(p_intg[0, :], 4))
print()
print("Required (C19): f(xs) equals stage.set_initial(x, xs); ocp.solve(); sample(...).")
print("Observed: with to_function the collocation helper states start from 0 (max_iter=0 rows) and the iterates differ (max_iter=2 rows).")
print("VIOLATION PRESENT" if bad else "no violation")
sys.exit(1 if bad else 0)
