from rockit import *
from casadi import *
ocp = Ocp()
s = ocp.stage(t0=0, T=FreeTime(1.0))
x = s.state(); u = s.control()
s.set_der(x,u)
s.subject_to(s.at_t0(x)==0)
s.subject_to(-1<=(u<=1))
s.add_objective(s.integral(x**2))
s.method(MultipleShooting(N=3))
ocp.solver('ipopt',{"ipopt.print_level":0,"print_time":False,"ipopt.sb":"yes"})
def spec(o): return (len(o.states), len(o.qstates), type(o._T).__name__, len(o._constraints['point'])+len(o._constraints['control']))
print("before", spec(s), "is augmented?", s._var_augmented is not None)
t, xs = s.sample(x, grid='control')     # symbolic query on the sub-stage, before any solve
print("after s.sample", spec(s), "has augmented copy?", s._var_augmented is not None, "master copy?", ocp._var_augmented is not None)
sol = ocp.solve()
print("after solve", spec(s))
