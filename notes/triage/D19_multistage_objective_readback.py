from rockit import *
import numpy as np
ocp = Ocp()
def mk(T0):
    s = ocp.stage(t0=T0, T=1.0)
    x = s.state(); u = s.control()
    s.set_der(x, u)
    s.subject_to(s.at_t0(x) == 1)
    s.add_objective(s.integral(u**2) + s.at_tf(x)**2)
    s.method(MultipleShooting(N=4))
    return s, x
s1, x1 = mk(0); s2, x2 = mk(1)
v = ocp.variable()
ocp.add_objective((v - 0.01)**2 + 1e-4)
ocp.solver('ipopt', {"ipopt.print_level": 0, "print_time": False})
sol = ocp.solve()
f = sol.stats["iterations"]["obj"][-1]
print("solver cost f =", f)
print("sol.value(ocp.objective) =", sol.value(ocp.objective))
print("stage objectives:", sol(s1).value(s1.objective), sol(s2).value(s2.objective))
try:
    print("sum via master:", sol.value(ocp.objective + s1.objective + s2.objective))
except Exception as e:
    print("ERR", str(e)[:300])
