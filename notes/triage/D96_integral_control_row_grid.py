"""C05 - integral(expr, grid='control') weights the wrong axis on every grid whose time vector is a row.

fill_placeholders_integral_control computes  sum2(diff(ts).T * exprs[:, :-1]).
For the plain UniformGrid ts is a column (N+1 x 1) and diff(ts).T is 1 x N: fine for a scalar integrand.
For GeometricGrid / FunctionGrid / DensityGrid / FreeGrid / any localize_t0 or localize_T grid ts is a ROW,
diff(ts).T is N x 1.  For a scalar integrand that raises a dimension error; but for a vector-valued
integrand with exactly N rows CasADi broadcasts the N x 1 column over the N x N sample matrix, i.e. component i
is multiplied with the length of interval i instead of node k with the length of interval k.
The NLP then silently minimises   sum_i dt_i * sum_k e_i(t_k)   instead of   sum_k dt_k * sum_i e_i(t_k).
"""
import sys
import numpy as np

def main():
    from rockit import Ocp, MultipleShooting, GeometricGrid
    from casadi import vertcat, sum1, Function
    opts = {"ipopt.print_level": 0, "print_time": False, "ipopt.sb": "yes", "ipopt.tol": 1e-10}
    N = 3

    def build(vector):
        ocp = Ocp(t0=0, T=2)
        x = ocp.state(3)
        u = ocp.control()
        ocp.set_der(x, vertcat(x[1], u, x[0]))
        ocp.subject_to(ocp.at_t0(x) == vertcat(1, 0, 0))
        ocp.subject_to(-1 <= (u <= 1))
        e = (x-vertcat(0, 1, 2))**2*vertcat(1, 10, 100)   # three cost components, N == 3 of them
        if vector:
            ocp.add_objective(sum1(ocp.integral(e, grid='control')))
        else:
            # the same cost written with ocp.sum and the interval length: an independent formulation
            ocp.add_objective(ocp.sum(ocp.DT_control*sum1(e)))
        ocp.solver('ipopt', opts)
        ocp.method(MultipleShooting(N=N, grid=GeometricGrid(4)))
        return ocp, x, u, e

    ocp, x, u, e = build(True)
    sol = ocp.solve()
    minimised = sol.stats['iterations']['obj'][-1]
    ts, es = sol.sample(e, grid='control')
    # what the property prescribes, evaluated on the trajectory the solver returned
    prescribed = float(np.sum(np.diff(ts)[:, None]*es[:-1, :]))

    ocp2, x2, u2, e2 = build(False)
    sol2 = ocp2.solve()
    twin = sol2.stats['iterations']['obj'][-1]

    print("interval lengths                                      :", np.diff(ts))
    print("cost minimised with sum1(integral(e, grid='control'))  :", minimised)
    print("interval-length-weighted left sum on that trajectory  :", prescribed)
    print("optimal cost of the twin written with sum(DT_control*e):", twin)
    print("property requires: integral(grid='control') is the interval-length-weighted left sum")
    bad = abs(minimised-prescribed) > 1e-6*max(1, abs(prescribed)) or abs(minimised-twin) > 1e-5*max(1, abs(twin))
    if bad:
        print("VIOLATION: the NLP objective is not the weighted left sum")
        return 1
    print("no violation")
    return 0

if __name__ == "__main__":
    try:
        rc = main()
    except Exception as ex:
        print("library rejected the input with an exception:", str(ex)[:300])
        rc = 0
    sys.exit(rc)
