import sys
from rockit import *
import numpy as np
ocp = Ocp(T=1.0)
x = ocp.state(); u = ocp.control(domain='integer', scale=0.5)
ocp.set_der(x, u); ocp.subject_to(ocp.at_t0(x) == 0)
ocp.method(MultipleShooting(N=2)); ocp.solver('ipopt', {"ipopt.print_level": 0, "print_time": False})
ocp.add_objective(ocp.at_tf(x))
a = ocp._transcribed  # transcribe only
m = ocp._augmented._method
U = m.U[0]
from casadi import Function, symvar
v = symvar(U)
f = Function('f', v, [U])
vals = [float(f(k)) for k in (1, 2, 3)]
print("physical control for solver values 1,2,3:", vals)
ok = np.allclose(vals, [1, 2, 3])
print("PASS" if ok else "FAIL (the integer-constrained solver variable is scaled: the control ranges over multiples of 0.5)"); sys.exit(0 if ok else 1)
