"""C19 finding 1: to_function with a guess for the free horizon T (or t0) does not propagate that
guess to the local time-grid variables (FreeGrid, localize_T=True, localize_t0=True), whereas
ocp.set_initial(ocp.T, ...) does.  The solver therefore starts from another (inconsistent) time grid."""
import sys
import numpy as np, casadi as ca
from rockit import Ocp, MultipleShooting, DirectCollocation, FreeTime, FreeGrid, UniformGrid, GeometricGrid

N = 4
def build(method, max_iter):
    ocp = Ocp(T=FreeTime(1.5))
    x = ocp.state(2); u = ocp.control()
    ocp.set_der(x, ca.vertcat(x[1], -x[0] + u*(1 - x[0]**2)))
    ocp.subject_to(ocp.at_t0(x) == ca.vertcat(1, 0))
    ocp.subject_to(ocp.at_tf(x) == 0)
    ocp.subject_to(-1 <= (u <= 1))
    ocp.subject_to(ocp.T >= 0.1)
    ocp.add_objective(ocp.T + ocp.integral(x[0]**2 + x[1]**2 + u**2))
    ocp.solver('ipopt', {"ipopt.print_level": 0, "print_time": False, "ipopt.sb": "yes", "ipopt.max_iter": max_iter})
    ocp.method(method())
    return ocp, x, u

T_guess = 3.0
bad = False
for name, method in [("MultipleShooting+UniformGrid (reference, no local grid vars)", lambda: MultipleShooting(N=N)),
                     ("MultipleShooting+FreeGrid", lambda: MultipleShooting(N=N, grid=FreeGrid())),
                     ("DirectCollocation+FreeGrid", lambda: DirectCollocation(N=N, grid=FreeGrid())),
                     ("MultipleShooting+UniformGrid(localize_T=True)", lambda: MultipleShooting(N=N, grid=UniformGrid(localize_T=True))),
                     ("MultipleShooting+UniformGrid(localize_t0=True)", lambda: MultipleShooting(N=N, grid=UniformGrid(localize_t0=True))),
                     ("MultipleShooting+GeometricGrid(2,localize_T=True)", lambda: MultipleShooting(N=N, grid=GeometricGrid(2, localize_T=True)))]:
    for max_iter in [0, 3]:
        # route 1: to_function
        ocp, x, u = build(method, max_iter)
        f = ocp.to_function('f', [ocp.T], [ocp.sample(x, grid='control')[0], ocp.value(ocp.T), ocp.sample(u, grid='control-')[1]])
        tf_grid, tf_T, tf_u = [np.array(e).flatten() for e in f(T_guess)]
        # route 2: set_initial / solve / sample
        ocp, x, u = build(method, max_iter)
        ocp.set_initial(ocp.T, T_guess)
        try:
            sol = ocp.solve()
        except Exception:
            sol = ocp.non_converged_solution   # max_iter reached: look at the iterate
        pl_grid = sol.sample(x, grid='control')[0]; pl_T = sol.value(ocp.T); pl_u = sol.sample(u, grid='control-')[1]
        same = np.allclose(tf_grid, pl_grid, atol=1e-8) and np.allclose(tf_u, pl_u, atol=1e-8)
        print("%-58s max_iter=%d : %s" % (name, max_iter, "same" if same else "DIFFERENT"))
        if not same:
            bad = True
            print("     to_function(T=%g): control grid %s  T=%s" % (T_guess, np.round(tf_grid, 4), np.round(tf_T, 4)))
            print("     set_initial(T,%g): control grid %s  T=%s" % (T_guess, np.round(pl_grid, 4), np.round(pl_T, 4)))
print()
print("Property C19 requires: f(T_guess) == result of ocp.set_initial(ocp.T, T_guess); ocp.solve(); sample(...) -- for every time grid.")
print("Observed: with local time-grid variables the starting grid of to_function still spans the OLD horizon guess (1.5)")
print("          (max_iter=0 rows show the starting point; max_iter=3 rows show the iterates diverge).")
print("VIOLATION PRESENT" if bad else "no violation")
sys.exit(1 if bad else 0)
