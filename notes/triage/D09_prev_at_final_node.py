from rockit import *
from casadi import *
ocp = Ocp(T=1.0)
x = ocp.state(); u = ocp.control()
ocp.set_der(x,u)
ocp.subject_to(ocp.at_t0(x)==0)
ocp.subject_to(-10<=(u<=10))
ocp.subject_to(x-ocp.prev(x)<=0.1)   # rate limit between consecutive nodes
ocp.add_objective(-ocp.at_tf(x))
ocp.method(MultipleShooting(N=4))
ocp.solver('ipopt',{"ipopt.print_level":0,"print_time":False,"ipopt.sb":"yes"})
sol = ocp.solve()
xs = sol.sample(x,grid='control')[1]
import numpy as np
print("x nodes", xs, "diffs", np.diff(xs), "(all should be <= 0.1)")
