"""C08 finding 1: refined sampling (grid='integrator', refine=r) feeds bspline signals into the wrong
slots of the expression: a grid='bspline' parameter comes back with the values of another symbol."""
import sys
pass; sys.path.insert(0, '/tmp/nxdeps')
import numpy as np, casadi as ca
from rockit import Ocp, MultipleShooting, DirectCollocation

OPTS = {"ipopt.print_level": 0, "print_time": False, "ipopt.sb": "yes"}
bad = False
for mname, meth in [("MultipleShooting", lambda: MultipleShooting(N=3, M=2, intg='rk')),
                    ("DirectCollocation", lambda: DirectCollocation(N=3, M=2, degree=3))]:
    for variant in ["bspline parameter + bspline variable", "bspline parameter + plain variable"]:
        ocp = Ocp(t0=0.5, T=2)
        x = ocp.state(2); u = ocp.control()
        pb = ocp.parameter(grid='bspline', order=1)          # values 0,1,2,3 at the knots
        if variant.endswith("bspline variable"):
            other = ocp.variable(grid='bspline', order=1)    # driven to 5
            ocp.add_objective(ocp.sum((other-5)**2, include_last=True))
        else:
            other = ocp.variable()                           # driven to 7
            ocp.add_objective((other-7)**2)
        # note: neither pb nor 'other' enters the dynamics
        ocp.set_der(x, ca.vertcat(x[1], u-x[0]))
        ocp.subject_to(ocp.at_t0(x) == ca.vertcat(1, 0))
        ocp.add_objective(ocp.integral(u**2+x[0]**2))
        ocp.set_value(pb, [0, 1, 2, 3])
        ocp.solver('ipopt', OPTS)
        ocp.method(meth())
        sol = ocp.solve()
        M, r = 2, 2
        _, pc = sol.sample(pb, grid='control')
        _, pr = sol.sample(pb, grid='integrator', refine=r)
        err = np.abs(pr[::M*r]-pc).max()
        print("%s, %s:" % (mname, variant))
        print("   control-grid sample of pb      :", np.round(pc, 4))
        print("   refined sample, every M*r-th    :", np.round(pr[::M*r], 4), " (required: identical)")
        if err > 1e-8:
            bad = True
print("VIOLATION present" if bad else "no violation")
sys.exit(1 if bad else 0)
