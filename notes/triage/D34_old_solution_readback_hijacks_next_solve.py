"""C07 finding 4: reading an earlier solution object after the OCP was modified re-transcribes the OLD
problem copy and marks the OCP as transcribed: the next solve()/sample() silently works on the stale problem."""
import sys
import numpy as np
from casadi import vertcat
from rockit import Ocp, MultipleShooting

def build():
    ocp = Ocp(t0=0, T=2)
    x = ocp.state(2); u = ocp.control(); p = ocp.parameter()
    ocp.set_der(x, vertcat(x[1], u - p*x[0]))
    ocp.subject_to(ocp.at_t0(x) == vertcat(1, 0))
    ocp.subject_to(-1 <= (u <= 1))
    ocp.add_objective(ocp.integral(x[0]**2 + u**2))
    ocp.set_value(p, 1.0)
    ocp.method(MultipleShooting(N=4, M=2))
    ocp.solver('ipopt', {"ipopt.print_level": 0, "print_time": False, "ipopt.sb": "yes"})
    return ocp, x, u, p

def scenario(touch_old_solution):
    ocp, x, u, p = build()
    sol1 = ocp.solve()
    ocp.set_value(p, 2.0)          # recorded, and pushed into the live NLP
    ocp.subject_to(u <= -0.2)      # model change -> problem must be transcribed again
    if touch_old_solution:
        # e.g. fetch the time axis of the previous solution for a plot (constant expression -> no error raised)
        t_old, _ = sol1.sample(ocp.t, grid='control')
    sol2 = ocp.solve()
    _, us = sol2.sample(u, grid='control')
    return sol2.value(p), us

p_ref, u_ref = scenario(False)
p_bad, u_bad = scenario(True)
print("without touching the old solution: p =", p_ref, " u =", u_ref)
print("after sol1.sample(ocp.t,...)     : p =", p_bad, " u =", u_bad)
print("required: identical results (p = 2, u <= -0.2): reading an old solution must not change what is solved")
if not (np.isclose(p_bad, 2.0) and np.all(u_bad <= -0.2 + 1e-6) and np.allclose(u_bad, u_ref, atol=1e-6)):
    print("VIOLATION: the new constraint is missing and the parameter fell back to its value at first transcription")
    sys.exit(1)
print("no violation")
sys.exit(0)
