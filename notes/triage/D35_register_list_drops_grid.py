"""C01 finding 1: register_variable([...], grid='control') / register_parameter([...], grid='control')
silently register GLOBAL symbols, so the shooting dynamics use one value for all intervals."""
import sys
pass
import numpy as np, casadi as ca
from rockit import Ocp, MultipleShooting
OPTS = {"ipopt.print_level": 0, "print_time": False, "ipopt.sb": "yes"}
N = 3

def build(as_list):
    ocp = Ocp(T=3)
    x = ocp.state()
    v = ca.MX.sym('v'); w = ca.MX.sym('w')
    p = ca.MX.sym('p'); q = ca.MX.sym('q')
    if as_list:
        ocp.register_variable([v, w], grid='control')
        ocp.register_parameter([p, q], grid='control')
    else:
        for e in (v, w): ocp.register_variable(e, grid='control')
        for e in (p, q): ocp.register_parameter(e, grid='control')
    ocp.set_der(x, v + w + p + q)
    ocp.subject_to(ocp.at_t0(x) == 0)
    ocp.add_objective(ocp.sum((x - ca.sin(3*ocp.t))**2, include_last=True) + 1e-6*ocp.sum(v**2 + w**2))
    ocp.method(MultipleShooting(N=N, intg='expl_euler'))
    ocp.solver('ipopt', OPTS)
    return ocp, v, p, q

bad = False
ocp, v, p, q = build(False)
print("one-by-one registration: variable groups", {k: len(l) for k, l in ocp.variables.items() if len(l)},
      "parameter groups", {k: len(l) for k, l in ocp.parameters.items() if len(l)})
ocp, v, p, q = build(True)
vg = {k: len(l) for k, l in ocp.variables.items() if len(l)}
pg = {k: len(l) for k, l in ocp.parameters.items() if len(l)}
print("list registration      : variable groups", vg, "parameter groups", pg)
print("required: both calls put v,w in variables['control'] and p,q in parameters['control'] (one instance per control interval)")
if vg != {'control': 2} or pg != {'control': 2}:
    bad = True
# show the effect on the transcribed dynamics: a per-interval value table is not accepted / a single variable is used
try:
    ocp.set_value(p, 0); ocp.set_value(q, 0)
    sol = ocp.solve()
    vs = sol.sample(v, grid='control-')[1]
    print("v on the control grid:", vs, "-> %d distinct value(s); NLP has %d decision variables (expected %d)" % (len(set(np.round(vs, 9))), ocp._method.opti.nx, (N+1) + 2*N))
    if ocp._method.opti.nx != (N+1) + 2*N: bad = True
except Exception as e:
    print("solve failed:", e); bad = True
print("VIOLATION PRESENT" if bad else "no violation")
sys.exit(1 if bad else 0)
