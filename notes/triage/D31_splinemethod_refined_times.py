import sys
sys.path.insert(0, '/tmp/nxdeps')
from rockit import *
import numpy as np
bad = 0
for name, grid in (("UniformGrid", UniformGrid()), ("GeometricGrid(2)", GeometricGrid(2))):
    ocp = Ocp(T=2.0)
    p = ocp.state(); v = ocp.control(order=1)
    ocp.set_der(p, v)
    ocp.subject_to(ocp.at_t0(p) == 0); ocp.subject_to(ocp.at_tf(p) == 1)
    ocp.add_objective(ocp.sum(v**2, include_last=True))
    ocp.method(SplineMethod(N=4, grid=grid)); ocp.solver('ipopt', {"ipopt.print_level": 0, "print_time": False})
    sol = ocp.solve()
    tc, pc = sol.sample(p, grid='control')
    tr, pr = sol.sample(p, grid='control', refine=3)
    # every 3rd refined point is a control-grid point: same time, same value
    ok = np.allclose(tr[::3], tc) and np.allclose(pr[::3], pc)
    # refined times subdivide each control interval linearly
    lin = np.concatenate([np.linspace(tc[k], tc[k+1], 4)[:-1] for k in range(4)] + [[tc[-1]]])
    ok = ok and np.allclose(tr, lin)
    print(name, "control times", np.round(tc, 3), "\n   refined times", np.round(tr, 3), "OK" if ok else "MISMATCH")
    if not ok: bad = 1
print("FAIL" if bad else "PASS"); sys.exit(bad)
