"""C09 finding 1: set_value keeps a reference to the caller's array; a later in-place
change of that array silently changes the parameter at the next (re-)transcription."""
import sys
pass
import numpy as np
from rockit import Ocp, MultipleShooting

O = {"ipopt.print_level": 0, "print_time": False, "ipopt.sb": "yes"}
ocp = Ocp(T=1)
p = ocp.parameter()
x = ocp.state(); u = ocp.control()
ocp.set_der(x, u)
ocp.subject_to(ocp.at_t0(x) == p)
ocp.add_objective(ocp.integral(u**2))
ocp.method(MultipleShooting(N=2)); ocp.solver('ipopt', O)

bad = False
buf = np.array([1.0])
ocp.set_value(p, buf)          # the value supplied is 1.0
buf[0] = 2.0                   # caller reuses its buffer; no set_value call
v = float(ocp.solve().value(p))
print("case A (value given before first transcription): NLP sees p =", v, " required: 1.0")
bad |= abs(v-1.0) > 1e-12

ocp.set_value(p, buf)          # now the value supplied is 2.0 (after transcription)
buf[0] = 7.0                   # again no set_value call
v = float(ocp.solve().value(p))
print("case B (solve again, same transcription):       NLP sees p =", v, " required: 2.0")
bad |= abs(v-2.0) > 1e-12
ocp.subject_to(u <= 100)       # anything that triggers a re-transcription
v = float(ocp.solve().value(p))
print("case C (after a re-transcription):              NLP sees p =", v, " required: 2.0")
bad |= abs(v-2.0) > 1e-12

print("VIOLATION" if bad else "ok")
sys.exit(1 if bad else 0)
