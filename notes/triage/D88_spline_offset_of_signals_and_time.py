"""
C17 finding 3: under SplineMethod, ocp.next / ocp.prev / ocp.offset only shift states and controls.
Time (ocp.t) and B-spline signals (grid='bspline' variables/parameters, their der()) inside the
shifted expression are evaluated at the *current* node. next(s)-s collapses to 0: a rate constraint
on a B-spline variable silently disappears; a constraint using next(ocp.t) uses the wrong time.

Run: cd /tmp/wt9/C17 && PYTHONPATH=/tmp/wt9/C17:/tmp/nxdeps /venv/bin/python _found/3/repro.py
"""
import sys, warnings
warnings.filterwarnings("ignore")
import numpy as np, casadi as ca
from rockit import Ocp, MultipleShooting, SplineMethod

opts = {"ipopt.print_level": 0, "print_time": False, "ipopt.sb": "yes", "ipopt.tol": 1e-10}
bad = False

# ---- (a) rate constraint on a B-spline variable -------------------------------------------------
def case_a():
    ocp = Ocp(T=2.0)
    p = ocp.state(); a = ocp.control()
    ocp.set_der(p, a)
    s = ocp.variable(grid='bspline', order=2)
    ocp.subject_to(ocp.at_t0(p) == 0)
    ocp.subject_to(ocp.at_t0(s) == 0)
    ocp.subject_to(ocp.at_tf(s) == 3)
    ocp.subject_to(ocp.next(s) - s <= 1.0)        # s may rise by at most 1.0 per control interval (5 intervals, rise 3: feasible)
    ocp.add_objective(ocp.sum(a**2) + ocp.sum(s**2))   # wants s small as long as possible -> late jump
    ocp.solver('ipopt', opts); ocp.method(SplineMethod(N=5))
    sol = ocp.solve()
    _, ss = sol.sample(s, grid='control')
    return ss, ocp._method.opti.ng

def rejected(fn, *a):
    try:
        return fn(*a), False
    except Exception as ex:
        if "not supported by SplineMethod" in str(ex):
            print("    rejected:", str(ex)[:100])
            return None, True
        raise
r, rej = rejected(case_a)
if rej:
    ss, ng = np.array([0.0, 0.0]), 0
else:
    ss, ng = r
inc = np.diff(ss)
print("(a) SplineMethod(N=5), B-spline variable s (order 2), s(t0)=0, s(tf)=3, declared: next(s)-s <= 1.0")
print("    s on the control grid      :", np.round(ss, 4))
print("    increments s_{k+1}-s_k     :", np.round(inc, 4), " max = %.4f" % inc.max())
if inc.max() > 1.0 + 1e-6:
    bad = True
    print("    -> declared rate limit 1.0 is violated (constraint rows in the NLP evaluate 0 <= 1.0)")

# ---- (b) time inside next(): SplineMethod vs MultipleShooting ---------------------------------
def case_b(method):
    ocp = Ocp(t0=0.0, T=2.0)
    p = ocp.state(); v = ocp.state(); a = ocp.control()
    ocp.set_der(p, v); ocp.set_der(v, a)
    ocp.subject_to(ocp.at_t0(p) == 0); ocp.subject_to(ocp.at_t0(v) == 2)
    ocp.subject_to(ocp.at_tf(p) == 0)
    # funnel that closes with the time of the NEXT node: p(t_k) <= 0.2*t_{k+1}
    ocp.subject_to(p <= 0.2 * ocp.next(ocp.t))
    ocp.add_objective(ocp.sum(a**2))
    ocp.solver('ipopt', opts); ocp.method(method)
    sol = ocp.solve()
    t, ps = sol.sample(p, grid='control')
    return np.array(t).squeeze(), ps, sol.value(ocp.sum(a**2))

t, p_ms, J_ms = case_b(MultipleShooting(N=5))
r, rej = rejected(case_b, SplineMethod(N=5))
_, p_sp, J_sp = (t, p_ms, J_ms) if rej else r
print("(b) declared: p(t_k) <= 0.2*t_{k+1}  (ocp.next(ocp.t)), k=0..N-1")
print("    bound 0.2*t_{k+1}          :", np.round(0.2 * t[1:], 4))
print("    MultipleShooting p(t_k)    :", np.round(p_ms[:-1], 4), " cost %.4f" % J_ms)
print("    SplineMethod     p(t_k)    :", np.round(p_sp[:-1], 4), " cost %.4f" % J_sp)
print("    SplineMethod obeys 0.2*t_k :", np.round(0.2 * t[:-1], 4), "(time not shifted)")
if np.abs(p_ms - p_sp).max() > 1e-5:
    bad = True
    print("    -> the two transcriptions of the same declaration differ: max |dp| = %.4f" % np.abs(p_ms - p_sp).max())

print()
print("Property C17 requires: 'under SplineMethod ... path constraints are imposed at every (refined) grid point' and")
print("'SplineMethod and the shooting/collocation methods define the same optimal trajectories'.")
if bad:
    print("VIOLATION (silent): next()/prev()/offset() do not shift B-spline signals nor time in SplineMethod.grid_control.")
    sys.exit(1)
print("no violation observed")
sys.exit(0)
