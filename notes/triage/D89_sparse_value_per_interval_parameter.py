"""C09: a per-interval parameter given a value with structural zeros (sparse casadi.DM) after transcription.

Column k of the value must apply on control interval k (with include_last: the extra column at the final node),
and a later set_value must replace the value of that parameter. When the value handed to a late
ocp.set_value is a casadi.DM with structural zeros - e.g. a reference whose second component is zero,
written as vertcat(xref, DM(1,N+1)), or DM(1,N), or a sparsify()-ed / computed matrix - rockit silently packs the
structural NONZEROS of the value into the first per-interval entries (column-major) and leaves the remaining entries at
their OLD values. Global (grid='') matrix parameters handle the same kind of value correctly (DM.eye works).
"""
import sys
import numpy as np
import casadi as ca
from rockit import Ocp, MultipleShooting, DirectCollocation, SingleShooting

OPTS = {"ipopt.print_level": 0, "print_time": False, "ipopt.sb": "yes"}
N = 4


def build(method):
    ocp = Ocp(T=2)
    x = ocp.state(2)
    u = ocp.control()
    q = ocp.parameter(grid='control')                          # disturbance per interval
    r = ocp.parameter(2, grid='control', include_last=True)    # reference per node
    A = ocp.parameter(2, 2)                                    # global matrix parameter (control group)
    ocp.set_der(x, A @ x + ca.vertcat(u, q))
    ocp.subject_to(ocp.at_t0(x) == 0)
    ocp.subject_to(-2 <= (u <= 2))
    ocp.add_objective(ocp.sum(ca.sumsqr(x - r), include_last=True) + ocp.integral(u**2))
    ocp.method(method)
    ocp.solver('ipopt', OPTS)
    return ocp, q, r, A


def nlp_at(ocp, xr):
    opti = ocp._method.opti
    F = ca.Function('F', [opti.x, opti.p], [opti.f, opti.g, opti.lbg, opti.ubg])
    return [np.array(e).ravel() for e in F(xr, ca.DM(opti.debug.value(opti.p)))]


# first values (dense), used for the first solve
q0 = np.array([[9., 9, 9, 9]])
r0 = 9*np.ones((2, N+1))
A0 = np.array([[0., 1], [-1, 0]])

# new values, written the casadi way: they contain structural zeros
xref = ca.DM([[1., 2, 3, 4, 5]])
r_new = ca.vertcat(xref, ca.DM(1, N+1))          # first component follows xref, second component zero
q_new = ca.sparsify(ca.DM([[0., 0.5, 0, 0.7]]))  # disturbance only on intervals 1 and 3
A_new = ca.DM.eye(2)                             # sparse as well, but a global parameter

violations = 0
try:
    for name, meth in [("MultipleShooting", lambda: MultipleShooting(N=N)),
                       ("DirectCollocation", lambda: DirectCollocation(N=N, degree=2)),
                       ("SingleShooting", lambda: SingleShooting(N=N))]:
        # history under test: values, solve, then new values with structural zeros, solve
        ocp, q, r, A = build(meth())
        ocp.set_value(q, q0); ocp.set_value(r, r0); ocp.set_value(A, A0)
        ocp.solve()
        ocp.set_value(q, q_new); ocp.set_value(r, r_new); ocp.set_value(A, A_new)
        sol = ocp.solve()
        q_seen = sol.sample(q, grid='control-')[1]
        r_seen = sol.sample(r, grid='control')[1].T
        A_seen = sol.value(A)
        x_late = sol.sample(ocp.x, grid='control')[1]

        # reference: the same OCP, the same numbers given as plain (dense) arrays before transcription
        ref, q_, r_, A_ = build(meth())
        ref.set_value(q_, np.array(ca.densify(q_new))); ref.set_value(r_, np.array(ca.densify(r_new))); ref.set_value(A_, np.array(ca.densify(A_new)))
        sol_ref = ref.solve()
        x_ref = sol_ref.sample(ref.x, grid='control')[1]

        xr = np.random.RandomState(0).rand(ocp._method.opti.x.numel())
        same_nlp = all(np.allclose(a, b, equal_nan=True) for a, b in zip(nlp_at(ocp, xr), nlp_at(ref, xr)))
        ok_q = np.allclose(q_seen, np.array(ca.densify(q_new)).ravel())
        ok_r = np.allclose(r_seen, np.array(ca.densify(r_new)))
        ok_A = np.allclose(A_seen, np.eye(2))
        print("%s: global matrix A as given: %s | per-interval q as given: %s | per-node r as given: %s | NLP == NLP of dense twin: %s"
              % (name, ok_A, ok_q, ok_r, same_nlp))
        if not (ok_q and ok_r and same_nlp):
            violations += 1
            print("   q required (column k on interval k):", np.array(ca.densify(q_new)).ravel(), " seen by the solver:", q_seen)
            print("   r required:\n", np.array(ca.densify(r_new)), "\n   r seen by the solver:\n", r_seen)
            print("   max |x_sol - x_sol(dense twin)| =", np.abs(x_late - x_ref).max())
except Exception as e:
    import traceback
    traceback.print_exc()
    print("Library raised an exception: not a silent violation")
    sys.exit(0)

if violations:
    print("VIOLATION: a late set_value of a per-interval parameter with a value that has structural zeros silently scrambles the")
    print("columns (nonzeros packed to the front) and keeps old values for the rest; the property requires column k on interval k")
    print("and that a later set_value replaces the parameter's value.")
    sys.exit(1)
print("no violation")
sys.exit(0)
