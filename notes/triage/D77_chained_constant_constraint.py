"""C20 finding 1: a constant two-sided constraint lb <= (c <= ub) is judged by evaluating the
chained comparison numerically (lb <= bool), so false ones are accepted and true ones rejected."""
import sys, os
sys.path.insert(0, os.path.join(os.path.dirname(os.path.abspath(__file__)), '..', '..'))
import casadi as ca
from rockit import Ocp, MultipleShooting

opts = {"ipopt.print_level": 0, "print_time": False, "ipopt.sb": "yes"}

def build(T=1):
    ocp = Ocp(T=T)
    x = ocp.state(); u = ocp.control()
    ocp.set_der(x, u)
    ocp.subject_to(ocp.at_t0(x) == 0)
    ocp.subject_to(ocp.at_tf(x) == 1)
    ocp.add_objective(ocp.integral(u**2))
    ocp.solver('ipopt', opts)
    ocp.method(MultipleShooting(N=4))
    return ocp

def outcome(decl, T=1):
    ocp = build(T)
    try:
        decl(ocp)
        ocp.solve()
        return "ACCEPTED (NLP solved)"
    except Exception as e:
        return "rejected: " + str(e).splitlines()[0][:90]

violations = 0
cases = [
    # description, declaration, T, is the constraint really true?
    ("0 <= (ocp.T <= 0.5), fixed T=1   [false]", lambda o: o.subject_to(0 <= (o.T <= 0.5)), 1, False),
    ("0 <= (MX(5) <= 1)                [false]", lambda o: o.subject_to(0 <= (ca.MX(5) <= 1)), 1, False),
    ("-1 <= (ocp.tf <= 0.5), tf=1      [false]", lambda o: o.subject_to(-1 <= (o.tf <= 0.5)), 1, False),
    ("1.5 <= (ocp.T <= 5), fixed T=2   [true] ", lambda o: o.subject_to(1.5 <= (o.T <= 5)), 2, True),
    ("2 <= (MX(5) <= 10)               [true] ", lambda o: o.subject_to(2 <= (ca.MX(5) <= 10)), 1, True),
    # one-sided reference cases, handled correctly
    ("ocp.T <= 0.5, fixed T=1          [false]", lambda o: o.subject_to(o.T <= 0.5), 1, False),
    ("ocp.T >= 0.5, fixed T=1          [true] ", lambda o: o.subject_to(o.T >= 0.5), 1, True),
]
for desc, decl, T, truth in cases:
    r = outcome(decl, T)
    accepted = r.startswith("ACCEPTED")
    bad = (accepted != truth)
    violations += bad
    print(("VIOLATION " if bad else "ok        ") + desc + " -> " + r)

print()
print("Property C20 requires: a constant constraint that is false raises; a constant true one is harmless.")
if violations:
    print("OBSERVED: %d case(s) judged wrongly (false two-sided constraints silently dropped, true ones rejected)." % violations)
    sys.exit(1)
print("No violation observed.")
sys.exit(0)
