# C06 finding 1: min=/max= bounds on the control-interval length are silently dropped
# (no NLP constraint, no error) whenever T is a number or depends on parameters only.
import sys
pass
import numpy as np
from rockit import Ocp, MultipleShooting, SingleShooting, DirectCollocation, UniformGrid, GeometricGrid

OPTS = {"ipopt.print_level": 0, "print_time": False, "ipopt.sb": "yes"}

def run(method_cls, grid, parametric):
    ocp = Ocp(t0=0, T=1)
    x = ocp.state(); u = ocp.control()
    ocp.set_der(x, u)
    ocp.subject_to(ocp.at_t0(x) == 0)
    ocp.subject_to(-1 <= (u <= 1))
    if parametric:
        p = ocp.parameter()
        ocp.set_T(p)
        ocp.set_value(p, 1)
    ocp.add_objective(ocp.at_tf(x))
    ocp.solver('ipopt', OPTS)
    ocp.method(method_cls(N=4, M=2, grid=grid))
    try:
        sol = ocp.solve()
    except Exception as e:
        return "rejected (%s)" % str(e).splitlines()[-1][:80], None
    t, _ = sol.sample(x, grid='control')
    return "solved", np.diff(t)

violations = 0
cases = [
    ("UniformGrid(max=0.1)", lambda: UniformGrid(max=0.1), lambda d: np.all(d <= 0.1 + 1e-8)),
    ("UniformGrid(min=0.5)", lambda: UniformGrid(min=0.5), lambda d: np.all(d >= 0.5 - 1e-8)),
    ("UniformGrid(max=0.1,localize_T=True)", lambda: UniformGrid(max=0.1, localize_T=True), lambda d: np.all(d <= 0.1 + 1e-8)),
    ("UniformGrid(max=0.1,localize_t0=True)", lambda: UniformGrid(max=0.1, localize_t0=True), lambda d: np.all(d <= 0.1 + 1e-8)),
    ("GeometricGrid(2,max=0.1)", lambda: GeometricGrid(2, max=0.1), lambda d: np.all(d <= 0.1 + 1e-8)),
]
for parametric in [False, True]:
    for M in [MultipleShooting, SingleShooting, DirectCollocation]:
        for name, mk, ok in cases:
            status, d = run(M, mk(), parametric)
            if d is not None and not ok(d):
                violations += 1
                print("VIOLATION  T=%s  %-16s %-40s -> %s, interval lengths %s" % ("parameter(=1)" if parametric else "1 (number)", M.__name__, name, status, np.round(d, 4)))
            else:
                print("ok         T=%s  %-16s %-40s -> %s" % ("parameter" if parametric else "number", M.__name__, name, status))

print()
print("Required by C06: min/max bounds on the control-interval length are enforced (a violated bound must")
print("make the problem infeasible / be rejected); observed: %d configurations solved 'successfully' with" % violations)
print("interval lengths outside [min,max] and without any grid-bound constraint in the NLP.")
sys.exit(1 if violations else 0)
