"""C12 finding 3: clone() does not re-bind T/t0 inside ocp.next/prev/offset expressions.

A stage with a horizon-scaled increment bound  next(x*T) - x*T <= 1  is cloned from a sibling stage
(the pattern of examples/bounce_loop.py) with an overridden horizon T=4.
Required: the clone equals a stage declared directly with the same content and T=4:
          4*(x[k+1]-x[k]) <= 1  ->  x = [0, 0.25, 0.5].
Observed: the `next(...)` half of the constraint keeps referring to the *template's* T (=1), the other half
          uses the clone's T (=4):  1*x[k+1] - 4*x[k] <= 1  ->  x = [0, 1, 5].  No error.
(With a template that is not part of the OCP tree the same configuration fails loudly with a free 'r_T'.)
"""
import sys
sys.path.insert(0, '/tmp/nxdeps')
import numpy as np
from rockit import Ocp, Stage, MultipleShooting
OPTS = {"ipopt.print_level": 0, "print_time": False, "ipopt.sb": "yes"}

def content(s):
    x = s.state(); u = s.control()
    s.set_der(x, u)
    s.subject_to(s.at_t0(x) == 0)
    s.subject_to(s.next(x*s.T) - x*s.T <= 1)     # horizon-scaled increment bound
    s.subject_to(u <= 100)
    s.add_objective(-s.at_tf(x))
    s.method(MultipleShooting(N=2))
    return x

# declared directly
A = Ocp()
a1 = A.stage(T=1); xa1 = content(a1)
a2 = A.stage(t0=1, T=4); xa2 = content(a2)
A.solver('ipopt', OPTS)
sa = A.solve()
ref = sa(a2).sample(xa2, grid='control')[1]

# second stage cloned from the first one, horizon overridden
B = Ocp()
b1 = B.stage(T=1); xb = content(b1)
b2 = B.stage(b1, t0=1, T=4)
B.solver('ipopt', OPTS)
sb = B.solve()
got = sb(b2).sample(xb, grid='control')[1]

print("stage 2 declared directly (T=4): x =", ref)
print("stage 2 cloned from stage 1, T=4 : x =", got)
print("required: identical (increments <= 1/T = 0.25)")
if not np.allclose(ref, got, atol=1e-5):
    print("VIOLATION (silent): the offset expression of the clone still uses the template's T")
    sys.exit(1)
print("no violation")
sys.exit(0)
