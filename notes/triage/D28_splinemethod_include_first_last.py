import sys
sys.path.insert(0, '/tmp/nxdeps')
from rockit import *
import numpy as np
def run(Meth):
    ocp = Ocp(T=2.0)
    x = ocp.state(); u = ocp.control()
    ocp.set_der(x, u)
    ocp.subject_to(ocp.at_t0(x) == 0)
    ocp.subject_to(x >= 0.5, include_first=False)        # must not apply at t0
    ocp.subject_to(x <= 0.8, include_last=False)         # must not apply at tf
    ocp.subject_to(ocp.at_tf(x) == 1)
    ocp.add_objective(ocp.sum(u**2, include_last=True))
    ocp.method(Meth(N=4)); ocp.solver('ipopt', {"ipopt.print_level": 0, "print_time": False})
    try:
        sol = ocp.solve(); return "solved", np.round(np.array(sol.sample(x, grid='control')[1]).flatten(), 3)
    except Exception as e:
        return "FAILED", str(e).split("\n")[-1][:60]
a = run(MultipleShooting); b = run(SplineMethod)
print("MultipleShooting:", a); print("SplineMethod:   ", b)
ok = a[0] == "solved" and (b[0] == "solved" and np.allclose(a[1], b[1], atol=1e-3) or "not supported" in str(b[1]))
print("PASS" if ok else "FAIL"); sys.exit(0 if ok else 1)
