# C13 finding 4: calls that are REJECTED with an exception have already modified the declaration.
#  - set_next() on a stage that has set_der(): AssertionError, but the state now has an update rule and the next
#    solve silently transcribes a discrete-time system (set_der is ignored from then on, and can no longer be called)
#  - add_objective(vector): Exception, but the objective has become a vector (every later solve fails / see finding 1)
import sys
pass
import numpy as np
from rockit import Ocp, MultipleShooting
OPTS = {"ipopt.print_level": 0, "print_time": False, "ipopt.sb": "yes"}

def build(mistake):
    ocp = Ocp(T=2)
    x = ocp.state(); u = ocp.control()
    ocp.set_der(x, u)
    rejected = None
    if mistake:
        try:
            ocp.set_next(x, x + 10*u)
        except BaseException as e:
            rejected = e
    ocp.add_objective(ocp.sum(u**2) + ocp.at_tf(x)**2)
    ocp.subject_to(ocp.at_t0(x) == 1)
    ocp.method(MultipleShooting(N=4)); ocp.solver('ipopt', OPTS)
    return ocp, x, u, rejected

violation = False
ocp, x, u, _ = build(False)
ref = ocp.solve().sample(x, grid='control')[1]
ocp, x, u, rej = build(True)
print("set_next after set_der rejected with:", type(rej).__name__)
got = ocp.solve().sample(x, grid='control')[1]
print("x trajectory, clean OCP (dx/dt = u)     :", ref)
print("x trajectory after the rejected set_next:", got, " (x+ = x + 10 u was transcribed)")
if rej is not None and not np.allclose(ref, got, atol=1e-6): violation = True
try:
    ocp.set_der(x, u); print("set_der still possible")
except AssertionError:
    print("set_der is now impossible (AssertionError: _state_next is not empty)")

ocp = Ocp(T=2); y = ocp.state(2); ocp.set_der(y, -y)
before = ocp.objective
try:
    ocp.add_objective(ocp.at_tf(y))
    print("vector objective accepted")
except Exception as e:
    print("add_objective(vector) rejected with:", e)
    print("ocp.objective shape afterwards:", getattr(ocp.objective, "shape", "scalar 0 (unchanged)"), "(was scalar 0)")
    if ocp.objective.shape != (1, 1): violation = True
print("REQUIRED: a rejected change leaves the specification untouched (honoured OR rejected)")
sys.exit(1 if violation else 0)
