import sys
from rockit import *
import numpy as np
ocp = Ocp(T=1.0)
x = ocp.state(); u = ocp.control()
ocp.set_der(x, u); ocp.subject_to(ocp.at_t0(x) == 0); ocp.subject_to(ocp.at_tf(x) == 1); ocp.add_objective(ocp.integral(u**2))
ocp.method(MultipleShooting(N=4)); ocp.solver('ipopt', {"ipopt.print_level": 0, "print_time": False})
sol = ocp.solve()
t_all, _ = sol.sample(x, grid='control')
t_tail, x_tail = sol.sample(x, grid='control-')
t_head, x_head = sol.sample(x, grid='-control')
print("control :", t_all); print("control-:", t_tail); print("-control:", t_head)
ok = np.allclose(t_tail, t_all[:-1]) and np.allclose(t_head, t_all[1:]) and len(x_head) == len(t_head)
print("PASS" if ok else "FAIL"); sys.exit(0 if ok else 1)
