"""D10/D43: every kind of parameter and variable (global, per-interval, vector-valued B-spline parameter, B-spline variable) in the dynamics and in a refined sample; exits 1 when a value is read from the wrong slot."""
import sys
bad = []
from rockit import *
import numpy as np
from casadi import *
opts={"ipopt.print_level":0,"print_time":False,"ipopt.sb":"yes"}
def run(method, label):
    ocp = Ocp(T=2.0)
    x = ocp.state(); y = ocp.state()
    pb = ocp.parameter(2, grid='bspline', order=1)     # vector-valued bspline parameter
    vb = ocp.variable(grid='bspline', order=1)
    pg = ocp.parameter()
    pc = ocp.parameter(grid='control')
    v = ocp.variable()
    vc = ocp.variable(grid='control')
    ocp.set_der(x, pb[0] + 10*pb[1] + 100*v + 1000*pg)
    ocp.set_der(y, vb + 0.1*pc + 0.01*vc)
    ocp.subject_to(ocp.at_t0(x)==0); ocp.subject_to(ocp.at_t0(y)==0)
    ocp.subject_to(v==1); ocp.subject_to(vc==3, include_last=False); ocp.subject_to(vb==5)
    ocp.add_objective(ocp.at_tf(x))
    N=2
    ocp.set_value(pb, DM([[2]*(N+1),[4]*(N+1)]))
    ocp.set_value(pg, 7); ocp.set_value(pc, DM([[6,6]]))
    ocp.method(method(N))
    ocp.solver('ipopt',opts)
    sol = ocp.solve()
    xs = sol.sample(x,grid='control')[1]; ys = sol.sample(y,grid='control')[1]
    ex = 2+40+100+7000; ey = 5+0.6+0.03
    okc = abs(xs[-1]-2*ex)<1e-6*ex and abs(ys[-1]-2*ey)<1e-6
    tr, er = sol.sample(pb[0]+10*pb[1]+100*v+1000*pg + 1e4*(vb+0.1*pc+0.01*vc), grid='integrator', refine=3)
    okr = np.allclose(er, ex+1e4*ey)
    print(label, "x(tf)=%g (want %g) y(tf)=%g (want %g) refined expr ok=%s" % (xs[-1], 2*ex, ys[-1], 2*ey, okr), "OK" if okc and okr else "WRONG")
    if not (okc and okr): bad.append(label)
run(lambda N: MultipleShooting(N=N, M=2, intg='rk'), "MS")
run(lambda N: SingleShooting(N=N, M=2, intg='rk'), "SS")
run(lambda N: DirectCollocation(N=N, M=2), "DC")

sys.exit(1 if bad else 0)
