from rockit import *
import numpy as np
# DAE: x' = -x, 0 = z - (2x + t);  x(0)=1  -> z(0)=2
for Meth, kw in ((MultipleShooting, dict(N=4, M=1, intg='idas')), (SingleShooting, dict(N=4, M=2, intg='idas')), (DirectCollocation, dict(N=4, M=1))):
    ocp = Ocp(T=1.0)
    x = ocp.state(); z = ocp.algebraic()
    ocp.set_der(x, -x); ocp.add_alg(z - (2*x + ocp.t))
    ocp.subject_to(ocp.at_t0(x) == 1)
    ocp.add_objective(ocp.at_tf(x))
    ocp.method(Meth(**kw))
    ocp.solver('ipopt', {"ipopt.print_level": 0, "print_time": False})
    sol = ocp.solve()
    ts, zs = sol.sample(z, grid='control')
    ts, xs = sol.sample(x, grid='control')
    print(Meth.__name__, "z sampled:", np.round(zs, 4), " 2x+t:", np.round(2*xs+ts, 4), " at_t0(z)=", sol.value(ocp.at_t0(z)))
