"""
C11: a two-sided path constraint whose node instances depend on the horizon only (ocp.t, ocp.T, ocp.t0, ocp.tf)
is a real constraint on T / t0 when the horizon is free, but with the horizon given as fixed numbers its violated
instances are silently accepted: the chain lb <= (g <= ub) has folded into lb <= (0 or 1) by the time it is judged.
"""
import sys
import numpy as np
import casadi as ca
from rockit import Ocp, FreeTime, MultipleShooting, SingleShooting, DirectCollocation

SOLV = {"ipopt.print_level": 0, "print_time": False, "ipopt.sb": "yes"}
c, c0 = 1.0, 0.0

def build(T, t0, method, cons):
    ocp = Ocp(T=T, t0=t0)
    x = ocp.state(); u = ocp.control()
    ocp.set_der(x, u)
    ocp.subject_to(ocp.at_t0(x) == 0)
    ocp.subject_to(ocp.at_tf(x) == 1)
    ocp.subject_to(-5 <= (u <= 5))
    cons(ocp)
    ocp.add_objective(ocp.integral(u**2))
    ocp.method(method)
    ocp.solver('ipopt', SOLV)
    return ocp

def horizon_rows(ocp, free):
    """rows of the NLP that depend on the horizon variables only, evaluated at T=c, t0=c0"""
    ocp._transcribed
    opti = ocp._method.opti
    hv = []
    if "T" in free: hv.append(ocp.value(ocp.T))
    if "t0" in free: hv.append(ocp.value(ocp.t0))
    F = ca.Function('F', [opti.x, opti.p], [opti.g, opti.lbg, opti.ubg, ca.jacobian(opti.g, opti.x), ca.jacobian(ca.vcat(hv), opti.x)])
    x = np.random.rand(opti.nx)
    g, lb, ub, J, JH = [np.array(e) for e in F(x, [])]
    idx = [int(np.nonzero(JH[i, :])[0][0]) for i in range(JH.shape[0])]
    for i, v in zip(idx, [c] * ("T" in free) + [c0] * ("t0" in free)):
        x[i] = v
    g, lb, ub, J, JH = [np.array(e) for e in F(x, [])]
    g, lb, ub = g.reshape(-1), lb.reshape(-1), ub.reshape(-1)
    rows = []
    for r in range(J.shape[0]):
        cols = set(np.nonzero(J[r, :])[0])
        if cols and cols <= set(idx):
            rows.append((float(lb[r]), float(g[r]), float(ub[r])))
    return rows

cases = [
    ("0 <= (ocp.t <= 0.5)",                              ("T",),      lambda ocp: ocp.subject_to(0 <= (ocp.t <= 0.5))),
    ("0 <= (ocp.t <= 0.5), grid='integrator'",           ("T",),      lambda ocp: ocp.subject_to(0 <= (ocp.t <= 0.5), grid='integrator')),
    ("-1 <= (ocp.t - ocp.tf/2 <= 0.25), include_first=False", ("T", "t0"), lambda ocp: ocp.subject_to(-1 <= (ocp.t - ocp.tf/2 <= 0.25), include_first=False)),
]
methods = [("MultipleShooting", lambda: MultipleShooting(N=2, M=2)), ("SingleShooting", lambda: SingleShooting(N=2, M=2)), ("DirectCollocation", lambda: DirectCollocation(N=2, M=2, degree=2))]

bad = False
for name, free, cons in cases:
    for mname, mk in methods:
        try:
            ocp_free = build(FreeTime(c) if "T" in free else c, FreeTime(c0) if "t0" in free else c0, mk(), cons)
            ocp_free._transcribed
        except Exception as e:
            print(name, mname, ": free-time problem rejected:", str(e).strip().split("\n")[-1][:100]); continue
        rows = horizon_rows(ocp_free, free)
        violated = [r for r in rows if r[1] < r[0] - 1e-9 or r[1] > r[2] + 1e-9]
        try:
            ocp_fixed = build(c, c0, mk(), cons)
            sol = ocp_fixed.solve()
            fixed = "accepted and solved, t grid = %s" % sol.sample(ocp_fixed.t, grid='control')[1]
            accepted = True
        except Exception as e:
            fixed = "rejected: " + str(e).strip().split("\n")[-1][:80]
            accepted = False
        print("%-18s %s   free: %s" % (mname, name, free))
        print("      free-time NLP at T=%g, t0=%g: %d horizon-only rows, %d of them violated, e.g. %s" % (c, c0, len(rows), len(violated), violated[:2]))
        print("      fixed-number twin: %s" % fixed)
        if violated and accepted:
            bad = True
            print("      VIOLATION: the restriction of the free-time NLP to (T,t0)=(%g,%g) is infeasible, the fixed-number OCP is accepted: its violated constraint instances were dropped" % (c, c0))

print()
print("Property C11 requires the free-time NLP restricted to T=c (t0=c0) to have the same constraints as the OCP declared with the fixed numbers.")
sys.exit(1 if bad else 0)
