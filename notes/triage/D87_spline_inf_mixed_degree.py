"""
C15 violation (SplineMethod): a grid='inf' constraint that combines members of one integrator chain that are
B-splines of different degree (e.g. position p and velocity v=dp/dt, or v and the control a) is split per
degree ("width") and every part is bounded on its own:

     p + v <= 1   (grid='inf')      is transcribed as      coeffs(p) <= 1   AND   coeffs(v) <= 1

so p(t)+v(t) may be as large as 2. No exception, no warning.

Reference: the property itself (p+v <= 1 at every time) and the same OCP transcribed with MultipleShooting ('rk'),
whose grid='inf' rows do keep p+v <= 1.
"""
import sys
import numpy as np
sys.path.append('/tmp/nxdeps')   # networkx for SplineMethod
import rockit
from rockit import Ocp, MultipleShooting, SplineMethod

OPTS = {"ipopt.print_level": 0, "print_time": False, "ipopt.sb": "yes"}


def solve(method, grid_for_sampling):
    ocp = Ocp(T=2.0)
    p = ocp.state(); v = ocp.state(); a = ocp.control()
    ocp.set_der(p, v); ocp.set_der(v, a)
    ocp.subject_to(ocp.at_t0(p) == 0); ocp.subject_to(ocp.at_t0(v) == 0)
    ocp.subject_to(-5 <= (a <= 5))
    ocp.subject_to(p + v <= 1, grid='inf')        # <- constraint under test
    ocp.add_objective(-ocp.at_tf(p))
    ocp.method(method)
    ocp.solver('ipopt', OPTS)
    try:
        sol = ocp.solve()
    except Exception as ex:
        if "different degree" in str(ex):
            print("rejected:", str(ex)[:90])
            return float('-inf'), 0.0, 0.0, 0.0
        raise
    ts, e = sol.sample(p + v, grid=grid_for_sampling, refine=25)
    ts, ps = sol.sample(p, grid=grid_for_sampling, refine=25)
    ts, vs = sol.sample(v, grid=grid_for_sampling, refine=25)
    return float(np.max(e)), float(np.max(ps)), float(np.max(vs)), float(sol.value(ocp.at_tf(p)))

print("rockit from", rockit.__file__)
bad = False
for N in [6, 20]:
    m, mp, mv, obj = solve(SplineMethod(N=N), 'control')
    print("SplineMethod(N=%2d):      max_t (p+v)(t) = %.4f   [max p = %.4f, max v = %.4f]  p(tf) = %.4f" % (N, m, mp, mv, obj))
    if m > 1 + 1e-4:
        bad = True
m, mp, mv, obj = solve(MultipleShooting(N=6, M=2, intg='rk'), 'integrator')
print("MultipleShooting(N=6,M=2): max_t (p+v)(t) = %.4f   [max p = %.4f, max v = %.4f]  p(tf) = %.4f  (reference)" % (m, mp, mv, obj))
print()
print("Property C15 requires max_t (p+v)(t) <= 1 at every NLP point satisfying the 'inf' rows, or a rejection of the problem.")
if bad:
    print("VIOLATION: SplineMethod bounds p and v separately (each <= 1); their sum exceeds the bound, silently.")
    sys.exit(1)
print("no violation observed")
sys.exit(0)
