# C13 finding 2: set_initial() (and ocp.solver()) keep a REFERENCE to the caller's array / dict.
# The guess that is applied is whatever the buffer contains later on - every later set_initial of ANY symbol
# (and every re-transcription) re-applies it. set_value() does take a private copy.
import sys
pass
import numpy as np
from rockit import Ocp, MultipleShooting
OPTS = {"ipopt.print_level": 0, "print_time": False, "ipopt.sb": "yes"}

def build():
    ocp = Ocp(T=2)
    x = ocp.state(); y = ocp.state(); u = ocp.control()
    ocp.set_der(x, u); ocp.set_der(y, x)
    ocp.add_objective(ocp.integral(u**2) + ocp.at_tf(x)**2)
    ocp.subject_to(ocp.at_t0(x) == 1)
    ocp.method(MultipleShooting(N=4))
    return ocp, x, y, u

def guess(ocp, sym):
    aug = ocp._transcribed; o = aug._method.opti
    return np.array(o.debug.value(aug.sample(sym, grid='control')[1], o.initial())).ravel()

violation = False
# (a) before transcription: one buffer reused for two guesses
ocp, x, y, u = build(); ocp.solver('ipopt', OPTS)
buf = np.zeros(5)
buf[:] = 1; ocp.set_initial(x, buf)
buf[:] = 5; ocp.set_initial(y, buf)
gx = guess(ocp, x)
print("(a) declared x guess = 1, y guess = 5 ; x guess used:", gx)
if not np.allclose(gx, 1): violation = True

# (b) after transcription: an unrelated set_initial silently rewrites the x guess
ocp, x, y, u = build(); ocp.solver('ipopt', OPTS)
buf = np.zeros(5); buf[:] = 1
ocp.set_initial(x, buf)
g1 = guess(ocp, x)
buf[:] = 5                      # user recycles his buffer for something else
ocp.set_initial(u, 0.1)         # unrelated call
g2 = guess(ocp, x)
print("(b) x guess after transcription:", g1, " after ocp.set_initial(u, 0.1):", g2)
if not np.allclose(g2, 1): violation = True

# (c) solver options dict is aliased as well
ocp, x, y, u = build()
opts = dict(OPTS); opts["ipopt.max_iter"] = 50
ocp.solver('ipopt', opts)
opts["ipopt.max_iter"] = 0      # meant for another OCP
try:
    sol = ocp.solve(); it = sol.stats["iter_count"]
    print("(c) solved with", it, "iterations")
except Exception as e:
    print("(c) solve failed:", str(e).split("return_status is")[-1].strip(), " <-- max_iter=0 leaked into this OCP")
    violation = True
print("REQUIRED: the guess/solver settings are those given at the time of the call (as for set_value, which copies)")
sys.exit(1 if violation else 0)
