"""C17 finding 1: under SplineMethod the 'gist' grid of every non-head member of an
integrator chain (v, a in p'=v, v'=a; also ocp.der(q) of q=control(order>=2)) reports the
Greville abscissae of the chain HEAD's degree instead of its own degree.
ocp.sample(v, grid='gist') silently returns a time vector whose length and values do not
match the coefficient vector; sol.sample(v, grid='gist') crashes on the length mismatch."""
import sys
sys.path.insert(0, '/tmp/nxdeps')
import numpy as np, casadi as ca
from rockit import Ocp, SplineMethod, GeometricGrid

N = 4
grid = GeometricGrid(3)
t0, T = 0.5, 2.0
ocp = Ocp(t0=t0, T=T)
p = ocp.state(); v = ocp.state(); a = ocp.control()
ocp.set_der(p, v); ocp.set_der(v, a)
ocp.subject_to(ocp.at_t0(p) == 0); ocp.subject_to(ocp.at_t0(v) == 0)
ocp.subject_to(ocp.at_tf(p) == 1); ocp.subject_to(ocp.at_tf(v) == 0)
ocp.add_objective(ocp.sum(a**2, include_last=True))
ocp.solver('ipopt', {"ipopt.print_level": 0, "print_time": False, "ipopt.sb": "yes"})
ocp.method(SplineMethod(N=N, grid=grid))
sol = ocp.solve()

xi = np.array(grid(0, 1, N)).ravel()
def greville(d):
    if d == 0: return (xi[1:] + xi[:-1]) / 2
    kn = np.concatenate([[xi[0]]*d, xi, [xi[-1]]*d])
    return np.array([kn[i+1:i+d+1].mean() for i in range(N + d)])

bad = False
for name, e, d in [("p", p, 2), ("v", v, 1), ("a", a, 0)]:
    tg, cg = ocp.sample(e, grid='gist')           # symbolic API: no error raised
    tg = np.array(sol.value(tg)).ravel(); cg = np.array(sol.value(cg)).ravel()
    req = t0 + T*greville(d)
    ok = len(tg) == len(cg) and len(tg) == len(req) and np.allclose(tg, req)
    print("%s (degree %d): %d coefficients, gist times reported: %s" % (name, d, len(cg), tg))
    print("      required Greville points of degree %d:        %s   -> %s" % (d, req, "ok" if ok else "VIOLATION"))
    bad = bad or not ok
try:
    sol.sample(v, grid='gist')
    print("sol.sample(v, grid='gist') worked")
except Exception as ex:
    print("sol.sample(v, grid='gist') raises:", type(ex).__name__, str(ex)[:80])
print("Property C17 requires: coefficients of every state/control under SplineMethod sit at the Greville points of ITS OWN degree.")
sys.exit(1 if bad else 0)
