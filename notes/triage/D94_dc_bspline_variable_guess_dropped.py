"""
C10 violation: DirectCollocation silently ignores set_initial() of a variable(grid='bspline', order>=1).

The guess is a plain constant (3.0). The property requires the starting value of the
decision variable, read back in physical units, to be 3.0 everywhere. A B-spline whose
coefficients all equal c is identically c, so the reference is a closed form; as a second
reference the very same declaration with order=0 (and a plain global variable) is shown.
"""
import sys
import numpy as np
import casadi as ca
from rockit import Ocp, DirectCollocation

opts = {"ipopt.print_level": 0, "print_time": False, "ipopt.sb": "yes", "ipopt.max_iter": 0}


def build(order, when):
    ocp = Ocp(t0=1, T=2)
    ocp.solver('ipopt', opts)
    ocp.method(DirectCollocation(N=4, M=1))
    x = ocp.state()
    u = ocp.control()
    b = ocp.variable(grid='bspline', order=order)
    v = ocp.variable()
    ocp.set_der(x, u + b)
    ocp.add_objective(ocp.integral(x**2 + u**2 + (b - 2)**2) + v**2)
    ocp.subject_to(ocp.at_t0(x) == 1)
    if when == 'after':
        ocp.sample(x, grid='control')  # forces the transcription
    ocp.set_initial(b, 3.0)
    ocp.set_initial(v, 3.0)
    return ocp, b, v


bad = False
try:
    for order in [0, 1, 2, 3]:
        for when in ['before', 'after']:
            ocp, b, v = build(order, when)
            start_b = np.array(ocp.initial_value(ocp.sample(b, grid='control')[1])).flatten()
            start_b_fine = np.array(ocp.initial_value(ocp.sample(b, grid='integrator', refine=3)[1])).flatten()
            start_v = float(ocp.initial_value(ocp.value(v)))
            # what ipopt really starts from: 0 iterations
            try:
                sol = ocp.solve()
            except Exception:
                sol = ocp.non_converged_solution
            it0_b = np.array(sol.sample(b, grid='control')[1]).flatten()
            ok = np.allclose(start_b, 3.0) and np.allclose(start_b_fine, 3.0) and np.allclose(it0_b, 3.0)
            print("order=%d guess given %-6s transcription: b at start = %s (iterate 0: %s), global v at start = %g  -> %s"
                  % (order, when, start_b, it0_b, start_v, "ok" if ok else "VIOLATION (required: 3.0 at every node)"))
            if not ok:
                bad = True
except Exception as e:
    print("library rejected the input:", str(e)[:300])
    sys.exit(0)

if bad:
    print("\nObserved: set_initial(b, 3.0) of a grid='bspline' variable of order>=1 is dropped without a message under DirectCollocation;")
    print("the solver starts from b=0. Required by C10: 'constants everywhere', 'apply to every method', for 'variables of each grid kind'.")
    sys.exit(1)
print("no violation")
sys.exit(0)
