"""C20 finding 2: a discrete-time model (set_next) with algebraic variables / add_alg is transcribed
with the algebraic equations, and every constraint or objective term that involves z, silently dropped."""
import sys, os
sys.path.insert(0, os.path.join(os.path.dirname(os.path.abspath(__file__)), '..', '..'))
import casadi as ca
from rockit import Ocp, MultipleShooting, SingleShooting

opts = {"ipopt.print_level": 0, "print_time": False, "ipopt.sb": "yes"}
violations = 0

for Method in [MultipleShooting, SingleShooting]:
    for variant in ["alg equation without algebraic variable", "algebraic variable constrained and in objective"]:
        ocp = Ocp(T=1)
        x = ocp.state(); u = ocp.control()
        ocp.set_next(x, x + u)
        ocp.subject_to(ocp.at_t0(x) == 0)
        ocp.add_objective(ocp.sum(u**2))
        if variant.startswith("alg equation"):
            ocp.add_alg(x - u - 5)            # 1 algebraic equation, 0 algebraic variables: ill-posed
        else:
            z = ocp.algebraic()
            ocp.add_alg(z - u - 5)            # z = u+5
            ocp.subject_to(z <= 3)            # => u <= -2
            ocp.add_objective(ocp.sum(z))
        ocp.solver('ipopt', opts)
        ocp.method(Method(N=4))
        try:
            sol = ocp.solve()
        except Exception as e:
            print("ok        %s / %s: rejected: %s" % (Method.__name__, variant, str(e).splitlines()[0][:80]))
            continue
        violations += 1
        us = sol.sample(u, grid='control')[1]
        opti = ocp._method.opti
        print("VIOLATION %s / %s: accepted and solved; u=%s" % (Method.__name__, variant, us))
        print("          NLP objective: %s" % str(opti.f)[:100])
        if variant.startswith("alg equation"):
            print("          (1 algebraic equation for 0 algebraic variables went unnoticed; x-u-5=0 is not enforced)")
        else:
            print("          (no term in z, no constraint z<=3, no algebraic equation; u=0 violates z=u+5<=3)")

print()
print("Property C20 requires: algebraic equations with a scheme that cannot represent them raise an exception.")
if violations:
    print("OBSERVED: %d ill-posed discrete-time DAE specification(s) silently transcribed." % violations)
    sys.exit(1)
print("No violation observed.")
sys.exit(0)
