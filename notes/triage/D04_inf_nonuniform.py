# C15: inf constraint on non-uniform grid: is certificate valid?
from rockit import *
import numpy as np
from casadi import *
def run(grid, N=2, M=1):
    ocp = Ocp(T=1.0)
    x = ocp.state(); 
    u = ocp.control()
    ocp.set_der(x, u)
    ocp.subject_to(ocp.at_t0(x)==0)
    ocp.subject_to(x<=0.5, grid='inf')
    ocp.subject_to(-10<=(u<=10))
    ocp.add_objective(-ocp.integral(x))
    ocp.method(MultipleShooting(N=N, M=M, intg='rk', grid=grid))
    ocp.solver('ipopt',{"ipopt.print_level":0,"print_time":False,"ipopt.sb":"yes"})
    sol = ocp.solve()
    ts, xs = sol.sample(x, grid='integrator', refine=50)
    print(type(grid).__name__, "max x over refined", xs.max(), " (bound 0.5)", "grid", sol.sample(x,grid='control')[0])
run(UniformGrid())
run(GeometricGrid(4))
run(GeometricGrid(8), N=3)
