from rockit import *
import numpy as np
for Meth in (MultipleShooting, SingleShooting, DirectCollocation):
    ocp = Ocp(T=1.0)
    x = ocp.state(); u = ocp.control()
    ocp.set_der(x, u)
    ocp.add_objective(ocp.integral(u**2))
    ocp.subject_to(ocp.at_t0(x)==0)
    ocp.set_initial(u, ocp.t)
    ocp.method(Meth(N=4))
    ocp.solver('ipopt', {"ipopt.max_iter":0, "ipopt.print_level":0, "print_time":False})
    try:
        sol = ocp.solve()
    except Exception as e:
        sol = ocp.non_converged_solution
    opti = ocp._method.opti if hasattr(ocp._method,'opti') else None
    ts, us = ocp.sample(u, grid='control')
    o = ocp._augmented._method.opti
    print(Meth.__name__, o.debug.value(us, o.initial()))
