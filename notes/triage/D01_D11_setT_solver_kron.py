from rockit import *
import numpy as np
from casadi import *
def build(method, T=1.0):
    ocp = Ocp(T=T)
    x = ocp.state(); u = ocp.control()
    ocp.set_der(x,u)
    ocp.subject_to(ocp.at_t0(x)==0)
    ocp.subject_to(-1<=(u<=1))
    ocp.add_objective(-ocp.at_tf(x))
    ocp.method(method)
    ocp.solver('ipopt',{"ipopt.print_level":0,"print_time":False,"ipopt.sb":"yes"})
    return ocp,x,u
# kron
ocp,x,u = build(DirectCollocation(N=3,M=2,degree=2))
try:
    ocp.set_initial(x, DM([[1,2,3,4]]))
    ocp._transcribed
    print("DC array guess OK:", ocp.initial_value(ocp.sample(x,grid='integrator')[1]))
except Exception as e:
    print("DC array guess RAISED", type(e).__name__, e)
# set_T after solve
ocp,x,u = build(MultipleShooting(N=3))
sol = ocp.solve(); print("T=1: x(tf)=", sol.sample(x,grid='control')[1][-1])
ocp.set_T(2.0)
sol = ocp.solve(); print("after set_T(2): x(tf)=", sol.sample(x,grid='control')[1][-1], "(expected 2)")
# solver after solve
ocp,x,u = build(MultipleShooting(N=3))
sol = ocp.solve()
ocp.solver('ipopt',{"ipopt.print_level":0,"print_time":False,"ipopt.sb":"yes","ipopt.max_iter":0})
try:
    sol = ocp.solve(); print("after solver(max_iter=0): iter_count", sol.stats["iter_count"], "return", sol.stats["return_status"])
except Exception as e:
    print("raised", str(e)[:100])
