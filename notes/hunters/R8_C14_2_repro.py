"""C14 / finding 2: scale= of a constraint is silently dropped at three creation sites.

  (a) point constraints declared on a stage without a sampling method - in particular the
      master Ocp of a multi-stage problem (the stitching constraints)   -> DirectMethod.transcribe
  (b) path constraints with grid='inf' (every sampling method)          -> SamplingMethod.add_inf_constraints
  (c) path constraints (grid 'control' and 'inf') under SplineMethod    -> SplineMethod.add_constraints_*

Reference = the numbers the property prescribes: "every constraint residual and its bounds are divided by
its scale", i.e. with scale=s the rows of the NLP must read lbg/s <= g(x)/s <= ubg/s.  A control case
(the same constraint on grid='control' with MultipleShooting) shows that the prescription is met elsewhere.
"""
import sys, io, contextlib
sys.path.append('/tmp/nxdeps')
import numpy as np
from casadi import DM, MX, Function, vertcat, sumsqr, inf
import rockit
from rockit import Ocp, Stage, MultipleShooting, DirectCollocation
assert rockit.__file__.startswith('/tmp/wt9/C14'), rockit.__file__
OPTS = {"ipopt.print_level": 0, "print_time": False, "ipopt.sb": "yes"}
S = 25.0   # the declared constraint scale

def nlp(ocp):
    with contextlib.redirect_stdout(io.StringIO()):
        ocp._transcribed
    opti = ocp._method.opti
    F = Function('F', [opti.x, opti.p], [opti.g, opti.lbg, opti.ubg])
    p0 = DM(opti.debug.value(opti.p, opti.initial())) if opti.p.numel() else DM(0, 1)
    return F, opti.x.numel(), p0

def rows_changed(build):
    """Build the problem with scale=1 and scale=S (all symbols unscaled, so the decision vectors coincide)
    and return, per constraint row, the factor by which (g, lbg, ubg) were divided."""
    F1, n, p0 = nlp(build(1))
    FS, nS, _ = nlp(build(S))
    assert n == nS
    rng = np.random.RandomState(1)
    xa, xb = rng.rand(n) + 0.5, rng.rand(n) + 0.5
    g1a, lb1, ub1 = [np.array(e).flatten() for e in F1(xa, p0)]
    g1b = np.array(F1(xb, p0)[0]).flatten()
    gSa, lbS, ubS = [np.array(e).flatten() for e in FS(xa, p0)]
    gSb = np.array(FS(xb, p0)[0]).flatten()
    with np.errstate(divide='ignore', invalid='ignore'):
        fac = (g1a - g1b) / (gSa - gSb)
    for j in range(len(fac)):   # the bounds must follow the same factor
        for a, b in [(lb1[j], lbS[j]), (ub1[j], ubS[j])]:
            if np.isfinite(a) and a != 0:
                assert abs(a / b - fac[j]) < 1e-9 * abs(fac[j]), "bounds and residual scaled differently"
    return fac

def double_integrator(ocp_or_stage, method):
    s = ocp_or_stage
    y = s.state(); w = s.state(); u = s.control()
    s.set_der(y, w); s.set_der(w, u)
    s.add_objective(s.integral(u**2 + y**2))
    if method is not None: s.method(method)
    return y, w, u

# control case: honoured ---------------------------------------------------------------------------------
def build_control(scale):
    ocp = Ocp(T=2)
    y, w, u = double_integrator(ocp, MultipleShooting(N=3, intg='rk'))
    ocp.subject_to(ocp.at_t0(y) == 1); ocp.subject_to(ocp.at_t0(w) == 0)
    ocp.subject_to(-3 <= (y <= 100), scale=scale)              # grid='control'
    ocp.solver('ipopt', OPTS)
    return ocp

# (a) master of a multi-stage problem --------------------------------------------------------------------
def build_master(scale):
    ocp = Ocp()
    st = Stage(T=1)
    y, w, u = double_integrator(st, MultipleShooting(N=2, intg='rk'))
    s1 = ocp.stage(st, t0=0); s2 = ocp.stage(st, t0=1)
    ocp.subject_to(s1.at_t0(y) == 1); ocp.subject_to(s1.at_t0(w) == 0)
    ocp.subject_to(s1.at_tf(y) == s2.at_t0(y), scale=scale)    # stitching constraints
    ocp.subject_to(s1.at_tf(w) - s2.at_t0(w) <= 0.5, scale=scale)
    ocp.solver('ipopt', OPTS)
    return ocp

# (b) grid='inf' -------------------------------------------------------------------------------------------
def build_inf(method):
    def build(scale):
        ocp = Ocp(T=2)
        y, w, u = double_integrator(ocp, method())
        ocp.subject_to(ocp.at_t0(y) == 1); ocp.subject_to(ocp.at_t0(w) == 0)
        ocp.subject_to(-3 <= (y <= 100), grid='inf', scale=scale)
        ocp.solver('ipopt', OPTS)
        return ocp
    return build

# (c) SplineMethod -------------------------------------------------------------------------------------------
def build_spline(grid):
    def build(scale):
        from rockit import SplineMethod
        ocp = Ocp(T=2)
        y = ocp.state(); w = ocp.state(); u = ocp.control()
        ocp.set_der(y, w); ocp.set_der(w, u)
        ocp.add_objective(ocp.sum(u**2 + y**2))
        ocp.method(SplineMethod(N=3))
        ocp.subject_to(ocp.at_t0(y) == 1); ocp.subject_to(ocp.at_t0(w) == 0)
        ocp.subject_to(-3 <= (y <= 100), grid=grid, scale=scale)
        ocp.solver('ipopt', OPTS)
        return ocp
    return build

def report(label, build, expect_rows):
    fac = rows_changed(build)
    n_scaled = int(np.sum(np.abs(fac - S) < 1e-9))
    n_unit = int(np.sum(np.abs(fac - 1) < 1e-9))
    ok = n_scaled == expect_rows
    print(f"{label:<58s}: rows divided by {S:g}: {n_scaled} (required {expect_rows}), rows left as they are: {n_unit}  -> {'ok' if ok else 'SCALE IGNORED'}")
    return ok

results = []
results.append(report("control case  MultipleShooting, grid='control'", build_control, 4))
bad = 0
bad += not report("(a) master Ocp of a 2-stage problem, stitching constraints", build_master, 2)
bad += not report("(b) grid='inf', MultipleShooting(rk)", build_inf(lambda: MultipleShooting(N=3, intg='rk')), 3 * 5)
bad += not report("(b) grid='inf', DirectCollocation(degree=4)", build_inf(lambda: DirectCollocation(N=3, degree=4)), 3 * 5)
try:
    import networkx
    bad += not report("(c) SplineMethod, grid='control'", build_spline('control'), 4)
    bad += not report("(c) SplineMethod, grid='inf'", build_spline('inf'), 5)
except ImportError:
    print("(c) skipped: networkx not importable (run with PYTHONPATH=/tmp/wt9/C14:/tmp/nxdeps)")
assert results[0], "control case must pass"
print()
print("required by C14: every constraint residual and its bounds are divided by its scale")
print("observed       : %d creation sites hand the constraint to Opti without its scale (silently)" % bad)
sys.exit(1 if bad else 0)
