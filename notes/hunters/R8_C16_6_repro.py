"""C16 / finding 6 (loud, unclear message): with SplineMethod, der(e) of anything but a bare state cannot be sampled
or constrained: der(3*u) fails with 'variables [u] are free', while 3*der(u) works.

Reference: second formulation 3*der(u) and the closed form (u ramps 0 -> 1 over T=2: der(u)=0.5).
"""
import sys
import numpy as np
import casadi as ca
from rockit import Ocp, SplineMethod

opts = {"ipopt.print_level": 0, "print_time": False, "ipopt.sb": "yes"}
ocp = Ocp(T=2)
u = ocp.control(order=2)
ocp.subject_to(ocp.at_t0(u) == 0)
ocp.subject_to(ocp.at_tf(u) == 1)
ocp.add_objective(ocp.sum(ocp.der(ocp.der(u))**2))
ocp.method(SplineMethod(N=4))
ocp.solver('ipopt', opts)
sol = ocp.solve()
bad = False
ref = sol.sample(3*ocp.der(u), grid='control')[1]
print("3*der(u)  :", ref, "(closed form 1.5)")
for name, e in [("der(3*u)", ocp.der(3*u)), ("der(u**2)", ocp.der(u**2))]:
    try:
        print(name, " :", sol.sample(e, grid='control')[1])
    except Exception as ex:
        bad = True
        msg = [l for l in str(ex).splitlines() if "free" in l]
        print(name, " :", type(ex).__name__, (msg or [str(ex)])[0].strip()[:160])
print("required: der(3*u) == 3*der(u) at every evaluation point")
print("VIOLATION (loud, message does not name the cause)" if bad else "ok")
sys.exit(1 if bad else 0)
