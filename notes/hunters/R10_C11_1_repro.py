"""
C11: grid min/max bounds on the control-interval length are enforced when T is free,
but silently dropped when the same horizon is given as a fixed number (or a parameter).

Free-time NLP restricted to T=c  !=  fixed-time NLP with T=c.
"""
import sys
import numpy as np
import casadi as ca
from rockit import Ocp, FreeTime, MultipleShooting, SingleShooting, DirectCollocation, UniformGrid, GeometricGrid
from rockit.sampling_method import FunctionGrid

SOLV = {"ipopt.print_level": 0, "print_time": False, "ipopt.sb": "yes"}
c = 2.0      # horizon
N = 2        # => uniform interval length 1.0

def build(T, method):
    ocp = Ocp(T=T)
    x = ocp.state(); u = ocp.control()
    ocp.set_der(x, u)
    ocp.subject_to(ocp.at_t0(x) == 0)
    ocp.subject_to(ocp.at_tf(x) == 1)
    ocp.subject_to(-1 <= (u <= 1))
    ocp.add_objective(ocp.integral(u**2))
    ocp.method(method)
    ocp.solver('ipopt', SOLV)
    return ocp

def nlp(ocp):
    ocp._transcribed
    opti = ocp._method.opti
    F = ca.Function('F', [opti.x, opti.p], [opti.g, opti.lbg, opti.ubg])
    return opti, F

def horizon_only_rows(ocp):
    """rows of g that depend on no decision variable except T, evaluated at T=c: list of (lb, g, ub)"""
    opti, F = nlp(ocp)
    Tvar = ocp.value(ocp.T)
    J = ca.Function('J', [opti.x, opti.p], [ca.jacobian(opti.g, opti.x), ca.jacobian(Tvar, opti.x)])
    x = np.random.rand(opti.nx)
    Jg, JT = J(x, [])
    iT = int(np.nonzero(np.array(JT).reshape(-1))[0][0])
    x[iT] = c
    g, lb, ub = [np.array(e).reshape(-1) for e in F(x, [])]
    Jg = np.array(Jg)
    out = []
    for r in range(Jg.shape[0]):
        cols = np.nonzero(Jg[r, :])[0]
        if len(cols) == 1 and cols[0] == iT:
            out.append((lb[r], g[r], ub[r]))
    return out

bad = False
cases = [
    ("MultipleShooting, UniformGrid(max=0.1)",                 lambda: MultipleShooting(N=N, grid=UniformGrid(max=0.1))),
    ("SingleShooting,   UniformGrid(min=5)",                   lambda: SingleShooting(N=N, grid=UniformGrid(min=5))),
    ("DirectCollocation,UniformGrid(max=0.1, localize_T=True)",lambda: DirectCollocation(N=N, degree=2, grid=UniformGrid(max=0.1, localize_T=True))),
    ("MultipleShooting, GeometricGrid(2, max=0.1)",            lambda: MultipleShooting(N=N, grid=GeometricGrid(2, max=0.1))),
    ("MultipleShooting, FunctionGrid([0,.3,1], max=0.1)",      lambda: MultipleShooting(N=N, grid=FunctionGrid(lambda n: [0, 0.3, 1.0], max=0.1))),
]
for name, mk in cases:
    try:
        free = build(FreeTime(c), mk())
        rows = horizon_only_rows(free)
        violated = [r for r in rows if r[1] < r[0] - 1e-9 or r[1] > r[2] + 1e-9]
        fixed = build(c, mk())
        opti_fixed, _ = nlp(fixed)
        try:
            sol = fixed.solve()
            ts = sol.sample(fixed.t, grid='control')[1]
            solved = True
        except Exception as e:
            solved = False
    except Exception as e:
        print(name, ": library rejected the input:", str(e).strip().split("\n")[-1][:120])
        continue
    print(name)
    print("   free-time NLP restricted to T=%g: horizon-only rows (lb, g, ub) = %s" % (c, [tuple(float(v) for v in r) for r in rows]))
    print("      -> rows violated at T=%g: %d  (the restricted NLP is infeasible)" % (c, len(violated)))
    if solved:
        print("   fixed-time OCP (T=%g): solved without complaint, control grid = %s, interval lengths = %s" % (c, ts, np.diff(ts)))
    else:
        print("   fixed-time OCP (T=%g): not solvable / rejected" % c)
    if violated and solved:
        print("   VIOLATION: the declared grid bound is part of the free-time NLP at T=%g but absent from the fixed-time NLP" % c)
        bad = True

print()
print("Property C11 requires: the free-time NLP restricted to T=c has the same constraints as the OCP declared with the fixed number (plus T>=0).")
sys.exit(1 if bad else 0)
