"""
DirectCollocation silently drops domain='integer' of a control.

OCP:  x' = u,  x(0)=0,  u in {0,1,2} (integer, piecewise constant),  min  int_0^2 (u-0.75)^2 dt
Closed form: the best integer value on every interval is u = 1.
Twin formulation: the same declarations with MultipleShooting give u = 1 (bonmin).
DirectCollocation returns the continuous relaxation u = 0.75: the declaration is ignored in add_variables.
Exit code 1 when the violation is present, 0 otherwise (also when the library raises).
"""
import sys
import numpy as np
import casadi as ca

def build(method):
    from rockit import Ocp
    ocp = Ocp(T=2.0)
    x = ocp.state()
    u = ocp.control(domain='integer')
    ocp.set_der(x, u)
    ocp.subject_to(ocp.at_t0(x) == 0)
    ocp.subject_to(0 <= (u <= 2))
    ocp.add_objective(ocp.integral((u-0.75)**2))
    ocp.method(method)
    return ocp, x, u

def count_integer_declarations(method):
    """How many NLP variables does the transcription declare as integer? (observed at casadi.Opti.set_domain)"""
    calls = []
    orig = ca.Opti.set_domain
    def spy(self, v, d):
        calls.append((v.numel(), d))
        return orig(self, v, d)
    ca.Opti.set_domain = spy
    try:
        ocp, x, u = build(method)
        ocp.solver('ipopt', {"ipopt.print_level": 0, "print_time": False, "ipopt.sb": "yes"})
        ocp._transcribed   # transcribe only
    finally:
        ca.Opti.set_domain = orig
    return sum(n for n, d in calls if d == 'integer')

def solve(method):
    ocp, x, u = build(method)
    ocp.solver('bonmin', {"print_time": False, "bonmin.bb_log_level": 0, "bonmin.nlp_log_level": 0, "bonmin.print_level": 0, "bonmin.sb": "yes"})
    sol = ocp.solve()
    return np.array(sol.sample(u, grid='control')[1]).reshape(-1)

def main():
    from rockit import MultipleShooting, DirectCollocation
    if not hasattr(ca.Opti, 'set_domain'):
        print("This CasADi has no Opti.set_domain: nothing to observe"); return 0
    N = 2
    try:
        n_ms = count_integer_declarations(MultipleShooting(N=N))
        n_dc = count_integer_declarations(DirectCollocation(N=N, degree=2, scheme='radau'))
    except Exception as e:
        print("library raised:", str(e)[:200]); return 0
    print("integer NLP variables declared: MultipleShooting %d, DirectCollocation %d (required: %d, one per control interval)" % (n_ms, n_dc, N))
    bad = (n_dc != N)
    if ca.has_nlpsol('bonmin'):
        try:
            u_ms = solve(MultipleShooting(N=N))
            u_dc = solve(DirectCollocation(N=N, degree=2, scheme='radau'))
            print("bonmin, MultipleShooting  u =", u_ms[:N], "(closed form: 1 on every interval)")
            print("bonmin, DirectCollocation u =", u_dc[:N])
            if np.max(np.abs(u_dc[:N]-np.round(u_dc[:N]))) > 1e-4:
                print("-> DirectCollocation returns a non-integer value for a control declared domain='integer'")
                bad = True
        except Exception as e:
            print("library/solver raised:", str(e)[:200])
    if bad:
        print("VIOLATION: the domain declaration of the control is silently ignored by DirectCollocation")
        return 1
    print("ok")
    return 0

if __name__ == '__main__':
    sys.exit(main())
