"""C14 / finding 4: a vector-valued chained path constraint a <= b <= c (all three depending on decision
variables) transcribes fine without scale=, but any scale= (even the scalar scale=7) makes the transcription
fail with CasADi's "Dimension mismatch for (x/y)".

Reference: the same OCP without scale (works, 2n rows per node), and the scalar version of the same
constraint with scale (works: both rows divided by the scale) - so the property prescribes 2n rows / scale.
"""
import sys, io, contextlib
import numpy as np
from casadi import DM, vertcat, sumsqr
import rockit
from rockit import Ocp, MultipleShooting
assert rockit.__file__.startswith('/tmp/wt9/C14'), rockit.__file__
OPTS = {"ipopt.print_level": 0, "print_time": False, "ipopt.sb": "yes"}

def build(n, scale):
    ocp = Ocp(T=2)
    lo = ocp.state(n); hi = ocp.state(n); u = ocp.control(n)
    ocp.set_der(lo, -lo); ocp.set_der(hi, -hi + 1)
    ocp.subject_to(ocp.at_t0(lo) == -1); ocp.subject_to(ocp.at_t0(hi) == 1)
    kw = {} if scale is None else {"scale": scale}
    ocp.subject_to(lo <= (u <= hi), **kw)          # tube constraint: control between two states
    ocp.add_objective(ocp.integral(sumsqr(u - 0.5)))
    ocp.solver('ipopt', OPTS)
    ocp.method(MultipleShooting(N=3))
    return ocp

def ng(n, scale):
    try:
        with contextlib.redirect_stdout(io.StringIO()):
            ocp = build(n, scale)
            ocp._transcribed
        return ocp._method.opti.ng
    except Exception as e:
        return "EXCEPTION: " + str(e).strip().splitlines()[-1]

rows = {}
for n, scale in [(1, None), (1, 7), (2, None), (2, 7), (2, DM([7, 8]))]:
    rows[(n, str(scale))] = r = ng(n, scale)
    print(f"n={n} scale={scale}: ", r if isinstance(r, str) else f"transcribed, {r} constraint rows")
bad = sum(isinstance(v, str) for v in rows.values())
print()
print("required by C14: scale= only divides residuals and bounds; the problem transcribes exactly as without it")
print("observed       : %d of the scaled variants cannot be transcribed (exception does not mention scale)" % bad)
sys.exit(1 if bad else 0)
