"""C16 / finding 5 (loud, unclear message): asking for der(B-spline signal) makes every stage with
states untranscribable by MultipleShooting / SingleShooting / DirectCollocation; asking for it after a solve makes
sample() fail with a 'raw MX.sym' error. Only SplineMethod can use der of a signal.

Reference: derivative of the declared B-spline in closed form (scipy.interpolate.BSpline).
"""
import sys
import numpy as np
import casadi as ca
from scipy.interpolate import BSpline
from rockit import Ocp, MultipleShooting, SingleShooting, DirectCollocation

opts = {"ipopt.print_level": 0, "print_time": False, "ipopt.sb": "yes"}
N, d, T = 4, 2, 2.0
C = np.array([0.0, 1.0, -1.0, 2.0, 0.5, 3.0])
xi = np.linspace(0, T, N+1)
ref = BSpline(np.r_[[0]*d, xi, [T]*d], C, d).derivative(1)

bad = False
for name, mk in [("MultipleShooting", lambda: MultipleShooting(N=N, intg='rk')),
                 ("SingleShooting", lambda: SingleShooting(N=N, intg='rk')),
                 ("DirectCollocation", lambda: DirectCollocation(N=N))]:
    for when in ["before", "after"]:
        ocp = Ocp(T=T)
        x = ocp.state()
        u = ocp.control()
        ocp.set_der(x, -x+u)                   # the signal is not even used in the dynamics
        ocp.subject_to(ocp.at_t0(x) == 1)
        b = ocp.parameter(grid='bspline', order=d)
        ocp.set_value(b, C[None, :])
        ocp.add_objective(ocp.integral(u**2))
        if when == "before":
            db = ocp.der(b)
            ocp.subject_to(u >= db - 10)       # any use of the rate of the signal
        ocp.method(mk())
        ocp.solver('ipopt', opts)
        try:
            sol = ocp.solve()
            if when == "after":
                db = ocp.der(b)
            ts, dbs = sol.sample(db, grid='control')
            err = np.max(np.abs(dbs[:-1]-ref(ts[:-1])))
            print(name, "| der(b) asked", when, "solve: ok, max error vs closed form =", err)
            if err > 1e-8: bad = True
        except Exception as ex:
            bad = True
            lines = [l for l in str(ex).strip().splitlines() if l.strip()]
            msg = next((l for l in lines if "mismatching" in l or "raw MX" in l or "declared outside" in l), lines[-1])
            print(name, "| der(b) asked", when, "solve:", type(ex).__name__, "-", msg.strip()[:150])
print("required: der(b) is the derivative of the declared B-spline signal, or a clear 'not supported by this method' message")
print("VIOLATION (loud, but the message does not name the cause)" if bad else "ok")
sys.exit(1 if bad else 0)
