"""C12 / finding 1: a sub-stage whose method is SplineMethod (or the default DirectMethod) talks to
`self.opti` (an attribute that only the *master's* method object owns) instead of the master's Opti.

 (a) freshly declared sub-stage  -> AttributeError ('SplineMethod'/'DirectMethod' object has no attribute 'opti')
 (b) sub-stage created from a template that is an already transcribed Ocp: the method object is deep-copied
     together with its stale `opti`; all path constraints of the SplineMethod stage (resp. all variables,
     constraints and the objective of a method-less stage) are added to that stale copy and are SILENTLY
     missing from the NLP that is solved.

Run: cd /tmp/wt9/C12 && PYTHONPATH=/tmp/wt9/C12:/tmp/nxdeps /venv/bin/python _found/1/repro.py
"""
import sys, warnings
warnings.filterwarnings("ignore")
import numpy as np
from rockit import Ocp, Stage, FreeTime, SplineMethod, MultipleShooting

opts = {"ipopt.print_level": 0, "print_time": False, "ipopt.sb": "yes"}
bad = False


def content(s, method):
    p = s.state(); v = s.state(); a = s.control()
    s.set_der(p, v); s.set_der(v, a)
    s.subject_to(s.at_t0(p) == 0); s.subject_to(s.at_t0(v) == 0); s.subject_to(s.at_tf(p) == 1)
    s.subject_to(-2 <= (a <= 2))          # path constraint
    s.subject_to(v <= 0.8, grid='inf')    # path constraint
    s.add_objective(s.at_tf(v)**2 + s.T)
    s.method(method)
    return p, v, a


# ---- reference: the stage on its own -------------------------------------------------
o = Ocp(t0=0, T=FreeTime(2)); p, v, a = content(o, SplineMethod(N=4)); o.solver('ipopt', opts)
sol = o.solve()
T_ref = sol.value(o.T); ng_ref = o._method.opti.ng
print("stand-alone SplineMethod problem : T = %.6f, max v = %.4f, ng = %d" % (T_ref, sol.sample(v, grid='control')[1].max(), ng_ref))

# ---- (b) the same (solved) Ocp used as template of the only stage of a new Ocp ---------
ocp = Ocp(); s = ocp.stage(o); ocp.solver('ipopt', opts)
try:
    sol2 = ocp.solve()
    T2 = sol2(s).value(s.T); ng2 = ocp._method.opti.ng
    a2 = sol2(s).sample(a, grid='control')[1]
    print("same content as a stage (template): T = %.3g, max|a| = %.3g, ng = %d" % (T2, np.abs(a2).max(), ng2))
    print("property: 'A stage created from a template is equivalent to a stage declared directly with the same content'")
    if ng2 != ng_ref or abs(T2 - T_ref) > 1e-4:
        print("  -> VIOLATION (silent): %d of %d constraint rows are missing from the NLP; -2<=a<=2 and v<=0.8 are not enforced" % (ng_ref - ng2, ng_ref))
        bad = True
except Exception as e:
    print("template variant raised:", type(e).__name__, str(e)[:120])

# ---- (b') method-less stage (only variables) from a transcribed Ocp --------------------
o3 = Ocp(); w = o3.variable(); o3.subject_to(w >= 1); o3.add_objective((w - 0.2)**2); o3.solver('ipopt', opts)
print("stand-alone NLP-only Ocp: w =", float(o3.solve().value(w)), " (1 variable, 1 constraint)")
ocp = Ocp(); s3 = ocp.stage(o3)
s4 = ocp.stage(t0=0, T=1); x = s4.state(); u = s4.control(); s4.set_der(x, -x + u); s4.subject_to(s4.at_t0(x) == 1)
s4.add_objective(s4.integral(x**2 + u**2)); s4.method(MultipleShooting(N=3))
ocp.solver('ipopt', opts)
try:
    ocp.solve()
    nx, ng = ocp._method.opti.nx, ocp._method.opti.ng
    print("as a stage next to a 3-interval shooting stage: NLP has nx = %d (expected 7+1), ng = %d (expected 4+1)" % (nx, ng))
    if nx != 8 or ng != 5:
        print("  -> VIOLATION (silent): variable, constraint and objective term of the method-less stage are not in the NLP")
        bad = True
except Exception as e:
    print("method-less template variant raised:", type(e).__name__, str(e)[:120])

# ---- (a) freshly declared sub-stages ----------------------------------------------------
for label, build in [("SplineMethod sub-stage", lambda s: content(s, SplineMethod(N=4))),
                     ("method-less sub-stage (only a variable)", lambda s: s.add_objective(s.variable()**2))]:
    ocp = Ocp(); s = ocp.stage(t0=0, T=FreeTime(2)); build(s); ocp.solver('ipopt', opts)
    try:
        ocp.solve(); print(label, ": solved")
    except Exception as e:
        print(label, ": raised", type(e).__name__ + ":", str(e)[:100])
        if isinstance(e, AttributeError):
            print("  -> VIOLATION (loud, but not a message that says what is unsupported)")
            bad = True

sys.exit(1 if bad else 0)
