"""C16 / finding 2: SplineMethod, grid='inf' constraint that combines a higher-order control
with its own derivative (members of the derivative chain = splines of different degree):
u + der(u) <= 1 is silently transcribed as  u <= 1  AND  der(u) <= 1.

Reference: the property-prescribed numbers (the constraint itself, checked on a fine grid)
and a second formulation (same constraint on grid='control' with refine).
"""
import sys
import numpy as np
import casadi as ca
from rockit import Ocp, SplineMethod

opts = {"ipopt.print_level": 0, "print_time": False, "ipopt.sb": "yes"}

def solve(grid, **kw):
    ocp = Ocp(T=2)
    u = ocp.control(order=2)
    du = ocp.der(u)          # next member of the chain (continuous piecewise linear)
    ddu = ocp.der(du)        # piecewise-constant decision
    ocp.subject_to(ocp.at_t0(u) == 0)
    ocp.subject_to(ocp.at_t0(du) == 0)
    ocp.subject_to(u + du <= 1, grid=grid, **kw)
    ocp.add_objective(-ocp.at_tf(u))
    ocp.add_objective(1e-6*ocp.sum(ddu**2))
    ocp.method(SplineMethod(N=8))
    ocp.solver('ipopt', opts)
    sol = ocp.solve()
    _, us = sol.sample(u, grid='control', refine=10)
    _, dus = sol.sample(du, grid='control', refine=10)
    return us, dus

us, dus = solve('control', refine=10)
print("grid='control', refine=10 : u(tf)=%.4f  max(u+der(u))=%.4f" % (us[-1], np.max(us+dus)))
us, dus = solve('inf')
m = np.max(us+dus)
print("grid='inf'                : u(tf)=%.4f  max(u+der(u))=%.4f  max(u)=%.4f  max(der(u))=%.4f" % (us[-1], m, np.max(us), np.max(dus)))
print("required: u+der(u) <= 1 on the whole horizon (grid='inf' is the conservative, everywhere-valid form)")
bad = m > 1 + 1e-3
print("VIOLATION: the declared constraint is exceeded by %.3f; the NLP holds u<=1 and der(u)<=1 separately" % (m-1) if bad else "ok")
sys.exit(1 if bad else 0)
