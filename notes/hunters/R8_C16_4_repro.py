"""C16 / finding 4: der(e) is frozen at call time; re-declaring the dynamics afterwards
(declare - solve - modify - solve) leaves constraints built from der(e) on the OLD right-hand side.

Reference: the numbers the property prescribes: 2*x*(new rhs) evaluated from the sampled x,u.
"""
import sys
import numpy as np
import casadi as ca
from rockit import Ocp, MultipleShooting

opts = {"ipopt.print_level": 0, "print_time": False, "ipopt.sb": "yes"}
ocp = Ocp(T=1)
x = ocp.state(); u = ocp.control()
ocp.set_der(x, -x+u)
ocp.subject_to(ocp.at_t0(x) == 1)
ocp.subject_to(-5 <= (u <= 5))
rate = ocp.der(x**2)
ocp.subject_to(rate >= -1.0)            # x**2 may not decay faster than 1/s
ocp.add_objective(ocp.at_tf(x)**2)
ocp.method(MultipleShooting(N=10, intg='rk'))
ocp.solver('ipopt', opts)
sol = ocp.solve()
print("solve 1 (x'=-x+u)  : min der(x^2) on the grid = %.4f (bound -1)" % np.min(sol.sample(rate, grid='control')[1][:-1]))

ocp.set_der(x, -3*x+u)                  # modify the declared right-hand side
sol = ocp.solve()
_, xs = sol.sample(x, grid='control'); _, us = sol.sample(u, grid='control')
true_rate = (2*xs*(-3*xs+us))[:-1]
old_expr = sol.sample(rate, grid='control')[1][:-1]
fresh = sol.sample(ocp.der(x**2), grid='control')[1][:-1]
print("solve 2 (x'=-3x+u) : earlier der(x^2) expression min = %.4f ; 2*x*(-3x+u) min = %.4f ; der(x^2) asked anew min = %.4f" % (np.min(old_expr), np.min(true_rate), np.min(fresh)))
print("required: the constraint der(x^2) >= -1 holds for the dynamics declared at solve time")
bad = np.min(true_rate) < -1 - 1e-4
print("VIOLATION: d/dt x^2 reaches %.3f < -1; the constraint still uses x'=-x+u" % np.min(true_rate) if bad else "ok")
sys.exit(1 if bad else 0)
