"""
C15 violation: a grid='inf' constraint whose expression is vector valued because a SCALAR state
polynomial is compared with / combined with a numeric vector that happens to have as many entries as
the polynomial has Bernstein coefficients (5 for the degree-4 integrator polynomial, 9 for a product
of two states, 4 for an inf_der term, ...) is transcribed silently into the WRONG NLP rows:
entry j of the vector is paired with Bernstein coefficient j, instead of every entry of the vector
being paired with every coefficient.

    x(t) <= [1,2,3,4,5]        means  x(t) <= 1 for all t  (CasADi broadcasting, cf. grid='control')
    rockit produces            b_0<=1, b_1<=2, b_2<=3, b_3<=4, b_4<=5   per integrator interval

Reference: the same OCP with the scalar bound  x <= 1  (identical meaning).
"""
import sys
import numpy as np
from casadi import DM
import rockit
from rockit import Ocp, MultipleShooting, SingleShooting, DirectCollocation

OPTS = {"ipopt.print_level": 0, "print_time": False, "ipopt.sb": "yes"}


def solve(method, bound, grid):
    ocp = Ocp(t0=0, T=4.0)
    x = ocp.state(); v = ocp.state(); u = ocp.control()
    ocp.set_der(x, v); ocp.set_der(v, u)
    ocp.subject_to(ocp.at_t0(x) == 0)
    ocp.subject_to(ocp.at_t0(v) == 0)
    ocp.subject_to(-20 <= (u <= 20))
    ocp.subject_to(x <= bound, grid=grid)       # <- the constraint under test
    ocp.add_objective(-ocp.integral(x))          # push x upwards
    ocp.method(method)
    ocp.solver('ipopt', OPTS)
    sol = ocp.solve()
    ts, xs = sol.sample(x, grid='integrator', refine=40)
    return float(np.max(xs))


bad = False
print("rockit from", rockit.__file__)
vec = DM([1, 2, 3, 4, 5])     # x <= vec  <=>  x <= 1
for name, mk in [("MultipleShooting(N=4,M=1,rk)", lambda: MultipleShooting(N=4, M=1, intg='rk')),
                 ("SingleShooting(N=4,M=2,rk)", lambda: SingleShooting(N=4, M=2, intg='rk')),
                 ("DirectCollocation(N=4,M=1)", lambda: DirectCollocation(N=4, M=1))]:
    m_vec = solve(mk(), vec, 'inf')
    m_ref = solve(mk(), 1, 'inf')
    print("%-30s max_t x(t): vector bound [1,2,3,4,5] grid='inf' -> %.4f ; scalar bound 1 grid='inf' (reference) -> %.4f"
          % (name, m_vec, m_ref))
    if m_vec > 1 + 1e-4:
        bad = True

# The same mix-up for a product of two states (9 Bernstein coefficients) and a 9-vector of bounds
def solve2(bound):
    ocp = Ocp(t0=0, T=2.0)
    x = ocp.state(); y = ocp.state(); u = ocp.control()
    ocp.set_der(x, y); ocp.set_der(y, u)
    ocp.subject_to(ocp.at_t0(x) == 1); ocp.subject_to(ocp.at_t0(y) == 0)
    ocp.subject_to(-20 <= (u <= 20))
    ocp.subject_to(x*y <= bound, grid='inf')
    ocp.add_objective(-ocp.integral(x*y))
    ocp.method(MultipleShooting(N=2, M=1, intg='rk'))
    ocp.solver('ipopt', OPTS)
    sol = ocp.solve()
    ts, es = sol.sample(x*y, grid='integrator', refine=40)
    return float(np.max(es))
m_vec = solve2(DM([1, 2, 3, 4, 5, 6, 7, 8, 9])); m_ref = solve2(1)
print("x*y <= [1..9] (i.e. x*y <= 1), MultipleShooting: max_t (x*y)(t) -> %.4f ; scalar bound 1 (reference) -> %.4f" % (m_vec, m_ref))
if m_vec > 1 + 1e-4:
    bad = True

# Vectors of any other length are refused (with an obscure message), which shows that vector bounds are not meant to work
try:
    solve(MultipleShooting(N=4, M=1, intg='rk'), DM([1, 2, 3]), 'inf')
    print("x <= [1,2,3]: accepted")
except Exception as e:
    print("x <= [1,2,3] grid='inf': raises %s: %s" % (type(e).__name__, str(e).splitlines()[0][:90]))

print()
print("Property C15 requires: at any NLP point satisfying the 'inf' rows the refined sample satisfies the bound")
print("everywhere (here: max x(t) <= 1, max (x*y)(t) <= 1), or else the problem is rejected.")
if bad:
    print("VIOLATION: the constraint was accepted silently and the refined trajectory breaks the bound.")
    sys.exit(1)
print("no violation observed")
sys.exit(0)
