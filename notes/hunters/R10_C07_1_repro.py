"""
C07 -- sampling an algebraic variable with a shooting method returns the value of z one integrator step LATER
than the time point it is reported for (grid='control': first node; grid='integrator': every node but the last).

DAE:  dx/dt = -x + 0.1*z + u ,  0 = z - (x**2 + t)       =>  z(t) = x(t)**2 + t  at every time
The property requires: entry i of sample(z, grid) is z at sampled time i, so that
sample(z)[i] == sample(x)[i]**2 + sample(t)[i]  (up to integrator tolerance), on every grid.
"""
import sys
import numpy as np
import casadi as ca

try:
    from rockit import Ocp, MultipleShooting, SingleShooting, DirectCollocation
except Exception as e:
    print("cannot import rockit:", e); sys.exit(0)

opts = {"ipopt.print_level": 0, "print_time": False, "ipopt.sb": "yes"}
TOL = 5e-3
violation = False

def run(method, label):
    global violation
    ocp = Ocp(t0=0.5, T=2)
    x = ocp.state(); z = ocp.algebraic(); u = ocp.control()
    ocp.set_der(x, -x + 0.1*z + u)
    ocp.add_alg(z - (x**2 + ocp.t))
    ocp.subject_to(ocp.at_t0(x) == 1)
    ocp.subject_to(-1 <= (u <= 1))
    ocp.add_objective(ocp.integral(x**2 + u**2))
    ocp.solver('ipopt', opts)
    ocp.method(method)
    sol = ocp.solve()
    out = {}
    for grid in ['control', 'integrator']:
        ts, zs = sol.sample(z, grid=grid)
        _, xs = sol.sample(x, grid=grid)
        _, rs = sol.sample(z - (x**2 + ocp.t), grid=grid)   # algebraic residual, sampled as one expression
        ref = xs**2 + ts                                    # closed form of z at the sampled x and t
        err = np.abs(zs - ref)
        out[grid] = (ts, zs)
        print("%-22s grid=%-10s t      = %s" % (label, grid, np.round(ts, 4)))
        print("%-22s grid=%-10s z      = %s" % ("", grid, np.round(zs, 4)))
        print("%-22s grid=%-10s x^2+t  = %s   <- what the property requires for z" % ("", grid, np.round(ref, 4)))
        print("%-22s grid=%-10s |diff| = %s" % ("", grid, np.round(err, 4)))
        if err.max() > TOL:
            violation = True
            print("   VIOLATION: sampled z is not z at the sampled time (max deviation %.3g)" % err.max())
    # second, formulation-independent check: the same time point reached through two grids
    tc, zc = out['control']; ti, zi = out['integrator']
    for i, t in enumerate(tc):
        j = int(np.argmin(np.abs(ti - t)))
        if abs(ti[j] - t) < 1e-12 and abs(zc[i] - zi[j]) > TOL:
            violation = True
            print("   VIOLATION: z(t=%.4g) = %.6g on grid='control' but %.6g on grid='integrator'" % (t, zc[i], zi[j]))

try:
    run(MultipleShooting(N=3, M=1, intg='idas'), "MultipleShooting idas M=1")
    run(MultipleShooting(N=3, M=2, intg='collocation'), "MultipleShooting colloc M=2")
    run(SingleShooting(N=3, M=2, intg='idas'), "SingleShooting idas M=2")
    # reference formulation of the same OCP: DirectCollocation samples z consistently (small interpolation error only)
    v = violation
    run(DirectCollocation(N=3, M=2, degree=4), "DirectCollocation (ref)")
    violation = v
except Exception as e:
    import traceback; traceback.print_exc()
    print("library rejected the input with an exception -> not a silent violation")
    sys.exit(0)

print("RESULT:", "violation present" if violation else "no violation")
sys.exit(1 if violation else 0)
