"""C16 / finding 3: shooting methods hold a B-spline signal constant over each control interval inside
the dynamics, while der()/sample() treat it as the spline it is: sample(der(x)) is not d/dt of the sampled x,
and the NLP integrates another ODE, whatever M / integrator accuracy.

x' = b(t), b = degree-1 B-spline parameter with coefficients [0, .5, 1] on [0,1]  ->  b(t) = t, x(1) = 1/2.
References: closed form; DirectCollocation on the same OCP.
"""
import sys
import numpy as np
import casadi as ca
from rockit import Ocp, MultipleShooting, SingleShooting, DirectCollocation

opts = {"ipopt.print_level": 0, "print_time": False, "ipopt.sb": "yes"}
bad = False
for name, mk in [("MultipleShooting rk  M=1 ", lambda: MultipleShooting(N=2, M=1, intg='rk')),
                 ("MultipleShooting rk  M=20", lambda: MultipleShooting(N=2, M=20, intg='rk')),
                 ("MultipleShooting cvodes  ", lambda: MultipleShooting(N=2, M=1, intg='cvodes')),
                 ("SingleShooting   rk  M=4 ", lambda: SingleShooting(N=2, M=4, intg='rk')),
                 ("DirectCollocation        ", lambda: DirectCollocation(N=2, M=1))]:
    ocp = Ocp(t0=0, T=1)
    x = ocp.state()
    b = ocp.parameter(grid='bspline', order=1)
    ocp.set_value(b, np.array([[0, 0.5, 1.0]]))
    ocp.set_der(x, b)
    ocp.subject_to(ocp.at_t0(x) == 0)
    ocp.method(mk())
    ocp.solver('ipopt', opts)
    sol = ocp.solve()
    xf = float(sol.value(ocp.at_tf(x)))
    msg = ""
    if "cvodes" not in name:
        t, xs = sol.sample(x, grid='integrator', refine=4)
        t, dxs = sol.sample(ocp.der(x), grid='integrator', refine=4)
        slope = np.diff(xs)/np.diff(t)           # x is piecewise polynomial: slope on each sub-interval
        mid = 0.5*(dxs[1:]+dxs[:-1])             # der(x)=b is linear: mean value on each sub-interval
        msg = "  max |d/dt x - der(x)| = %.3f" % np.max(np.abs(slope-mid))
    print("%s x(1) = %.6f (required 0.5)%s" % (name, xf, msg))
    if "Collocation" not in name and abs(xf-0.5) > 1e-6:
        bad = True
print("VIOLATION: shooting integrates x' = b(t_k) instead of x' = b(t); der(x)=b(t) is not the rate of the returned x" if bad else "ok")
sys.exit(1 if bad else 0)
