"""C19 / finding 2: a guess for the free horizon T (or t0) given as to_function argument does not reach the
local time-grid variables (FreeGrid interval lengths, localize_t0 / localize_T variables), although
set_initial(ocp.T, .) does.

run: cd /tmp/wt9/C19 && PYTHONPATH=/tmp/wt9/C19 /venv/bin/python _found/2/repro.py
"""
import sys
import numpy as np
import casadi as ca
from rockit import Ocp, FreeTime, MultipleShooting, DirectCollocation, FreeGrid, UniformGrid

N = 4
quiet = {"ipopt.print_level": 0, "print_time": False, "ipopt.sb": "yes", "ipopt.tol": 1e-10}

def build(method, opts):
    # minimise sum_k (1-cos(2 pi t_k)) + (T-4)^2 + int u^2 :  t_k = k, T = 4, u = 0 is an exact minimiser (cost 0)
    ocp = Ocp(t0=0, T=FreeTime(1))
    x = ocp.state()
    u = ocp.control()
    ocp.set_der(x, u)
    ocp.subject_to(ocp.at_t0(x) == 0)
    ocp.add_objective(ocp.integral(u**2))
    ocp.add_objective(ocp.sum(1 - ca.cos(2*ca.pi*ocp.t), include_last=True))
    ocp.add_objective((ocp.T - 4)**2)
    ocp.method(method())
    ocp.solver('ipopt', opts)
    return ocp

cases = [
    ("MultipleShooting, UniformGrid (reference: no local time variables)", lambda: MultipleShooting(N=N)),
    ("MultipleShooting, FreeGrid", lambda: MultipleShooting(N=N, grid=FreeGrid())),
    ("DirectCollocation, FreeGrid", lambda: DirectCollocation(N=N, grid=FreeGrid())),
    ("MultipleShooting, UniformGrid(localize_t0=True, localize_T=True)", lambda: MultipleShooting(N=N, grid=UniformGrid(localize_t0=True, localize_T=True))),
]
bad = False
for label, opts in [("starting point handed to the solver (ipopt.max_iter=0)", dict(quiet, **{"ipopt.max_iter": 0})),
                    ("converged solution", quiet)]:
    print("==", label)
    for name, method in cases:
        ocp = build(method, opts)
        ocp.set_initial(ocp.T, 4)
        sol = ocp.solve_limited()
        imp = np.append(np.array(sol.sample(ocp.t, grid='control')[1]).squeeze(), sol.value(ocp.T))
        ocp = build(method, opts)
        f = ocp.to_function('f', [ocp.value(ocp.T)], [ocp.sample(ocp.t, grid='control')[1], ocp.value(ocp.T)])
        r = f(4)
        fun = np.append(np.array(r[0]).squeeze(), float(r[1]))
        d = np.abs(imp - fun).max()
        print("  " + name)
        print("     set_initial(T,4)+solve : control grid %s  T=%.6f" % (np.round(imp[:-1], 5), imp[-1]))
        print("     to_function, f(4)      : control grid %s  T=%.6f" % (np.round(fun[:-1], 5), fun[-1]))
        if d > 1e-5:
            print("     VIOLATION: differs by %g" % d)
            bad = True
print()
print("required by C19: f(4) == values after set_initial(ocp.T, 4); solve()  (closed form: grid 0,1,2,3,4 and T = 4, cost 0)")
sys.exit(1 if bad else 0)
