"""C12 / finding 3: the horizon of a stage given as (an expression of) another stage's horizon.

  s1 = ocp.stage(t0=0, T=FreeTime(1));  s2 = ocp.stage(t0=s1.T, T=1)      -> never returns (endless loop)
  s1 = ocp.stage(t0=0, T=2)          ;  s2 = ocp.stage(t0=0,   T=s1.T)    -> never returns (also with a fixed horizon)
  ocp = Ocp(T=FreeTime(1)) + method  ;  s  = ocp.stage(t0=0, T=ocp.T)     -> never returns
  s2 = ocp.stage(t0=s1.tf, T=1)    (= s1.t0+s1.T, not a bare symbol)      -> RuntimeError "Unknown: MX symbol 'r_T' ..."

Reference formulation of the same OCP (used by rockit's own examples): t0=FreeTime + ocp.subject_to(s2.t0==s1.tf).

Each case runs in a child process with a time limit.
Run: cd /tmp/wt9/C12 && PYTHONPATH=/tmp/wt9/C12:/tmp/nxdeps /venv/bin/python _found/3/repro.py
"""
import sys, subprocess, os

CHILD = r'''
import sys, warnings
warnings.filterwarnings("ignore")
from rockit import Ocp, FreeTime, MultipleShooting
opts = {"ipopt.print_level": 0, "print_time": False, "ipopt.sb": "yes"}
kind = sys.argv[1]
def content(s):
    x = s.state(); u = s.control()
    s.set_der(x, -x + u)
    s.add_objective(s.integral(x**2 + u**2))
    s.method(MultipleShooting(N=3))
    return x
if kind == "parent":
    ocp = Ocp(t0=0, T=FreeTime(1.0)); xm = content(ocp); ocp.subject_to(ocp.at_t0(xm) == 1); ocp.subject_to(ocp.T >= 0.5)
    s = ocp.stage(t0=0, T=ocp.T); x = content(s); s.subject_to(s.at_t0(x) == 1)
    ocp.solver('ipopt', opts); sol = ocp.solve()
    print("T parent %.6f  T child %.6f" % (sol.value(ocp.T), sol(s).value(s.T)))
    sys.exit(0)
ocp = Ocp()
s1 = ocp.stage(t0=0, T=2 if kind == "fixedT" else FreeTime(1.0)); x1 = content(s1); s1.subject_to(s1.at_t0(x1) == 1)
if kind != "fixedT": s1.subject_to(s1.T >= 0.5); ocp.add_objective(s1.T)
if kind == "bare":     s2 = ocp.stage(t0=s1.T, T=1)
if kind == "fixedT":   s2 = ocp.stage(t0=0, T=s1.T)
if kind == "tf":       s2 = ocp.stage(t0=s1.tf, T=1)
if kind == "reference":
    s2 = ocp.stage(t0=FreeTime(1.0), T=1); ocp.subject_to(s2.t0 == s1.tf)
x2 = content(s2)
ocp.subject_to(s1.at_tf(x1) == s2.at_t0(x2))
ocp.solver('ipopt', opts)
sol = ocp.solve()
print("T1 = %.6f, stage 2 runs from %.6f to %.6f" % (sol(s1).value(s1.T), sol(s2).value(s2.t0), sol(s2).value(s2.tf)))
'''

here = os.path.dirname(os.path.abspath(__file__))
child = os.path.join(here, "_child.py")
open(child, "w").write(CHILD)
bad = False
for kind, what in [("reference", "t0=FreeTime + constraint s2.t0==s1.tf (reference)"),
                   ("bare", "s2 = ocp.stage(t0=s1.T, T=1)"),
                   ("fixedT", "s2 = ocp.stage(t0=0, T=s1.T), s1.T fixed to 2"),
                   ("parent", "s = ocp.stage(t0=0, T=ocp.T), parent has its own model"),
                   ("tf", "s2 = ocp.stage(t0=s1.tf, T=1)")]:
    try:
        r = subprocess.run([sys.executable, child, kind], capture_output=True, text=True, timeout=12, env=os.environ)
        out = (r.stdout.strip().splitlines() or [""])[-1]
        if r.returncode == 0:
            print("%-58s -> %s" % (what, out))
        else:
            err = [l for l in r.stderr.splitlines() if "Unknown" in l or "Error" in l]
            print("%-58s -> raises: %s" % (what, (err or r.stderr.splitlines()[-1:])[-1][:110]))
            bad = True
    except subprocess.TimeoutExpired:
        print("%-58s -> NO RESULT after 12 s (endless loop in TranscribedPlaceholders._replace)" % what)
        bad = True
os.remove(child)
print()
print("property: 'T/t0 of a stage refer to that stage only' - declaring the horizon of one stage in terms of the horizon of another")
print("          must give the NLP of the reference formulation (or a clear message); observed: endless loop / internal CasADi error")
sys.exit(1 if bad else 0)
