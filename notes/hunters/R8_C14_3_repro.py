"""C14 / finding 3: scale= of a decision quantity is silently dropped at two creation sites.

  (a) ocp.variable(grid='bspline', scale=s): the B-spline coefficients are created unscaled
      (SamplingMethod.add_variables_V)                       - MultipleShooting, DirectCollocation, ...
  (b) SplineMethod: states and controls (their B-spline coefficients) are created unscaled
      (SplineMethod.add_variables)

Reference = the numbers the property prescribes: "solver variables are the physical ones divided by their
scale".  With a physical initial guess G and scale s the solver's start vector must hold G/s, and the
sensitivity d(physical sample)/d(solver variable) must carry the factor s.  A control case (an ordinary
state / grid='control' variable in the same problem) shows that the prescription is met elsewhere.
"""
import sys, io, contextlib
sys.path.append('/tmp/nxdeps')
import numpy as np
from casadi import DM, MX, Function, jacobian, vertcat, sumsqr
import rockit
from rockit import Ocp, MultipleShooting, DirectCollocation
assert rockit.__file__.startswith('/tmp/wt9/C14'), rockit.__file__
OPTS = {"ipopt.print_level": 0, "print_time": False, "ipopt.sb": "yes"}

def start_and_gain(ocp, sampled):
    """solver start vector restricted to the variables `sampled` depends on, and |d sampled / d x| column sums"""
    with contextlib.redirect_stdout(io.StringIO()):
        ocp._transcribed
        e = sampled(ocp)
    opti = ocp._method.opti
    x0 = np.array(DM(opti.debug.value(opti.x, opti.initial()))).flatten()
    J = np.array(DM(Function('J', [opti.x, opti.p], [jacobian(e, opti.x)])(x0, DM(opti.debug.value(opti.p, opti.initial())) if opti.p.numel() else DM(0,1))))
    cols = np.nonzero(np.abs(J).sum(axis=0) > 0)[0]
    return x0[cols], np.abs(J[:, cols]).sum(axis=0)

bad = 0
def check(label, build, sampled, scale, guess, expect_honoured=False, with_guess=True):
    global bad
    x0_1, g1 = start_and_gain(build(1), sampled)
    x0_s, gs = start_and_gain(build(scale), sampled)
    ratio_gain = gs / g1                 # required: scale
    honoured = np.allclose(ratio_gain, scale)
    txt = ""
    if with_guess:
        honoured = honoured and np.allclose(x0_1 / x0_s, scale)   # required: scale
        txt = f"physical guess {guess:g}: solver start value {x0_s[0]:g} (required {guess/scale:g}); "
    print(f"{label:<52s}: scale {scale:g}: {txt}d physical/d solver variable grew by {ratio_gain[0]:g} (required {scale:g}) -> {'ok' if honoured else 'SCALE IGNORED'}")
    if expect_honoured:
        assert honoured, "control case must pass"
    elif not honoured:
        bad += 1

# (a) grid='bspline' variable ----------------------------------------------------------------------------
def build_bspline(method, guess_b=True):
    def build(s):
        ocp = Ocp(T=2)
        x = ocp.state(scale=s)
        b = ocp.variable(grid='bspline', order=2, scale=s)
        vc = ocp.variable(grid='control', scale=s)
        ocp.set_der(x, b - x + vc)
        ocp.subject_to(ocp.at_t0(x) == 1)
        ocp.add_objective(ocp.integral(b**2 + x**2) + ocp.sum(vc**2))
        ocp.set_initial(x, 9.0)
        ocp.set_initial(vc, 9.0)
        if guess_b: ocp.set_initial(b, 9.0)
        ocp.solver('ipopt', OPTS)
        ocp.method(method())
        ocp._h = dict(x=x, b=b, vc=vc)
        return ocp
    return build
# (no guess is given for the B-spline variable: MultipleShooting raises on it and DirectCollocation drops it,
#  with or without scale - a different matter; the sensitivity alone shows that the coefficients are unscaled)
for name, m, gb in [("MultipleShooting", lambda: MultipleShooting(N=3, intg='rk'), False), ("DirectCollocation", lambda: DirectCollocation(N=3, degree=2), False)]:
    check(f"control case {name}: state", build_bspline(m, gb), lambda o: o.sample(o._h['x'], grid='control')[1], 9.0, 9.0, expect_honoured=True)
    check(f"control case {name}: variable(grid='control')", build_bspline(m, gb), lambda o: o.sample(o._h['vc'], grid='control-')[1], 9.0, 9.0, expect_honoured=True)
    check(f"(a) {name}: variable(grid='bspline')", build_bspline(m, gb), lambda o: o.sample(o._h['b'], grid='control')[1], 9.0, 9.0, with_guess=gb)

# (b) SplineMethod states/controls -------------------------------------------------------------------------
def build_spline(s):
    from rockit import SplineMethod
    ocp = Ocp(T=2)
    y = ocp.state(scale=s); w = ocp.state(scale=s); u = ocp.control(scale=s)
    v = ocp.variable(scale=s)
    ocp.set_der(y, w); ocp.set_der(w, u)
    ocp.subject_to(ocp.at_t0(y) == 1); ocp.subject_to(ocp.at_tf(y) == v)
    ocp.add_objective(ocp.sum(u**2 + y**2) + v**2)
    ocp.set_initial(y, 9.0); ocp.set_initial(v, 9.0)
    ocp.solver('ipopt', OPTS)
    ocp.method(SplineMethod(N=3))
    ocp._h = dict(y=y, u=u, v=v)
    return ocp
try:
    import networkx
    check("control case SplineMethod: variable()", build_spline, lambda o: o.value(o._h['v']), 9.0, 9.0, expect_honoured=True)
    check("(b) SplineMethod: state (and its control)", build_spline, lambda o: o.sample(o._h['y'], grid='control')[1], 9.0, 9.0)
except ImportError:
    print("(b) skipped: networkx not importable (run with PYTHONPATH=/tmp/wt9/C14:/tmp/nxdeps)")

print()
print("required by C14: solver variables are the physical ones divided by their scale")
print("observed       : %d kinds of decision quantities are created without their declared scale (silently)" % bad)
sys.exit(1 if bad else 0)
