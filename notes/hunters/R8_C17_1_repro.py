"""
C17 finding 1: under SplineMethod, ocp.integral(expr) (default grid='inf') and every
quadrature state silently evaluate to 0 -> an integral objective is dropped from the NLP,
an integral constraint becomes trivial.

Run: cd /tmp/wt9/C17 && PYTHONPATH=/tmp/wt9/C17:/tmp/nxdeps /venv/bin/python _found/1/repro.py
"""
import sys, warnings
warnings.filterwarnings("ignore")
import numpy as np, casadi as ca
from rockit import Ocp, MultipleShooting, SplineMethod

opts = {"ipopt.print_level": 0, "print_time": False, "ipopt.sb": "yes", "ipopt.tol": 1e-10}

def solve(method, mode):
    # double integrator, rest-to-rest over T=2, minimum energy
    ocp = Ocp(T=2.0)
    p = ocp.state(); v = ocp.state(); a = ocp.control()
    ocp.set_der(p, v); ocp.set_der(v, a)
    ocp.subject_to(ocp.at_t0(p) == 0); ocp.subject_to(ocp.at_t0(v) == 0)
    ocp.subject_to(ocp.at_tf(p) == 1); ocp.subject_to(ocp.at_tf(v) == 0)
    E = ocp.integral(a**2)                 # exact for piecewise-constant a: sum a_k^2 * dt
    if mode == "objective":
        ocp.add_objective(E)
    else:
        # energy budget as a constraint, objective: make p large half-way (needs energy)
        ocp.subject_to(E <= 2.0)
        ocp.add_objective(ocp.sum((p - 3)**2))
    ocp.solver('ipopt', opts); ocp.method(method)
    sol = ocp.solve()
    ts, as_ = sol.sample(a, grid='control')
    energy = float(np.sum(np.diff(ts) * as_[:-1]**2))     # independent evaluation of int a^2 dt
    return str(ocp._method.opti.f), sol.value(E), energy, as_

bad = False
for mode in ["objective", "constraint"]:
    f_ms, E_ms, en_ms, a_ms = solve(MultipleShooting(N=6), mode)
    f_sp, E_sp, en_sp, a_sp = solve(SplineMethod(N=6), mode)
    print("--- ocp.integral(a**2) used as", mode)
    print("MultipleShooting: value reported for the integral %.6f, recomputed from the controls %.6f" % (E_ms, en_ms))
    print("SplineMethod    : value reported for the integral %.6f, recomputed from the controls %.6f" % (E_sp, en_sp))
    if mode == "objective":
        print("SplineMethod NLP objective expression:", f_sp)
    print("controls MS    :", np.round(a_ms, 4))
    print("controls Spline:", np.round(a_sp, 4))
    if abs(E_sp - en_sp) > 1e-6 or np.abs(a_ms - a_sp).max() > 1e-4:
        bad = True

print()
print("Property C17 requires: 'On problems both can represent, SplineMethod and the shooting/collocation")
print("methods define the same optimal trajectories' (chain system, piecewise constant control: both exact).")
if bad:
    print("VIOLATION: SplineMethod evaluates ocp.integral(...) as 0: objective term dropped / constraint trivial, silently.")
    sys.exit(1)
print("no violation observed")
sys.exit(0)
