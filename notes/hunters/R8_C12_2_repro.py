"""C12 / finding 2: Stage.clone() (ocp.stage(template)) renews the template's t / DT / DT_control symbols but does not
carry them (and several tables) over into everything that was declared on the template.

For every case below the SAME declarations are made (i) directly on ocp.stage(t0=1,T=2) -- works, gives the reference
solution -- and (ii) on an abstract Stage(t0=1,T=2) that is then used as template: ocp.stage(template).
Property C12: "A stage created from a template is equivalent to a stage declared directly with the same content".

Run: cd /tmp/wt9/C12 && PYTHONPATH=/tmp/wt9/C12:/tmp/nxdeps /venv/bin/python _found/2/repro.py
"""
import sys, warnings, io, contextlib
warnings.filterwarnings("ignore")
import numpy as np
import casadi as ca
from rockit import Ocp, Stage, MultipleShooting, DirectCollocation

opts = {"ipopt.print_level": 0, "print_time": False, "ipopt.sb": "yes"}


def declare(s, case):
    x = s.state(); u = s.control()
    meth = MultipleShooting(N=4, M=2)
    obj = None
    if case == "ode depends on t":
        s.set_der(x, u + s.t)
    elif case == "alg. equation depends on t":
        z = s.algebraic(); s.set_der(x, u + z); s.add_alg(z - s.t); meth = DirectCollocation(N=4)
    elif case == "set_next uses DT":
        s.set_next(x, x + s.DT*(u - x)); obj = s.sum(x**2 + u**2)
    elif case == "path constraint uses DT_control":
        s.set_der(x, u - x); s.subject_to(u*s.DT_control <= 0.3)
    elif case == "objective uses DT":
        s.set_der(x, u - x); obj = s.sum(s.DT*(x**2 + u**2))
    elif case == "explicit quadrature state":
        s.set_der(x, u - x); q = s.state(quad=True); s.set_der(q, x**2 + u**2); obj = s.at_tf(q)
    elif case == "grid='bspline' variable":
        w = s.variable(grid='bspline', order=2); s.set_der(x, u - x + w); obj = s.integral(x**2 + u**2 + w**2)
    elif case == "inf_der in grid='inf' constraint":
        s.set_der(x, u - x); s.subject_to(s.inf_der(x) >= -0.3, grid='inf')
    elif case == "inf_inert in grid='inf' constraint":
        s.set_der(x, u - x); s.subject_to(x >= s.inf_inert(0.8 + 0*u), grid='inf')
    elif case == "time-dependent guess set_initial(x, t)":
        s.set_der(x, u - x); s.set_initial(x, s.t)
    s.subject_to(s.at_t0(x) == 1)
    s.add_objective(s.integral(x**2 + u**2) if obj is None else obj)
    s.method(meth)
    return x


cases = ["ode depends on t", "alg. equation depends on t", "set_next uses DT", "path constraint uses DT_control",
         "objective uses DT", "explicit quadrature state", "grid='bspline' variable",
         "inf_der in grid='inf' constraint", "inf_inert in grid='inf' constraint", "time-dependent guess set_initial(x, t)"]

n_bad = 0
for case in cases:
    # (i) declared directly
    ocp = Ocp(); s = ocp.stage(t0=1, T=2); x = declare(s, case); ocp.solver('ipopt', opts)
    with contextlib.redirect_stdout(io.StringIO()):
        ref = ocp.solve()(s).sample(x, grid='control')[1]
    # (ii) through a template
    t = Stage(t0=1, T=2); x = declare(t, case)
    ocp = Ocp(); c = ocp.stage(t); ocp.solver('ipopt', opts)
    try:
        with contextlib.redirect_stdout(io.StringIO()):
            got = ocp.solve()(c).sample(x, grid='control')[1]
        same = np.allclose(got, ref, atol=1e-6)
        print("%-42s direct: ok   template: %s" % (case, "same solution" if same else "DIFFERENT SOLUTION %s vs %s" % (got, ref)))
        n_bad += (not same)
    except Exception as e:
        msg = str(e).replace("\n", " ")
        import re
        m = re.search(r"(variables \[[^\]]*\] are free|Unknown: MX symbol '[^']*'[^.]*)", msg)
        print("%-42s direct: ok   template: raises %s: %s" % (case, type(e).__name__, m.group(1) if m else msg[:70]))
        n_bad += 1

print()
print("property requires: a stage created from a template is equivalent to the directly declared stage in all %d cases" % len(cases))
print("observed         : %d of %d cases cannot be transcribed from a template (internal CasADi/KeyError messages)" % (n_bad, len(cases)))
sys.exit(1 if n_bad else 0)
