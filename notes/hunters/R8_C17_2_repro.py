"""
C17 finding 2: under SplineMethod a grid='inf' path constraint that combines chain members of
different spline degree (e.g. position + velocity) is cut into one constraint per coefficient width,
each containing only part of the expression. The declared constraint is not imposed - not even at
the control grid points.

Run: cd /tmp/wt9/C17 && PYTHONPATH=/tmp/wt9/C17:/tmp/nxdeps /venv/bin/python _found/2/repro.py
"""
import sys, warnings
warnings.filterwarnings("ignore")
import numpy as np, casadi as ca
from rockit import Ocp, MultipleShooting, SplineMethod

opts = {"ipopt.print_level": 0, "print_time": False, "ipopt.sb": "yes", "ipopt.tol": 1e-10}
BOUND = 1.3

def solve(method, grid):
    ocp = Ocp(T=2.0)
    p = ocp.state(); v = ocp.state(); a = ocp.control()
    ocp.set_der(p, v); ocp.set_der(v, a)
    ocp.subject_to(ocp.at_t0(p) == 0); ocp.subject_to(ocp.at_t0(v) == 0)
    ocp.subject_to(ocp.at_tf(p) == 1); ocp.subject_to(ocp.at_tf(v) == 0)
    if grid is not None:
        ocp.subject_to(p + v <= BOUND, grid=grid)      # linear in the states: p quadratic, v linear spline
    ocp.add_objective(ocp.sum(a**2))
    ocp.solver('ipopt', opts); ocp.method(method)
    sol = ocp.solve()
    _, pv = sol.sample(p + v, grid='control')
    _, ps = sol.sample(p, grid='control')
    _, vs = sol.sample(v, grid='control')
    return pv, ps, vs, sol.value(ocp.sum(a**2)), ocp._method.opti.ng

pv0, _, _, J0, ng0 = solve(SplineMethod(N=6), None)
print("SplineMethod, constraint absent          : max(p+v) on control grid = %.6f, cost %.6f" % (pv0.max(), J0))
pvc, _, _, Jc, _ = solve(SplineMethod(N=6), 'control')
print("SplineMethod, p+v<=%.1f grid='control'    : max(p+v) on control grid = %.6f, cost %.6f" % (BOUND, pvc.max(), Jc))
pvm, _, _, Jm, _ = solve(MultipleShooting(N=6), 'inf')
print("MultipleShooting, p+v<=%.1f grid='inf'    : max(p+v) on control grid = %.6f, cost %.6f" % (BOUND, pvm.max(), Jm))
pvi, ps, vs, Ji, ngi = solve(SplineMethod(N=6), 'inf')
print("SplineMethod, p+v<=%.1f grid='inf'        : max(p+v) on control grid = %.6f, cost %.6f" % (BOUND, pvi.max(), Ji))
print("   p+v on the control grid:", np.round(pvi, 4))
print("   rows added to the NLP by the constraint:", ngi - ng0, "(= (N+2) rows 'p_coeff<=1.3' + (N+1) rows 'v_coeff<=1.3')")
print()
print("Property C17 requires: 'under SplineMethod ... path constraints are imposed at every (refined) grid point'")
print("(a grid='inf' constraint has to hold on the whole horizon, hence certainly at the grid points).")
if pvi.max() > BOUND + 1e-6:
    print("VIOLATION: declared p+v<=%.1f, solution has p+v=%.4f at a control grid point; cost equals the unconstrained one." % (BOUND, pvi.max()))
    sys.exit(1)
print("no violation observed")
sys.exit(0)
