"""
A grid's min/max interval bound is silently dropped when the horizon is a number (or a parameter).

OCP: x' = u, x(0)=0, min int u^2, T = 2, DirectCollocation(N=4, grid=UniformGrid(max=0.1)).
The declaration says: no control interval is longer than 0.1.  With T=2 and N=4 every interval is 0.5 long,
so the declared problem has no admissible grid.  Twin formulation: the same OCP with T=FreeTime and the
constraint T==2 is (correctly) reported infeasible.  The fixed-T formulation is solved without any message on a
grid that violates the bound.
Exit code 1 when the violation is present, 0 otherwise (also when the library raises).
"""
import sys
import numpy as np

opts = {"ipopt.print_level": 0, "print_time": False, "ipopt.sb": "yes"}

def build(T, grid, method_cls):
    from rockit import Ocp
    ocp = Ocp(T=T)
    x = ocp.state(); u = ocp.control()
    ocp.set_der(x, u)
    ocp.subject_to(ocp.at_t0(x) == 0)
    ocp.add_objective(ocp.integral(u**2))
    ocp.method(method_cls(N=4, grid=grid))
    ocp.solver('ipopt', opts)
    return ocp, x

def main():
    from rockit import DirectCollocation, MultipleShooting, UniformGrid, GeometricGrid, FreeTime
    bad = False
    for method_cls in [DirectCollocation, MultipleShooting]:
        for gname, mk in [("UniformGrid(max=0.1)", lambda: UniformGrid(max=0.1)), ("GeometricGrid(2,max=0.1)", lambda: GeometricGrid(2, max=0.1)), ("UniformGrid(min=1)", lambda: UniformGrid(min=1))]:
            # twin: free horizon pinned to 2 by a constraint
            try:
                ocp, x = build(FreeTime(2.0), mk(), method_cls)
                ocp.subject_to(ocp.T == 2)
                ocp.solve()
                twin = "solved"
            except Exception as e:
                twin = "rejected (infeasible)"
            try:
                ocp, x = build(2.0, mk(), method_cls)
                sol = ocp.solve()
                dts = np.diff(np.array(sol.sample(x, grid='control')[0]).reshape(-1))
                print("%s, %s, T=2: solved silently, interval lengths %s ; free-T twin with T==2: %s" % (method_cls.__name__, gname, np.round(dts, 4), twin))
                lo, hi = (1, np.inf) if "min" in gname else (0, 0.1)
                if np.any(dts > hi+1e-9) or np.any(dts < lo-1e-9):
                    bad = True
            except Exception as e:
                print("%s, %s, T=2: library raised: %s" % (method_cls.__name__, gname, str(e)[:80].replace("\n", " ")))
    if bad:
        print("VIOLATION: the declared bound on the control-interval length is ignored for a fixed horizon")
        return 1
    print("ok")
    return 0

if __name__ == '__main__':
    sys.exit(main())
