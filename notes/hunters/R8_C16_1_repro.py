"""C16 / finding 1: stage.der on a stage created from a template silently drops
the terms of quadrature states (and of B-spline signals): der(q) == 0.

Reference: the same stage declared directly (second formulation) and the closed form.
"""
import sys
import numpy as np
import casadi as ca
from rockit import Ocp, Stage, MultipleShooting

opts = {"ipopt.print_level": 0, "print_time": False, "ipopt.sb": "yes"}
bad = False

# ---- (a) expression level -------------------------------------------------
tpl = Stage(t0=0, T=1)
x = tpl.state()
q = tpl.state(quad=True)
b = tpl.variable(grid='bspline', order=2)
tpl.set_der(x, -x)
tpl.set_der(q, x**2)
ocp = Ocp()
s = ocp.stage(tpl)

def num(stage, e, db):
    # numeric value at x=2, q=5, b=3, der(b)=db_val=7
    syms = ca.symvar(e)
    vals = []
    for sy in syms:
        vals.append({"x1": 2.0, "q1": 5.0, "v1": 3.0}.get(sy.name(), 7.0))
    return float(ca.Function('f', syms, [e])(*vals)) if syms else float(ca.evalf(e))

for name, mk, required in [("der(q)", lambda st: st.der(q), 4.0),          # x^2
                           ("der(b*x)", lambda st: st.der(b*x), 7*2 + 3*(-2.0))]:  # db*x + b*(-x)
    on_tpl = num(tpl, mk(tpl), 7.0)
    on_clone = num(s, mk(s), 7.0)
    print("%-9s at x=2,q=5,b=3,der(b)=7 : template %g, stage made from the template %g, required %g" % (name, on_tpl, on_clone, required))
    if abs(on_clone - required) > 1e-9:
        bad = True

# ---- (b) the wrong expression reaches the NLP silently ---------------------
def solve(use_template):
    ocp = Ocp()
    st = Stage(t0=0, T=1) if use_template else ocp.stage(t0=0, T=1)
    x = st.state(); u = st.control(); q = st.state(quad=True)
    st.set_der(x, u); st.set_der(q, x**2)
    st.subject_to(st.at_t0(x) == 1)
    st.subject_to(-1 <= (u <= 1))
    st.method(MultipleShooting(N=4, intg='rk'))
    s = ocp.stage(st) if use_template else st
    # running cost rate x^2 must be <= 0.25 at the end  <=>  x(tf) <= 0.5
    s.subject_to(s.at_tf(s.der(q)) <= 0.25)
    s.add_objective(s.integral(u**2))
    ocp.solver('ipopt', opts)
    sol = ocp.solve()
    return sol(s).sample(x, grid='control')[1]

x_direct = solve(False)
x_templ = solve(True)
print("x(tf) with the stage declared directly   :", x_direct[-1], "(closed form 0.5)")
print("x(tf) with the stage made from a template:", x_templ[-1], "(constraint at_tf(der(q))<=0.25 was dropped: der(q)==0)")
if abs(x_templ[-1] - 0.5) > 1e-4:
    bad = True

print("VIOLATION" if bad else "ok")
sys.exit(1 if bad else 0)
