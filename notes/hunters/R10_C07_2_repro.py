"""
C07 -- read-back through a solution object is not "the same map applied to the solver's decision vector"
once the OCP has been modified and solved again: the placeholder pool (T, t0, ...) and the method object
(time grid, sampler tables) of the NEW transcription leak into the OLD solution object, silently.

History: declare (T=2) - solve (sol1) - modify (set_T(3) [+ method]) - solve (sol2) - read sol1.
Reference: the numbers sol1 itself returned before the second solve / the declared T=2.
"""
import sys
import numpy as np

try:
    from rockit import Ocp, MultipleShooting
except Exception as e:
    print("cannot import rockit:", e); sys.exit(0)

opts = {"ipopt.print_level": 0, "print_time": False, "ipopt.sb": "yes"}

def make():
    ocp = Ocp(t0=0, T=2)
    x = ocp.state(); u = ocp.control()
    ocp.set_der(x, u)
    ocp.subject_to(ocp.at_t0(x) == 1)
    ocp.subject_to(-1 <= (u <= 1))
    ocp.add_objective(ocp.integral(x**2 + u**2))
    ocp.solver('ipopt', opts)
    ocp.method(MultipleShooting(N=4))
    return ocp, x, u

violation = False
def check(label, fun, ref):
    """fun() reads the OLD solution object; ref is what that same object returned before the re-solve"""
    global violation
    try:
        got = fun()
    except Exception as e:
        print("  %-42s raises (%s...) -> loud, not counted" % (label, str(e).replace("\n", " ")[:50]))
        return
    ok = np.allclose(got, ref, atol=1e-8)
    print("  %-42s got %s   required %s   %s" % (label, np.round(got, 5), np.round(ref, 5), "ok" if ok else "<-- SILENTLY WRONG"))
    if not ok:
        violation = True

try:
    print("History A: solve with T=2, then set_T(3) and declare the method again, solve again")
    ocp, x, u = make()
    sol1 = ocp.solve()
    ref = dict(T=sol1.value(ocp.T), tf=sol1.value(ocp.tf), t=sol1.sample(ocp.t, grid='control')[1],
               Tsampled=sol1.sample(ocp.T, grid='control')[1], x=sol1.sample(x, grid='control')[1])
    ocp.set_T(3)
    ocp.method(MultipleShooting(N=4))
    sol2 = ocp.solve()
    print("  (sol2: T=%g, as it should)" % sol2.value(ocp.T))
    check("sol1.value(ocp.T)", lambda: sol1.value(ocp.T), ref['T'])
    check("sol1.value(ocp.tf)", lambda: sol1.value(ocp.tf), ref['tf'])
    check("sol1.sample(ocp.T,'control')", lambda: sol1.sample(ocp.T, grid='control')[1], ref['Tsampled'])
    check("sol1.sample(ocp.t,'control')", lambda: sol1.sample(ocp.t, grid='control')[1], ref['t'])
    check("sol1.sample(x,'control')", lambda: sol1.sample(x, grid='control')[1], ref['x'])
    try:
        a = sol1.value(ocp.T); b = sol1.sample(ocp.T, grid='control')[1][0]; c = sol1.sample(ocp.t, grid='control')[1][-1] - sol1.sample(ocp.t, grid='control')[1][0]
        print("  one and the same solution object now says: value(T)=%g, sample(T)=%g, sampled horizon t[-1]-t[0]=%g" % (a, b, c))
    except Exception:
        pass

    print("History B: solve with T=2, then only set_T(3), solve again")
    ocp, x, u = make()
    sol1 = ocp.solve()
    ref = dict(T=sol1.value(ocp.T), tf=sol1.value(ocp.tf), t=sol1.sample(ocp.t, grid='control')[1],
               x=sol1.sample(x, grid='control')[1], xs=sol1.sampler(x)(1.0))
    ocp.set_T(3)
    sol2 = ocp.solve()
    check("sol1.value(ocp.T)", lambda: sol1.value(ocp.T), ref['T'])
    check("sol1.value(ocp.tf)", lambda: sol1.value(ocp.tf), ref['tf'])
    check("sol1.sample(ocp.t,'control')", lambda: sol1.sample(ocp.t, grid='control')[1], ref['t'])
    check("sol1.sample(x,'control')", lambda: sol1.sample(x, grid='control')[1], ref['x'])
    check("sol1.sampler(x)(1.0)", lambda: sol1.sampler(x)(1.0), ref['xs'])
    print("  (for comparison: sol2.sampler(x)(1.0) = %.5f, sol1's own x(1.0) was %.5f)" % (sol2.sampler(x)(1.0), ref['xs']))
except Exception as e:
    import traceback; traceback.print_exc()
    print("library rejected the input with an exception -> not a silent violation")
    sys.exit(0)

print("RESULT:", "violation present" if violation else "no violation")
sys.exit(1 if violation else 0)
