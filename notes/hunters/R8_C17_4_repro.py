"""
C17 finding 4: in SingleShooting/MultipleShooting (rk, expl_euler, cvodes; any M) a B-spline
variable or parameter that enters the dynamics is frozen at its value at the start of each control
interval. The integrator sees a staircase, not the declared degree-d spline; DirectCollocation (which
evaluates the spline at the collocation points) and the exact answer differ at O(h).

Run: cd /tmp/wt9/C17 && PYTHONPATH=/tmp/wt9/C17:/tmp/nxdeps /venv/bin/python _found/4/repro.py
"""
import sys, warnings
warnings.filterwarnings("ignore")
import numpy as np, casadi as ca
from scipy.interpolate import BSpline
from rockit import Ocp, MultipleShooting, SingleShooting, DirectCollocation

opts = {"ipopt.print_level": 0, "print_time": False, "ipopt.sb": "yes", "ipopt.tol": 1e-10}
t0, T, N, d = 0.5, 2.0, 4, 2
C = np.array([[0.3, -1.0, 2.0, 0.5, 1.5, -0.7]])        # N+d coefficients of the B-spline parameter

def run(method):
    ocp = Ocp(t0=t0, T=T)
    x = ocp.state()
    w = ocp.parameter(grid='bspline', order=d)          # known degree-2 B-spline signal w(t)
    ocp.set_der(x, w)                                   # x' = w(t), x(t0) = 0  ->  x(t) = int w
    ocp.subject_to(ocp.at_t0(x) == 0)
    ocp.set_value(w, C)
    ocp.add_objective(ocp.at_tf(x))
    ocp.solver('ipopt', opts); ocp.method(method)
    sol = ocp.solve()
    tx, xs = sol.sample(x, grid='control')
    tw, ws = sol.sample(w, grid='integrator', refine=4)   # what rockit itself reports for w(t)
    return np.array(tx).squeeze(), xs, np.array(tw).squeeze(), ws

xi = np.linspace(0, 1, N + 1)
knots = np.concatenate([[0]*d, xi, [1]*d])*T + t0
W = BSpline(knots, C.T, d)
Wint = W.antiderivative()

bad = False
print("x' = w(t), w a degree-%d B-spline parameter on N=%d intervals; exact x(t_k) = int_t0^t_k w:" % (d, N))
tk = xi*T + t0
x_exact = np.array([float(Wint(min(t, t0+T-1e-13))[0] - Wint(t0)[0]) for t in tk])
x_zoh = np.concatenate([[0], np.cumsum([float(W(tk[k])[0])*(tk[k+1]-tk[k]) for k in range(N)])])
print("   exact              :", np.round(x_exact, 6))
print("   staircase (w frozen at t_k):", np.round(x_zoh, 6))
for m in [DirectCollocation(N=N, degree=3), MultipleShooting(N=N), MultipleShooting(N=N, M=5),
          MultipleShooting(N=N, intg='cvodes'), SingleShooting(N=N, M=2)]:
    tx, xs, tw, ws = run(m)
    e_sig = np.abs(ws - W(np.minimum(tw, t0+T-1e-13))[:, 0]).max()
    e_x = np.abs(xs - x_exact).max()
    e_z = np.abs(xs - x_zoh).max()
    print("%-18s intg=%-7s M=%d: x(t_k) = %s | err vs exact %.2e, vs staircase %.2e | sampled w vs Cox-de Boor %.1e"
          % (type(m).__name__, m.intg, m.M, np.round(xs, 6), e_x, e_z, e_sig))
    if not isinstance(m, DirectCollocation) and e_x > 1e-6 and e_z < 1e-8:
        bad = True
print()
print("Property C17 requires: 'A variable or parameter declared with grid='bspline' and order d ... is a degree-d B-spline")
print("on the control-grid knots: its samples at any refinement equal the Cox-de Boor evaluation of the coefficients'")
print("(title: 'B-spline signals ... are exact splines of the model').")
if bad:
    print("VIOLATION (silent): the shooting methods report w(t) as the spline (sample err ~1e-13) but integrate the model with")
    print("w held constant per control interval (independent of M and of the integrator); order d is ignored by the dynamics.")
    sys.exit(1)
print("no violation observed")
sys.exit(0)
