"""C19 / finding 1: in a multi-stage OCP, to_function does not initialise the collocation helper
states of a DirectCollocation stage from the state guess it is given (the single-stage Ocp does).

run: cd /tmp/wt9/C19 && PYTHONPATH=/tmp/wt9/C19 /venv/bin/python _found/1/repro.py
"""
import sys
import numpy as np
import casadi as ca
from rockit import Ocp, DirectCollocation

N = 4
quiet = {"ipopt.print_level": 0, "print_time": False, "ipopt.sb": "yes", "ipopt.tol": 1e-10}

def declare(st):
    # x' = u,  minimise  int (1-cos(2 pi x)) + u^2 dt : every constant integer x is an isolated minimiser (cost 0)
    x = st.state()
    u = st.control()
    st.set_der(x, u)
    st.add_objective(st.integral(1 - ca.cos(2*ca.pi*x) + u**2))
    st.method(DirectCollocation(N=N, M=2, degree=3))
    return x, u

def single(opts):
    ocp = Ocp(t0=0, T=1)
    x, u = declare(ocp)
    ocp.solver('ipopt', opts)
    return ocp, ocp, x

def multi(opts):
    ocp = Ocp()
    st = ocp.stage(t0=0, T=1)
    x, u = declare(st)
    ocp.solver('ipopt', opts)
    return ocp, st, x

xg = 3.0*np.ones((1, N+1))   # state guess on the control grid: x = 3 everywhere
bad = False
for label, opts in [("starting point handed to the solver (ipopt.max_iter=0)", dict(quiet, **{"ipopt.max_iter": 0})),
                    ("converged solution", quiet)]:
    print("==", label)
    out = {}
    for name, mk in [("single-stage", single), ("multi-stage", multi)]:
        # imperative pipeline
        ocp, st, x = mk(opts)
        st.set_initial(x, xg)
        sol = ocp.solve_limited()
        S = sol if st is ocp else sol(st)
        imp = np.array(S.sample(x, grid='integrator_roots')[1]).squeeze()
        # to_function
        ocp, st, x = mk(opts)
        f = ocp.to_function('f', [st.sample(x, grid='control')[1]], [st.sample(x, grid='integrator_roots')[1]])
        fun = np.array(f(xg)).squeeze()
        out[name] = (imp, fun)
        print("  %-12s set_initial+solve : x at collocation points = %s" % (name, np.round(imp, 6)))
        print("  %-12s to_function       : x at collocation points = %s" % (name, np.round(fun, 6)))
    for name, (imp, fun) in out.items():
        d = np.abs(imp-fun).max()
        if d > 1e-6:
            print("  VIOLATION (%s): to_function differs from set_initial+solve by %g" % (name, d))
            bad = True
print()
print("required by C19: f(x_guess) == values obtained with set_initial(x, x_guess); solve(); sample(...)  (here: x == 3 everywhere,")
print("the closed-form minimiser next to the guess; the single-stage twin of the same OCP confirms it).")
sys.exit(1 if bad else 0)
