"""Adjacent to C16 (found while integrating der(u)**2): with SplineMethod every ocp.integral(...) is silently 0.

min  int_0^2 der(u)^2 dt   s.t. u(0)=0, u(2)=1, u = control(order=1)
closed form: der(u) = 0.5, objective 0.5.  Reference: MultipleShooting on the same OCP.
"""
import sys
import numpy as np
from rockit import Ocp, SplineMethod, MultipleShooting

opts = {"ipopt.print_level": 0, "print_time": False, "ipopt.sb": "yes"}
res = {}
for m in [MultipleShooting(N=8, intg='rk'), SplineMethod(N=8)]:
    ocp = Ocp(T=2)
    u = ocp.control(order=1)
    ocp.subject_to(ocp.at_t0(u) == 0)
    ocp.subject_to(ocp.at_tf(u) == 1)
    ocp.add_objective(ocp.integral(ocp.der(u)**2))
    ocp.method(m)
    ocp.solver('ipopt', opts)
    sol = ocp.solve()
    du = sol.sample(ocp.der(u), grid='control')[1]
    res[type(m).__name__] = (float(sol.value(ocp.objective)), du)
    print("%-16s objective = %.6f (closed form 0.5)  der(u) on the grid = %s" % (type(m).__name__, res[type(m).__name__][0], np.round(du, 3)))
bad = abs(res["SplineMethod"][0]-0.5) > 1e-6
print("VIOLATION: the integral is 0 in the NLP, der(u) is left arbitrary" if bad else "ok")
sys.exit(1 if bad else 0)
