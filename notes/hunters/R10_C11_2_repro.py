"""
C11: Ocp.transcribe() transcribes the *declared* problem in place (not a copy, as solve()/sample()/value() do).
For a free-time OCP this replaces the FreeTime declaration by an ordinary variable inside the declaration itself,
after which
  (a) ocp.set_initial(ocp.T, g) is silently ignored (the starting value stays the FreeTime guess),
  (b) ocp.clear_constraints() removes T>=0 for good (the free-time NLP no longer contains T>=0),
  (c) ocp.set_T(FreeTime(g)) leaves an orphan decision variable (and an orphan row) in the NLP.
Reference for every item: the identical call sequence without the transcribe() call.
"""
import sys
import numpy as np
import casadi as ca
from rockit import Ocp, FreeTime, MultipleShooting

SOLV = {"ipopt.print_level": 0, "print_time": False, "ipopt.sb": "yes"}

def declare_constraints(ocp, x, u):
    ocp.subject_to(ocp.at_t0(x) == 0)
    ocp.subject_to(ocp.at_tf(x) == 1)
    ocp.subject_to(-1 <= (u <= 1))

def build():
    ocp = Ocp(T=FreeTime(1.5))
    x = ocp.state(); u = ocp.control()
    ocp.set_der(x, u)
    declare_constraints(ocp, x, u)
    ocp.add_objective(ocp.integral(u**2) + ocp.T)
    ocp.method(MultipleShooting(N=2))
    ocp.solver('ipopt', SOLV)
    return ocp, x, u

def summary(ocp):
    ocp._transcribed
    opti = ocp._method.opti
    Tguess = float(opti.debug.value(ocp.value(ocp.T), opti.initial()))
    # is there a row that says T >= 0 ?
    T = ocp.value(ocp.T)
    F = ca.Function('F', [opti.x, opti.p], [opti.g, opti.lbg, opti.ubg, ca.jacobian(opti.g, opti.x), ca.jacobian(T, opti.x)])
    x = np.random.rand(opti.nx)
    g, lb, ub, J, JT = [np.array(e) for e in F(x, [])]
    iT = int(np.nonzero(JT.reshape(-1))[0][0])
    has_T_ge_0 = False
    for r in range(J.shape[0]):
        cols = np.nonzero(J[r, :])[0]
        if len(cols) == 1 and cols[0] == iT and lb[r] == 0 and np.isinf(ub[r]) and abs(g[r] - x[iT]) < 1e-12:
            has_T_ge_0 = True
    return dict(nx=opti.nx, ng=opti.ng, Tguess=Tguess, T_ge_0=has_T_ge_0)

def scenario(with_transcribe, action):
    ocp, x, u = build()
    if with_transcribe:
        ocp.transcribe()
    action(ocp, x, u)
    return summary(ocp)

def a(ocp, x, u):
    ocp.set_initial(ocp.T, 4.0)
def b(ocp, x, u):
    ocp.clear_constraints()
    declare_constraints(ocp, x, u)
def c(ocp, x, u):
    ocp.set_T(FreeTime(2.5))

bad = False
try:
    for name, action, what in [("(a) set_initial(ocp.T, 4.0)", a, "starting value of T must be 4.0"),
                               ("(b) clear_constraints() + same constraints again", b, "the NLP must contain T>=0"),
                               ("(c) set_T(FreeTime(2.5))", c, "same NLP size as without transcribe(), starting value 2.5")]:
        ref = scenario(False, action)
        obs = scenario(True, action)
        print(name)
        print("    without ocp.transcribe():", ref)
        print("    after   ocp.transcribe():", obs, "   <-- required:", what)
        if obs != ref:
            bad = True
            print("    VIOLATION")
except Exception as e:
    print("library raised:", str(e).strip().split("\n")[-1][:200])
    sys.exit(0)

print()
print('Property C11: "Declaring T ... as FreeTime(guess) ... yields ... an NLP whose restriction to T=c has the same objective and')
print('constraints as the same OCP declared with the fixed numbers, plus T>=0; ... and its starting value is the guess."')
sys.exit(1 if bad else 0)
