"""C14 / finding 1: ocp.to_function stops working as soon as a state (control, variable) carries scale=.

Reference: the same OCP without scale= (to_function works and returns the optimal trajectory), and the
property itself: scaling must not change the meaning of the problem, read-in/read-back stay physical.
"""
import sys, io, contextlib
import numpy as np
from casadi import DM, vertcat, sumsqr
import rockit
from rockit import Ocp, MultipleShooting, DirectCollocation
assert rockit.__file__.startswith('/tmp/wt9/C14'), rockit.__file__
OPTS = {"ipopt.print_level": 0, "print_time": False, "ipopt.sb": "yes"}

def build(method, sx, su):
    ocp = Ocp(T=2)
    x = ocp.state(2, scale=sx)
    u = ocp.control(scale=su)
    p = ocp.parameter(2)
    ocp.set_value(p, DM([1, 2]))
    ocp.set_der(x, vertcat(x[1], u))
    ocp.subject_to(ocp.at_t0(x) == p)
    ocp.subject_to(-1 <= (u <= 1))
    ocp.add_objective(ocp.integral(sumsqr(x) + u**2))
    ocp.solver('ipopt', OPTS)
    ocp.method(method)
    return ocp, x, u, p

def attempt(label, method_factory, sx, su, with_state_args):
    ocp, x, u, p = build(method_factory(), sx, su)
    xs = ocp.sample(x, grid='control')[1]
    us = ocp.sample(u, grid='control-')[1]
    try:
        with contextlib.redirect_stdout(io.StringIO()):
            if with_state_args:
                f = ocp.to_function('f', [p, xs, us], [xs, us])
                r = f(DM([1, 2]), DM.zeros(xs.shape), DM.zeros(us.shape))
            else:
                f = ocp.to_function('f', [p], [xs, us])
                r = f(DM([1, 2]))
        return np.array(r[0])
    except Exception as e:
        msg = str(e).strip().splitlines()
        return "EXCEPTION: " + " | ".join(msg[-2:])

bad = 0
cases = [
    ("DirectCollocation, args=[p]            ", lambda: DirectCollocation(N=4, degree=2), False),
    ("DirectCollocation, args=[p, X, U] guess", lambda: DirectCollocation(N=4, degree=2), True),
    ("MultipleShooting,  args=[p]            ", lambda: MultipleShooting(N=4), False),
    ("MultipleShooting,  args=[p, X, U] guess", lambda: MultipleShooting(N=4), True),
]
for label, mf, wsa in cases:
    ref = attempt(label, mf, 1, 1, wsa)
    got = attempt(label, mf, DM([10, 0.1]), 50, wsa)
    assert not isinstance(ref, str), "reference (no scale) should work: " + str(ref)
    if isinstance(got, str):
        print(f"{label}: unscaled OK, x(t0..)={ref[:, 0]};  with scale= -> {got}")
        bad += 1
    else:
        dev = np.abs(got - ref).max()
        print(f"{label}: unscaled OK; with scale= OK, max deviation of trajectories {dev:.2e}")
        if dev > 1e-5:
            bad += 1
print()
print("required by C14: identical behaviour/physical results with and without scale=")
print("observed       : %d of %d call patterns fail (with an exception that does not mention scaling)" % (bad, len(cases)))
sys.exit(1 if bad else 0)
