"""C19 / finding 3: guesses declared as expressions (of ocp.t, of parameters, of other variables) are frozen in the
function at creation time; the imperative pipeline re-evaluates them whenever set_initial is called.

run: cd /tmp/wt9/C19 && PYTHONPATH=/tmp/wt9/C19 /venv/bin/python _found/3/repro.py
"""
import sys
import numpy as np
import casadi as ca
from rockit import Ocp, FreeTime, MultipleShooting, DirectCollocation

N = 4
quiet = {"ipopt.print_level": 0, "print_time": False, "ipopt.sb": "yes", "ipopt.tol": 1e-10}

def build(method, opts):
    # x' = u, x(0)=0; minimise sum_k (1-cos(2 pi x_k)) + int 0.01 u^2 + (T-4)^2 : non-convex in x (minima near every integer)
    ocp = Ocp(t0=0, T=FreeTime(1))
    x = ocp.state()
    u = ocp.control()
    p = ocp.parameter()
    ocp.set_der(x, p*u)
    ocp.subject_to(ocp.at_t0(x) == 0)
    ocp.add_objective(ocp.integral(0.01*u**2))
    ocp.add_objective(ocp.sum(1 - ca.cos(2*ca.pi*x), include_last=True))
    ocp.add_objective((ocp.T - 4)**2)
    ocp.set_value(p, 0.5)
    ocp.set_initial(x, ocp.t)      # guess: x(t) = t  -> follows the guess of the horizon
    ocp.set_initial(u, 1/p)        # guess: u = x'/p  -> follows the value of the parameter
    ocp.method(method())
    ocp.solver('ipopt', opts)
    return ocp, x, u, p

bad = False
for label, opts in [("starting point handed to the solver (ipopt.max_iter=0)", dict(quiet, **{"ipopt.max_iter": 0})),
                    ("converged solution", quiet)]:
    print("==", label)
    for name, method in [("MultipleShooting", lambda: MultipleShooting(N=N)), ("DirectCollocation", lambda: DirectCollocation(N=N))]:
        results = lambda o: [o.sample(x, grid='control')[1], o.sample(u, grid='control-')[1], o.value(ocp.T)]
        imps = []
        for first_solve in [False, True]:
            ocp, x, u, p = build(method, opts)
            if first_solve: ocp.solve_limited()
            ocp.set_value(p, 1)
            ocp.set_initial(ocp.T, 4)
            sol = ocp.solve_limited()
            imps.append(np.hstack([np.array(e).flatten() for e in results(sol)]))
        ocp, x, u, p = build(method, opts)
        f = ocp.to_function('f', [ocp.value(p), ocp.value(ocp.T)], results(ocp))
        fun = np.hstack([np.array(e).flatten() for e in f(1, 4)])
        print("  " + name + "   [x on control grid | u | T]")
        print("     set_value(p,1); set_initial(T,4); solve        :", np.round(imps[0], 4))
        print("     solve; set_value(p,1); set_initial(T,4); solve :", np.round(imps[1], 4))
        print("     to_function, f(1,4)                            :", np.round(fun, 4))
        d = max(np.abs(imps[0]-fun).max(), np.abs(imps[1]-fun).max())
        if d > 1e-4:
            print("     VIOLATION: differs by %g" % d)
            bad = True
print()
print("required by C19: f(1,4) == values after set_value(p,1); set_initial(ocp.T,4); solve()  (start: x_k = t_k = k, u = 1/p = 1)")
sys.exit(1 if bad else 0)
