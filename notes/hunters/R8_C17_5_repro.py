"""
C17 finding 5: for the sampling methods (Single/MultipleShooting, DirectCollocation) the refine=
argument of a grid='control' path constraint and of ocp.sample(..., grid='control', refine=r) is
silently ignored. A bound on a grid='bspline' variable declared with refine=r is imposed at the
N+1 control nodes only; the spline overshoots it at the refined points where SplineMethod holds it.

Run: cd /tmp/wt9/C17 && PYTHONPATH=/tmp/wt9/C17:/tmp/nxdeps /venv/bin/python _found/5/repro.py
"""
import sys, warnings
warnings.filterwarnings("ignore")
import numpy as np, casadi as ca
from rockit import Ocp, MultipleShooting, DirectCollocation, SplineMethod

opts = {"ipopt.print_level": 0, "print_time": False, "ipopt.sb": "yes", "ipopt.tol": 1e-10}
N, r = 4, 4

def solve(method):
    ocp = Ocp(T=2.0)
    x = ocp.state(); u = ocp.control()
    ocp.set_der(x, u); ocp.subject_to(ocp.at_t0(x) == 0)
    s = ocp.variable(grid='bspline', order=3)
    ocp.subject_to(s <= 1.0, refine=r)                       # bound at N*r+1 points
    # pull s towards 3, far above the bound, everywhere in time
    if isinstance(method, SplineMethod):
        ocp.add_objective(ocp.sum((s - 3.0)**2, include_last=True))     # (ocp.integral is not usable there, see finding 1)
    else:
        ocp.add_objective(ocp.integral((s - 3.0)**2))                    # DirectCollocation: evaluated at the collocation points
    ocp.add_objective(ocp.sum(u**2))
    ocp.solver('ipopt', opts); ocp.method(method)
    sol = ocp.solve()
    ng = ocp._method.opti.ng
    ts, ss = sol.sample(s, grid='control', refine=r)
    if isinstance(method, SplineMethod):
        tf_, sf = ts, ss
    else:
        tf_, sf = sol.sample(s, grid='integrator', refine=r*2)   # independent fine evaluation of the spline
    return ng, np.array(ts).size, ss, sf

bad = False
for m in [SplineMethod(N=N), MultipleShooting(N=N), DirectCollocation(N=N, degree=4)]:
    try:
        ng, nsamp, ss, sf = solve(m)
    except Exception as e:
        print(type(m).__name__, "EXC", str(e)[-200:]); continue
    print("%-18s: sample(s, grid='control', refine=%d) returned %2d points (N*r+1 = %d); max s on fine grid = %.4f (bound 1.0)"
          % (type(m).__name__, r, nsamp, N*r+1, sf.max()))
    if not isinstance(m, SplineMethod) and (nsamp != N*r+1 or sf.max() > 1.0+1e-6):
        bad = True
print()
print("Property C17: 'its samples at any refinement equal the Cox-de Boor evaluation ...' / 'path constraints are imposed at every (refined) grid point'.")
if bad:
    print("VIOLATION (silent): refine= is dropped by Stage._grid_control and by the add_constraints loops of the sampling methods.")
    sys.exit(1)
print("no violation observed")
sys.exit(0)
