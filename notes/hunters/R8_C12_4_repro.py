"""C12 / finding 4: sol(stage) read-back of a boundary value that is first written down AFTER the solve.

Single-stage:  sol = ocp.solve(); sol.value(ocp.at_tf(x))            -> works (supported since rockit issue #91)
Multi-stage :  sol = ocp.solve(); sol(stage).value(stage.at_tf(x))   -> RuntimeError: Unknown: MX symbol 'r_at_tf' ... declared outside of Opti
               (same for at_t0, sum, integral(grid='control'), and for sol(stage).sample(x - stage.at_t0(x), ...))
Reference: the same quantity declared before the solve, and sol(stage).sample(x, grid='control')[1][-1].

Run: cd /tmp/wt9/C12 && PYTHONPATH=/tmp/wt9/C12:/tmp/nxdeps /venv/bin/python _found/4/repro.py
"""
import sys, warnings
warnings.filterwarnings("ignore")
import numpy as np
from rockit import Ocp, MultipleShooting

opts = {"ipopt.print_level": 0, "print_time": False, "ipopt.sb": "yes"}


def content(s):
    x = s.state(); u = s.control()
    s.set_der(x, -x + u); s.subject_to(s.at_t0(x) == 1)
    s.add_objective(s.integral(x**2 + u**2)); s.method(MultipleShooting(N=3))
    return x, u


bad = False
# single stage
o = Ocp(t0=0, T=1); x, u = content(o); o.solver('ipopt', opts)
sol = o.solve()
ref = sol.sample(x, grid='control')[1][-1]
print("single-stage : sol.value(ocp.at_tf(x)) written after the solve = %.9f   (last sample %.9f)" % (sol.value(o.at_tf(x)), ref))

# the same stage inside a multi-stage problem
ocp = Ocp(); s = ocp.stage(t0=0, T=1); x, u = content(s)
before = s.at_tf(x)                       # declared before the solve
ocp.solver('ipopt', opts)
sol = ocp.solve()
print("multi-stage  : sol(stage).value(<at_tf(x) written before the solve>) = %.9f" % sol(s).value(before))
for label, make in [("stage.at_tf(x)", lambda: s.at_tf(x)), ("stage.at_t0(u)", lambda: s.at_t0(u)), ("stage.sum(u**2)", lambda: s.sum(u**2))]:
    try:
        val = sol(s).value(make())
        print("multi-stage  : sol(stage).value(%s) written after the solve = %.9f" % (label, val))
    except Exception as e:
        msg = [l for l in str(e).splitlines() if "Unknown" in l]
        print("multi-stage  : sol(stage).value(%s) written after the solve raises %s: %s" % (label, type(e).__name__, (msg or [str(e)])[0][-80:]))
        bad = True
print()
print("property: 'at_t0/at_tf/... of a stage refer to that stage only' and sol(stage) reads a stage back like a single-stage solution;")
print("observed: a placeholder created on a sub-stage after transcription is unknown to the transcribed copy of that sub-stage")
sys.exit(1 if bad else 0)
