"""rkverif -- static verification of the rockit properties C01-C20 (see /verif/DESIGN.md)."""
