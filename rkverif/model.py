"""E0 -- program model of /repo/rockit built from source text only (ast).

Nothing here imports rockit or casadi.  The repository root comes from the
environment variable ROCKIT_REPO (default /repo) so that the self-test can point
the very same code at scratch copies.
"""
import ast
import hashlib
import os


class AnalysisError(Exception):
    """An anchor is missing or a shape is outside the idioms the extractor knows.

    Never used to hide a violation: a *missing obligation* is a violation, only
    an unparseable / vanished anchor is an analysis error (exit code 2)."""


CORE_FILES = [
    "rockit/__init__.py",
    "rockit/casadi_helpers.py",
    "rockit/direct_collocation.py",
    "rockit/direct_method.py",
    "rockit/freetime.py",
    "rockit/grouping_techniques.py",
    "rockit/multiple_shooting.py",
    "rockit/ocp.py",
    "rockit/placeholders.py",
    "rockit/sampling_method.py",
    "rockit/single_shooting.py",
    "rockit/solution.py",
    "rockit/spline_method.py",
    "rockit/stage.py",
    "rockit/splines/__init__.py",
    "rockit/splines/micro_spline.py",
    "rockit/splines/spline.py",
    "rockit/splines/spline_extra.py",
]


def repo_root():
    return os.environ.get("ROCKIT_REPO", "/repo")


class FunctionInfo:
    def __init__(self, node, module, cls=None, outer=None):
        self.node = node
        self.name = node.name
        self.module = module
        self.cls = cls
        self.outer = outer
        if outer is not None:
            self.qualname = outer.qualname + ".<locals>." + node.name
        elif cls is not None:
            self.qualname = cls.name + "." + node.name
        else:
            self.qualname = node.name
        self.decorators = [ast.unparse(d) for d in node.decorator_list]
        a = node.args
        self.params = [x.arg for x in a.posonlyargs + a.args]
        self.kwonly = [x.arg for x in a.kwonlyargs]
        self.vararg = a.vararg.arg if a.vararg else None
        self.kwarg = a.kwarg.arg if a.kwarg else None

    @property
    def file(self):
        return self.module.relpath

    @property
    def line(self):
        return self.node.lineno

    def where(self, node=None):
        return "%s:%d" % (self.module.relpath, (node.lineno if node is not None and hasattr(node, "lineno") else self.node.lineno))

    def __repr__(self):
        return "<fn %s>" % self.qualname


class ClassInfo:
    def __init__(self, node, module):
        self.node = node
        self.name = node.name
        self.module = module
        self.bases = [ast.unparse(b) for b in node.bases]
        self.methods = {}
        self.aliases = {}  # class-level `a = b` between methods
        for st in node.body:
            if isinstance(st, (ast.FunctionDef, ast.AsyncFunctionDef)):
                self.methods[st.name] = FunctionInfo(st, module, cls=self)
            elif isinstance(st, ast.Assign) and len(st.targets) == 1 and isinstance(st.targets[0], ast.Name) \
                    and isinstance(st.value, ast.Name):
                self.aliases[st.targets[0].id] = st.value.id

    def __repr__(self):
        return "<class %s>" % self.name


class ModuleInfo:
    def __init__(self, root, relpath):
        self.relpath = relpath
        self.path = os.path.join(root, relpath)
        with open(self.path, "rb") as f:
            raw = f.read()
        self.sha256 = hashlib.sha256(raw).hexdigest()
        self.src = raw.decode("utf-8")
        try:
            self.tree = ast.parse(self.src, filename=relpath)
        except SyntaxError as e:
            raise AnalysisError("cannot parse %s: %s" % (relpath, e))
        self.name = relpath[:-3].replace("/", ".")
        if self.name.endswith(".__init__"):
            self.name = self.name[: -len(".__init__")]
        self.functions = {}
        self.classes = {}
        self.imports = {}       # local name -> (module string, original name or None)
        self.star_imports = []  # module strings
        self._index()

    def _index(self):
        for st in ast.walk(self.tree):
            if isinstance(st, ast.ImportFrom):
                mod = ("." * st.level) + (st.module or "")
                for al in st.names:
                    if al.name == "*":
                        self.star_imports.append(mod)
                    else:
                        self.imports[al.asname or al.name] = (mod, al.name)
            elif isinstance(st, ast.Import):
                for al in st.names:
                    self.imports[al.asname or al.name.split(".")[0]] = (al.name, None)
        for st in self.tree.body:
            self._index_stmt(st)

    def _index_stmt(self, st):
        if isinstance(st, (ast.FunctionDef, ast.AsyncFunctionDef)):
            self.functions[st.name] = FunctionInfo(st, self)
        elif isinstance(st, ast.ClassDef):
            self.classes[st.name] = ClassInfo(st, self)
        elif isinstance(st, (ast.Try, ast.If)):
            for sub in ast.iter_child_nodes(st):
                if isinstance(sub, ast.stmt):
                    self._index_stmt(sub)
                elif isinstance(sub, ast.ExceptHandler):
                    for s2 in sub.body:
                        self._index_stmt(s2)


def nested_functions(fi):
    """Directly nested function definitions of a FunctionInfo (closures such as `action`)."""
    out = {}
    stack = list(fi.node.body)
    while stack:
        st = stack.pop()
        if isinstance(st, (ast.FunctionDef, ast.AsyncFunctionDef)):
            out[st.name] = FunctionInfo(st, fi.module, cls=fi.cls, outer=fi)
            continue
        if isinstance(st, ast.ClassDef):
            continue
        for sub in ast.iter_child_nodes(st):
            if isinstance(sub, (ast.stmt, ast.ExceptHandler)):
                stack.append(sub)
    return out


# Receiver typing table (E0), confirmed by reading.  Maps the *text* of a
# receiver expression to a class family.  A family is resolved to all concrete
# classes of the hierarchy rooted at the named class.
STAGE_RECEIVERS = {"stage", "self.master", "stage.master", "self._augmented", "self._original",
                   "self.stage", "s", "ocp", "ret", "self._transcribed", "self.ocp", "augmented",
                   "self._augmented._transcribed", "template", "cp", "self.parent"}
METHOD_RECEIVERS = {"stage._method", "self._method", "stage.master._method", "self.master._method",
                    "method", "ret._method", "template"}
GRID_RECEIVERS = {"self.time_grid"}
OPTI_RECEIVERS = {"opti", "self.opti", "stage.master._method.opti", "master.opti", "master"}


class Program:
    def __init__(self, root=None, with_external=False):
        self.root = root or repo_root()
        self.modules = {}
        for rel in CORE_FILES:
            p = os.path.join(self.root, rel)
            if not os.path.exists(p):
                raise AnalysisError("anchor file missing: %s" % rel)
            self.modules[rel] = ModuleInfo(self.root, rel)
        self.external = {}
        if with_external:
            ext = os.path.join(self.root, "rockit", "external")
            for dp, dn, fn in os.walk(ext):
                for f in sorted(fn):
                    if f.endswith(".py"):
                        rel = os.path.relpath(os.path.join(dp, f), self.root)
                        try:
                            self.external[rel] = ModuleInfo(self.root, rel)
                        except AnalysisError:
                            pass
        self.classes = {}
        for m in self.modules.values():
            for c in m.classes.values():
                if c.name in self.classes:
                    # keep the first; core class names are unique today
                    continue
                self.classes[c.name] = c
        self._consulted = set()
        self._scopes = {}
        # normalisation of the trees before any rule runs (rkverif/canon.py, rkverif/inline.py):
        # renamed private helpers get their known name back, equivalent statement idioms are brought to one
        # form, helpers that did not exist when the rules were written are inlined away
        self.normalisation = {}
        if os.environ.get("RKVERIF_RAW") != "1":
            try:
                from .inline import inline_new_helpers, known_names
                from .canon import unrename, canonicalise, unrename_locals
                from .canon import unroll_class_body_tables
                self.normalisation["class_body_tables_unrolled"] = unroll_class_body_tables(self)
                from .canon import push_down_new_mixins
                self.normalisation["mixins_pushed_down"] = push_down_new_mixins(self, known_names())
                from .canon import methodise
                self.normalisation["methodised"] = methodise(self)
                self.normalisation["unrenamed"] = unrename(self, known_names())
                from .canon import partial_to_lambda
                self.normalisation["partials_to_lambdas"] = partial_to_lambda(self, known_names())
                from .canon import dissolve_namedtuples
                self.normalisation["namedtuples_dissolved"] = dissolve_namedtuples(self)
                from .canon import inline_new_generators
                self.normalisation["generators_dissolved"] = inline_new_generators(self, known_names())
                from .canon import inline_generator_delegation
                self.normalisation["generator_delegations_inlined"] = inline_generator_delegation(self, known_names())
                from .canon import closures_from_method_refs
                self.normalisation["closures_restored"] = closures_from_method_refs(self, known_names())
                self.normalisation["locals_unrenamed"] = unrename_locals(self)
                self.normalisation["canonicalised"] = canonicalise(self)
                from .inline import scalarise_helper_objects
                self.normalisation["helper_objects_dissolved"] = scalarise_helper_objects(self)
                if self.normalisation["helper_objects_dissolved"]:
                    self.normalisation["locals_unrenamed"] = list(self.normalisation["locals_unrenamed"] or []) + list(unrename_locals(self) or [])
                self.inlining = inline_new_helpers(self)
                self.normalisation["inlining"] = self.inlining
                if self.inlining.get("inlined_calls"):
                    self.normalisation["canonicalised"] += canonicalise(self)
                from .canon import inline_new_locals, splice_index_lists
                self.normalisation["new_locals_inlined"] = inline_new_locals(self)
                self.normalisation["index_lists_spliced"] = splice_index_lists(self)
                if self.normalisation["new_locals_inlined"] or self.normalisation["index_lists_spliced"]:
                    for m_ in self.modules.values():
                        ast.fix_missing_locations(m_.tree)
                    self.normalisation["canonicalised"] += canonicalise(self)
                    # writing a local out can make further locals / reassignments foldable: iterate to a fixed point (bounded)
                    for _ in range(3):
                        more = inline_new_locals(self)
                        if not more:
                            break
                        self.normalisation["new_locals_inlined"] = list(self.normalisation["new_locals_inlined"]) + list(more)
                        for m_ in self.modules.values():
                            ast.fix_missing_locations(m_.tree)
                        self.normalisation["canonicalised"] += canonicalise(self)
            except RecursionError:
                self.inlining = {"enabled": False, "error": "recursion"}

    # -- lookup -------------------------------------------------------------
    def module(self, short):
        rel = "rockit/%s.py" % short
        if rel not in self.modules:
            raise AnalysisError("anchor module missing: %s" % rel)
        self._consulted.add(rel)
        return self.modules[rel]

    def cls(self, name):
        if name not in self.classes:
            raise AnalysisError("anchor class missing: %s" % name)
        c = self.classes[name]
        self._consulted.add(c.module.relpath)
        return c

    def has_cls(self, name):
        return name in self.classes

    def mro(self, name):
        out = []
        seen = set()
        work = [name]
        while work:
            n = work.pop(0)
            if n in seen or n not in self.classes:
                continue
            seen.add(n)
            c = self.classes[n]
            out.append(c)
            work = work + [b.split(".")[-1] for b in c.bases]
        return out

    def subclasses(self, name, strict=False):
        out = []
        for c in self.classes.values():
            names = [k.name for k in self.mro(c.name)]
            if name in names and not (strict and c.name == name):
                out.append(c.name)
        return sorted(out)

    def resolve(self, clsname, meth):
        """Method resolution through the MRO (follows class-level aliases)."""
        for c in self.mro(clsname):
            if meth in c.methods:
                self._consulted.add(c.module.relpath)
                return c.methods[meth]
            if meth in c.aliases and c.aliases[meth] in c.methods:
                self._consulted.add(c.module.relpath)
                return c.methods[c.aliases[meth]]
        return None

    def method(self, clsname, meth):
        self.cls(clsname)
        f = self.resolve(clsname, meth)
        if f is None:
            raise AnalysisError("anchor method missing: %s.%s" % (clsname, meth))
        return f

    def own_method(self, clsname, meth):
        c = self.cls(clsname)
        if meth not in c.methods:
            raise AnalysisError("anchor method missing: %s.%s (own definition)" % (clsname, meth))
        return c.methods[meth]

    def function(self, short_module, name):
        m = self.module(short_module)
        if name not in m.functions:
            raise AnalysisError("anchor function missing: %s:%s" % (m.relpath, name))
        return m.functions[name]

    def all_functions(self, include_nested=True):
        for m in self.modules.values():
            for f in m.functions.values():
                yield f
                if include_nested:
                    yield from self._nested_rec(f)
            for c in m.classes.values():
                for f in c.methods.values():
                    yield f
                    if include_nested:
                        yield from self._nested_rec(f)

    def _nested_rec(self, f):
        for g in nested_functions(f).values():
            yield g
            yield from self._nested_rec(g)

    # -- call resolution --------------------------------------------------------
    def family(self, root):
        return self.subclasses(root)

    def receiver_family(self, recv_text, fi):
        """Class names a receiver expression may denote inside function fi (None = unknown / library)."""
        cname = fi.cls.name if fi.cls else None
        if recv_text == "self" and cname:
            return self.subclasses(cname)
        if recv_text in self.classes:
            return [recv_text]
        in_stage = cname in ("Stage", "Ocp")
        in_method = cname is not None and "DirectMethod" in [c.name for c in self.mro(cname)]
        if recv_text in STAGE_RECEIVERS and not (recv_text == "template" and in_method):
            if recv_text == "template" and not in_stage:
                return None
            return ["Stage", "Ocp"]
        if recv_text in METHOD_RECEIVERS:
            return self.subclasses("DirectMethod")
        if recv_text in GRID_RECEIVERS:
            return self.subclasses("Grid")
        if recv_text in OPTI_RECEIVERS and not in_stage:
            return ["OptiWrapper"]
        if recv_text.endswith(".opti"):
            return ["OptiWrapper"]
        return None

    def resolve_call(self, fi, call, concrete=None):
        """Resolve an ast.Call inside fi to FunctionInfo candidates.

        concrete: when given, the concrete class `self` is bound to (so that self.m()
        resolves through that class's MRO only)."""
        fn = call.func
        out = []
        if isinstance(fn, ast.Name):
            # nested function, module function, imported rockit function, class constructor
            scope = fi
            while scope is not None:
                nf = nested_functions(scope)
                if fn.id in nf:
                    return [nf[fn.id]]
                scope = scope.outer
            m = fi.module
            if fn.id in m.functions:
                return [m.functions[fn.id]]
            if fn.id in m.imports:
                mod, orig = m.imports[fn.id]
                tgt = self._rockit_module(m, mod)
                if tgt is not None and orig in tgt.functions:
                    return [tgt.functions[orig]]
            if fn.id in self.classes:
                init = self.resolve(fn.id, "__init__")
                return [init] if init else []
            return []
        if isinstance(fn, ast.Attribute):
            recv = ast.unparse(fn.value)
            meth = fn.attr
            if recv == "self" and fi.cls is not None:
                if concrete is not None:
                    r = self.resolve(concrete, meth)
                    return [r] if r else []
                for cn in self.subclasses(fi.cls.name):
                    r = self.resolve(cn, meth)
                    if r and r not in out:
                        out.append(r)
                return out
            if recv in self.classes:
                r = self.resolve(recv, meth)
                return [r] if r else []
            fam = self.receiver_family(recv, fi)
            if fam:
                for cn in fam:
                    r = self.resolve(cn, meth)
                    if r and r not in out:
                        out.append(r)
                return out
        return out

    def _rockit_module(self, m, mod):
        if mod.startswith("."):
            base = m.name.split(".")
            if not m.relpath.endswith("__init__.py"):
                base = base[:-1]
            level = len(mod) - len(mod.lstrip("."))
            base = base[: len(base) - (level - 1)]
            name = ".".join(base + ([mod.lstrip(".")] if mod.lstrip(".") else []))
        else:
            name = mod
        for mm in self.modules.values():
            if mm.name == name:
                return mm
        return None

    def calls_in(self, fi, include_nested=True):
        """All ast.Call nodes lexically inside fi (optionally including nested defs)."""
        out = []
        stack = list(ast.iter_child_nodes(fi.node))
        while stack:
            n = stack.pop()
            if isinstance(n, (ast.FunctionDef, ast.AsyncFunctionDef, ast.Lambda)) and not include_nested:
                continue
            if isinstance(n, ast.Call):
                out.append(n)
            stack.extend(ast.iter_child_nodes(n))
        out.sort(key=lambda c: (c.lineno, c.col_offset))
        return out

    def reachable(self, entries, concrete=None, max_depth=12, stop=None):
        """Functions reachable from the entry FunctionInfos through resolved calls."""
        seen = {}
        work = [(e, 0) for e in entries]
        edges = []
        while work:
            f, d = work.pop()
            if f.qualname in seen or d > max_depth:
                continue
            seen[f.qualname] = f
            self._consulted.add(f.module.relpath)
            if stop and stop(f):
                continue
            for c in self.calls_in(f):
                for g in self.resolve_call(f, c, concrete=concrete):
                    edges.append((f.qualname, g.qualname))
                    if g.qualname not in seen:
                        work.append((g, d + 1))
        return seen, edges

    # -- evidence ---------------------------------------------------------------
    def consulted_files(self):
        return {rel: self.modules[rel].sha256 for rel in sorted(self._consulted) if rel in self.modules}
