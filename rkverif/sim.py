"""E8 -- concrete simulation of *extracted* functions on symbolic tokens.

A thin layer over the layout interpreter (rkverif/layout.py): the same statement/expression semantics (loops, comprehensions,
list and dict operations, slices, tuple unpacking run concretely; anything else is an opaque term), but with a table of hooks
for the external functions a scenario wants to give a meaning to (substitute, is_equal, copy, ...) and a table of truth values
for the tests it wants to fix.  A rule builds a small scenario (a template stage with two grids of constraints, say), runs the
function of the repository on it and compares the *result* with what the property prescribes - independently of the statement
forms the function is written in.  It never imports or executes repository code; constructs outside the fragment raise
LayoutUnknown (reported as an analysis error by the rules, never as a silent pass).
"""
import ast

from .layout import Layout, LayoutUnknown, Sym, Obj, freeze, short, _Return


class RowMat(list):
    """A matrix known by the labels of its rows (all columns treated alike): M[rows, :] selects rows, vertcat stacks them."""


def h_vertcat(sim, recv, args, kwargs, n):
    if args and all(isinstance(a, RowMat) for a in args):
        out = RowMat()
        for a in args:
            out.extend(a)
        return out
    return NotImplemented


class Closure:
    """A lambda or nested function of the simulated code, with the environment it was created in."""
    def __init__(self, node, env, fi):
        self.node, self.env, self.fi = node, env, fi


class Sim(Layout):
    def __init__(self, prog, hooks=None, truth=None):
        self.prog, self.cname = prog, None
        self.cfg = {"nz": True, "nu": True, "localize_t0": False, "localize_T": False, "dense": True}
        self.self_obj = Obj("self")
        self.stage = Obj("stage")
        self.counter = 0
        self.depth = 0
        self.sites = {}
        self.hooks = hooks or {}
        self.truth = truth or {}
        self.log = []

    # -- entry ---------------------------------------------------------------------------
    def call(self, fi, args, kwargs=None, extra_env=None):
        """Run function fi on args (first one is `self` for methods).  extra_env binds further names (e.g. the **kwargs parameter)."""
        self.depth = 0
        env_extra = dict(extra_env or {})
        # bind *args / **kwargs parameter names
        if fi.kwarg and fi.kwarg not in env_extra:
            env_extra[fi.kwarg] = {}
        if fi.vararg and fi.vararg not in env_extra:
            env_extra[fi.vararg] = []
        self._extra = env_extra
        return self.call_function(fi, args, kwargs or {})

    def call_function(self, fi, args, kwargs):
        self.depth += 1
        if self.depth > 12:
            raise LayoutUnknown("inlining too deep at %s" % fi.qualname)
        env = dict(getattr(self, "_extra", {}) if self.depth == 1 else {})
        params = fi.params
        for p, a in zip(params, args):
            env[p] = a
        a = fi.node.args
        for p, dnode in zip(params[len(params) - len(a.defaults):], a.defaults):
            if p not in env:
                env[p] = self.ev(dnode, {})
        for k, v in kwargs.items():
            if k in params:
                env[k] = v
        for p in params:
            if p not in env:
                env[p] = Sym("param", p)
        try:
            self.block(fi.node.body, env, fi)
            r = None
        except _Return as e:
            r = e.value
        self.depth -= 1
        return r

    def _e_Lambda(self, n, env, fi):
        return Closure(n, env, fi)

    def call_closure(self, c, args, kwargs):
        a = c.node.args
        env = dict(c.env)
        names = [x.arg for x in a.posonlyargs + a.args]
        for nm, v in zip(names, args):
            env[nm] = v
        if a.vararg:
            env[a.vararg.arg] = list(args[len(names):])
        for nm, d in zip(names[len(names) - len(a.defaults):], a.defaults):
            if nm not in env or (nm in c.env and names.index(nm) >= len(args) and nm not in kwargs):
                env[nm] = self.ev(d, c.env, c.fi)
        extra = {}
        for k, v in kwargs.items():
            if k in names or k in [x.arg for x in a.kwonlyargs]:
                env[k] = v
            else:
                extra[k] = v
        if a.kwarg:
            env[a.kwarg.arg] = extra
        if isinstance(c.node, ast.Lambda):
            return self.ev(c.node.body, env, c.fi)
        self.depth += 1
        if self.depth > 12:
            raise LayoutUnknown("closure recursion too deep")
        try:
            self.block(c.node.body, env, c.fi)
            r = None
        except _Return as e:
            r = e.value
        self.depth -= 1
        return r

    def stmt(self, st, env, fi):
        if isinstance(st, ast.FunctionDef):
            env[st.name] = Closure(st, env, fi)
            return
        if isinstance(st, ast.While):
            from .layout import _Break, _Continue
            rounds = 0
            broke = False
            while self.test(st.test, env, fi):
                rounds += 1
                if rounds > 60:
                    raise LayoutUnknown("while loop does not end within 60 rounds at %s:%d" % (fi.qualname if fi else "?", st.lineno))
                try:
                    self.block(st.body, env, fi)
                except _Continue:
                    continue
                except _Break:
                    broke = True
                    break
            if not broke and st.orelse:
                self.block(st.orelse, env, fi)
            return
        # assertions are part of the behaviour a scenario observes: a failing one ends the run like the AssertionError would
        if isinstance(st, ast.Assert) and getattr(self, "check_asserts", False):
            try:
                ok = self.test(st.test, env, fi)
            except LayoutUnknown:
                return
            if not ok:
                raise LayoutUnknown("assert failed at %s:%d" % (fi.qualname if fi else "?", st.lineno))
            return
        return Layout.stmt(self, st, env, fi)

    # -- hooks ---------------------------------------------------------------------------
    def test(self, node, env, fi):
        txt = ast.unparse(node)
        if txt in self.truth:
            return self.truth[txt]
        # membership in a scenario table keyed by frozen tokens
        if isinstance(node, ast.Compare) and len(node.ops) == 1 and isinstance(node.ops[0], (ast.In, ast.NotIn)):
            b = self.ev(node.comparators[0], env, fi)
            if isinstance(b, dict):
                a = self.ev(node.left, env, fi)
                try:
                    r = freeze(a) in b or (not isinstance(a, (Sym, Obj, list, dict)) and a in b)
                except TypeError:
                    r = False
                return r if isinstance(node.ops[0], ast.In) else not r
        return Layout.test(self, node, env, fi)

    def _call_args(self, n, env, fi):
        args = []
        for a in n.args:
            if isinstance(a, ast.Starred):
                v = self.ev(a.value, env, fi)
                args.extend(v if isinstance(v, (list, tuple)) else [Sym("star", v)])
            else:
                args.append(self.ev(a, env, fi))
        kwargs = {}
        for k in n.keywords:
            if k.arg is not None:
                kwargs[k.arg] = self.ev(k.value, env, fi)
            else:
                v = self.ev(k.value, env, fi)
                if isinstance(v, dict):
                    kwargs.update(v)
        return args, kwargs

    def _e_Call(self, n, env, fi):
        f = n.func
        # closures of the simulated code (lambdas, nested functions)
        cv = env.get(f.id) if isinstance(f, ast.Name) else None
        if cv is None and not isinstance(f, (ast.Name, ast.Attribute)):
            try:
                cv = self.ev(f, env, fi)
            except LayoutUnknown:
                cv = None
        if isinstance(cv, Closure):
            args, kwargs = self._call_args(n, env, fi)
            return self.call_closure(cv, args, kwargs)
        name = f.id if isinstance(f, ast.Name) else ("." + f.attr if isinstance(f, ast.Attribute) else None)
        full = ast.unparse(f)
        hook = self.hooks.get(full) or self.hooks.get(name)
        if hook is not None:
            args = []
            for a in n.args:
                if isinstance(a, ast.Starred):
                    v = self.ev(a.value, env, fi)
                    args.extend(v if isinstance(v, (list, tuple)) else [Sym("star", v)])
                else:
                    args.append(self.ev(a, env, fi))
            kwargs = {}
            for k in n.keywords:
                if k.arg is not None:
                    kwargs[k.arg] = self.ev(k.value, env, fi)
                else:
                    v = self.ev(k.value, env, fi)
                    if isinstance(v, dict):
                        kwargs.update(v)
            recv = self.ev(f.value, env, fi) if isinstance(f, ast.Attribute) else None
            r = hook(self, recv, args, kwargs, n)
            if r is not NotImplemented:
                return r
        if not isinstance(f, (ast.Name, ast.Attribute)) and "*callable" in self.hooks:
            v = self.ev(f, env, fi)
            if isinstance(v, Sym):
                args = [self.ev(a, env, fi) for a in n.args if not isinstance(a, ast.Starred)]
                kwargs = {}
                for k in n.keywords:
                    if k.arg is not None:
                        kwargs[k.arg] = self.ev(k.value, env, fi)
                    else:
                        vv = self.ev(k.value, env, fi)
                        if isinstance(vv, dict):
                            kwargs.update(vv)
                r = self.hooks["*callable"](self, v, args, kwargs, n)
                if r is not NotImplemented:
                    return r
        # small helper classes of the repository are instantiated and their methods followed (objects of the simulated code)
        if isinstance(f, ast.Name) and f.id in self.prog.classes and f.id not in env and f.id not in self.hooks and getattr(self, "follow_classes", True):
            k = self.prog.classes[f.id]
            if not k.bases and "__init__" in k.methods and len(k.methods) <= 8:
                self.counter += 1
                obj = Obj("%s#%d" % (f.id, self.counter), {})
                obj.cls = f.id
                args, kwargs = self._call_args(n, env, fi)
                self.call_function(k.methods["__init__"], [obj] + args, kwargs)
                return obj
        if isinstance(f, ast.Attribute) and not (self.hooks.get(full) or self.hooks.get(name)):
            try:
                ro = self.ev(f.value, env, fi)
            except LayoutUnknown:
                ro = None
            if isinstance(ro, Obj) and getattr(ro, "cls", None) in self.prog.classes:
                g = self.prog.resolve(ro.cls, f.attr)
                if g is not None and self.depth < 10:
                    args, kwargs = self._call_args(n, env, fi)
                    return self.call_function(g, [ro] + args, kwargs)
        # methods of the simulated object itself are followed into the repository's code (self_class set by the scenario)
        if isinstance(f, ast.Attribute) and getattr(self, "self_class", None) and not (self.hooks.get(full) or self.hooks.get(name)):
            try:
                ro = self.ev(f.value, env, fi)
            except LayoutUnknown:
                ro = None
            if isinstance(ro, Obj) and ro.name == "self":
                g = self.prog.resolve(self.self_class, f.attr)
                if g is not None and self.depth < 10:
                    args, kwargs = self._call_args(n, env, fi)
                    return self.call_function(g, [ro] + args, kwargs)
        # Class.method(self, ...) and super().method(...) of the simulated object
        if isinstance(f, ast.Attribute) and getattr(self, "self_class", None) and not (self.hooks.get(full) or self.hooks.get(name)):
            target = None
            if isinstance(f.value, ast.Name) and f.value.id in self.prog.classes and f.value.id not in env and n.args:
                a0 = self.ev(n.args[0], env, fi) if not isinstance(n.args[0], ast.Starred) else None
                if isinstance(a0, Obj) and a0.name == "self":
                    target, skip = self.prog.resolve(f.value.id, f.attr), 1
            elif isinstance(f.value, ast.Call) and isinstance(f.value.func, ast.Name) and f.value.func.id == "super" and not f.value.args and fi.cls is not None:
                mro = [k.name for k in self.prog.mro(self.self_class)]
                own = fi.cls.name if hasattr(fi.cls, "name") else fi.cls
                if own in mro:
                    for k in mro[mro.index(own) + 1:]:
                        g = self.prog.classes[k].methods.get(f.attr)
                        if g is not None:
                            target, skip = g, 0
                            break
            if target is not None and self.depth < 10:
                sub = ast.Call(func=n.func, args=n.args[skip:], keywords=n.keywords)
                args, kwargs = self._call_args(sub, env, fi)
                me = self.ev(n.args[0], env, fi) if skip else env.get(fi.params[0])
                return self.call_function(target, [me] + args, kwargs)
        if isinstance(f, ast.Name) and f.id == "setattr" and len(n.args) == 3 and "setattr" not in env:
            o, a, v = (self.ev(x, env, fi) for x in n.args)
            if isinstance(o, Obj) and isinstance(a, str):
                o.attrs[a] = v
                return None
            raise LayoutUnknown("setattr(%s, %s, ..)" % (short(o), short(a)))
        if isinstance(f, ast.Name) and f.id == "getattr" and len(n.args) in (2, 3) and "getattr" not in env:
            vals = [self.ev(x, env, fi) for x in n.args]
            if isinstance(vals[0], Obj) and isinstance(vals[1], str):
                if vals[1] in vals[0].attrs:
                    return vals[0].attrs[vals[1]]
                return self._class_const(vals[0], vals[1], Sym("attr", vals[0].name, vals[1]) if len(vals) == 2 else vals[2])
        # a local name bound to a method of the simulated object (getter = self.get_x_at; getter(stage, k)): the method's hook, or its code
        if isinstance(f, ast.Name) and isinstance(env.get(f.id), Sym) and env[f.id].op == "attr" and len(env[f.id].args) == 2 and env[f.id].args[0] == "self":
            mname = env[f.id].args[1]
            hk = self.hooks.get("." + mname)
            if hk is not None:
                args, kwargs = self._call_args(n, env, fi)
                r = hk(self, self.self_obj_for(env, fi), args, kwargs, n)
                if r is not NotImplemented:
                    return r
            elif getattr(self, "self_class", None):
                g = self.prog.resolve(self.self_class, mname)
                me = self.self_obj_for(env, fi)
                if g is not None and me is not None and self.depth < 10:
                    args, kwargs = self._call_args(n, env, fi)
                    return self.call_function(g, [me] + args, kwargs)
        if isinstance(f, ast.Name) and f.id == "map" and len(n.args) == 2 and "map" not in env:
            fn = self.ev(n.args[0], env, fi)
            seq = self.ev(n.args[1], env, fi)
            seq = list(seq) if isinstance(seq, (list, tuple, range)) else self.iterable(seq, n)
            if isinstance(fn, Closure):
                return [self.call_closure(fn, [x], {}) for x in seq]
        # a local name bound to a symbolic callable (sampler = self._grid_control; sampler(...))
        if isinstance(f, ast.Name) and f.id in env and isinstance(env[f.id], Sym) and "*callable" in self.hooks:
            args = [self.ev(a, env, fi) for a in n.args if not isinstance(a, ast.Starred)]
            kwargs = {}
            for k in n.keywords:
                if k.arg is not None:
                    kwargs[k.arg] = self.ev(k.value, env, fi)
                else:
                    v = self.ev(k.value, env, fi)
                    if isinstance(v, dict):
                        kwargs.update(v)
            r = self.hooks["*callable"](self, env[f.id], args, kwargs, n)
            if r is not NotImplemented:
                return r
        if isinstance(f, ast.Attribute) and "*callable" in self.hooks and not (self.hooks.get(full) or self.hooks.get(name)):
            v = self.ev(f, env, fi)
            if isinstance(v, Sym) and v.op == "attr" and v.args and v.args[0] == "self":
                args = [self.ev(a, env, fi) for a in n.args if not isinstance(a, ast.Starred)]
                kwargs = {}
                for k in n.keywords:
                    if k.arg is not None:
                        kwargs[k.arg] = self.ev(k.value, env, fi)
                    else:
                        vv = self.ev(k.value, env, fi)
                        if isinstance(vv, dict):
                            kwargs.update(vv)
                r = self.hooks["*callable"](self, v, args, kwargs, n)
                if r is not NotImplemented:
                    return r
        # functional builtins: reduce / chain / islice+count / next / any / all (generators are evaluated eagerly: the simulated code is
        # free of side effects in its generator bodies, or the scenario's hooks record them in order anyway)
        fname = ast.unparse(f).split(".")[-1] if isinstance(f, (ast.Name, ast.Attribute)) else None
        if fname == "reduce" and len(n.args) in (2, 3) and "reduce" not in env:
            fn = n.args[0]
            seq = self.ev(n.args[1], env, fi)
            seq = list(seq) if isinstance(seq, (list, tuple, range)) else self.iterable(seq, n)
            opname = ast.unparse(fn).split(".")[-1] if isinstance(fn, (ast.Name, ast.Attribute)) else None
            ops = {"add": ast.Add(), "mul": ast.Mult(), "sub": ast.Sub()}
            fv = None if opname in ops else self.ev(fn, env, fi)
            if len(n.args) == 3:
                acc = self.ev(n.args[2], env, fi)
            elif seq:
                acc, seq = seq[0], seq[1:]
            else:
                raise LayoutUnknown("reduce of an empty sequence")
            for x in seq:
                if opname in ops:
                    acc = self.binop(ops[opname], acc, x)
                elif isinstance(fv, Closure):
                    acc = self.call_closure(fv, [acc, x], {})
                else:
                    raise LayoutUnknown("reduce with %s" % ast.unparse(fn))
            return acc
        if fname == "chain" and "chain" not in env and isinstance(f, (ast.Name, ast.Attribute)) and ast.unparse(f) in ("chain", "itertools.chain"):
            out = []
            for a in n.args:
                v = self.ev(a, env, fi)
                out.extend(list(v) if isinstance(v, (list, tuple, range)) else self.iterable(v, n))
            return out
        if fname == "from_iterable" and isinstance(f, ast.Attribute) and ast.unparse(f.value).split(".")[-1] == "chain" and len(n.args) == 1:
            out = []
            v = self.ev(n.args[0], env, fi)
            for x in (list(v) if isinstance(v, (list, tuple, range)) else self.iterable(v, n)):
                out.extend(list(x) if isinstance(x, (list, tuple, range)) else self.iterable(x, n))
            return out
        if fname == "count" and isinstance(f, (ast.Name, ast.Attribute)) and ast.unparse(f) in ("count", "itertools.count") and len(n.args) <= 1 and "count" not in env:
            start = self.ev(n.args[0], env, fi) if n.args else 0
            if isinstance(start, int):
                return Obj("itertools.count", {"pos": start})
        if isinstance(f, ast.Name) and f.id == "iter" and len(n.args) == 1 and "iter" not in env:
            v = self.ev(n.args[0], env, fi)
            if isinstance(v, Obj) and v.name == "iterator":
                return v
            return Obj("iterator", {"seq": list(v) if isinstance(v, (list, tuple, range)) else self.iterable(v, n), "pos": 0})
        if fname == "islice" and len(n.args) == 2:
            it = self.ev(n.args[0], env, fi)
            k = self.ev(n.args[1], env, fi)
            if isinstance(it, Obj) and it.name == "iterator" and isinstance(k, int):
                out = it.attrs["seq"][it.attrs["pos"]:it.attrs["pos"] + k]
                it.attrs["pos"] += len(out)
                return out
            if isinstance(it, Obj) and it.name == "itertools.count" and isinstance(k, int):
                out = list(range(it.attrs["pos"], it.attrs["pos"] + k))
                it.attrs["pos"] += k
                return out
            if isinstance(it, (list, tuple)) and isinstance(k, int):
                return list(it)[:k]
        if isinstance(f, ast.Name) and f.id == "next" and len(n.args) in (1, 2) and "next" not in env:
            it = self.ev(n.args[0], env, fi)
            if isinstance(it, Obj) and it.name == "itertools.count":
                it.attrs["pos"] += 1
                return it.attrs["pos"] - 1
            if isinstance(it, Obj) and it.name == "iterator":
                if it.attrs["pos"] < len(it.attrs["seq"]):
                    it.attrs["pos"] += 1
                    return it.attrs["seq"][it.attrs["pos"] - 1]
                if len(n.args) == 2:
                    return self.ev(n.args[1], env, fi)
                raise LayoutUnknown("next() of an exhausted iterator")
            if isinstance(it, (list, tuple)):
                if it:
                    return it[0]
                if len(n.args) == 2:
                    return self.ev(n.args[1], env, fi)
                raise LayoutUnknown("next() of an exhausted iterator")
        if isinstance(f, ast.Name) and f.id in ("any", "all") and len(n.args) == 1 and f.id not in env:
            v = self.ev(n.args[0], env, fi)
            if isinstance(v, (list, tuple)) and all(isinstance(x, (bool, int)) and not isinstance(x, (Sym, Obj)) for x in v):
                return any(v) if f.id == "any" else all(v)
        # builtins the layout interpreter has no use for
        if isinstance(f, ast.Name) and f.id == "sum" and len(n.args) == 1:
            v = self.ev(n.args[0], env, fi)
            if isinstance(v, list) and all(isinstance(x, (int, float)) for x in v):
                return sum(v)
        if isinstance(f, ast.Name) and f.id == "isinstance" and len(n.args) == 2 and isinstance(n.args[1], ast.Name) and n.args[1].id in ("str", "list", "int", "float", "dict", "tuple", "bool"):
            v = self.ev(n.args[0], env, fi)
            if isinstance(v, (str, list, int, float, dict, tuple, bool)) and not isinstance(v, (Sym, Obj)):
                return isinstance(v, {"str": str, "list": list, "int": int, "float": float, "dict": dict, "tuple": tuple, "bool": bool}[n.args[1].id])
            return False
        if fname == "repeat" and isinstance(f, (ast.Name, ast.Attribute)) and ast.unparse(f) in ("repeat", "itertools.repeat") and len(n.args) in (1, 2) and "repeat" not in env:
            x = self.ev(n.args[0], env, fi)
            k = self.ev(n.args[1], env, fi) if len(n.args) == 2 else 64      # an endless repeat is cut off at 64: the scenarios consume a handful
            if isinstance(k, int):
                return [x] * k
        if fname == "accumulate" and isinstance(f, (ast.Name, ast.Attribute)) and ast.unparse(f) in ("accumulate", "itertools.accumulate") and len(n.args) in (1, 2) and "accumulate" not in env:
            v = self.ev(n.args[0], env, fi)
            v = list(v) if isinstance(v, (list, tuple, range)) else self.iterable(v, n)
            fn = n.args[1] if len(n.args) == 2 else next((k.value for k in n.keywords if k.arg == "func"), None)
            opname = ast.unparse(fn).split(".")[-1] if isinstance(fn, (ast.Name, ast.Attribute)) else None
            ops = {"add": ast.Add(), "mul": ast.Mult(), "sub": ast.Sub(), None: ast.Add()}
            fv = None if (fn is None or opname in ops) else self.ev(fn, env, fi)
            init = [k.value for k in n.keywords if k.arg == "initial"]
            out, acc, started = [], None, False
            if init:
                iv = self.ev(init[0], env, fi)
                if iv is not None:
                    acc, started = iv, True
                    out.append(acc)
            for x in v:
                if not started:
                    acc, started = x, True
                elif fn is None or opname in ops:
                    acc = self.binop(ops[opname if fn is not None else None], acc, x)
                elif isinstance(fv, Closure):
                    acc = self.call_closure(fv, [acc, x], {})
                else:
                    raise LayoutUnknown("accumulate with %s" % ast.unparse(fn))
                out.append(acc)
            return out
        if isinstance(f, ast.Name) and f.id == "reversed" and len(n.args) == 1:
            v = self.ev(n.args[0], env, fi)
            if isinstance(v, (list, tuple, range)):
                return list(reversed(list(v)))
            if isinstance(v, dict):
                return list(reversed(list(v.keys())))
        if isinstance(f, ast.Name) and f.id in ("tuple",) and len(n.args) == 1:
            v = self.ev(n.args[0], env, fi)
            if isinstance(v, (list, tuple)):
                return tuple(v)
        if isinstance(f, ast.Name) and f.id == "list" and len(n.args) == 1:
            v = self.ev(n.args[0], env, fi)
            if isinstance(v, dict):
                return list(v.keys())
            if isinstance(v, (list, tuple, range)):
                return list(v)      # (no second evaluation of the argument: it may advance an iterator)
            return self.iterable(v, n)
        if isinstance(f, ast.Attribute) and f.attr in ("pop", "get", "setdefault"):
            o = self.ev(f.value, env, fi)
            if isinstance(o, dict):
                args = [self.ev(a, env, fi) for a in n.args]
                key = freeze(args[0]) if args else None
                if f.attr == "pop":
                    return o.pop(key, args[1] if len(args) > 1 else None)
                if f.attr == "get":
                    return o.get(key, args[1] if len(args) > 1 else None)
                return o.setdefault(key, args[1] if len(args) > 1 else None)
        if isinstance(f, ast.Attribute) and f.attr == "extend":
            o = self.ev(f.value, env, fi)
            if isinstance(o, list) and len(n.args) == 1:
                v = self.ev(n.args[0], env, fi)
                o.extend(list(v) if isinstance(v, (list, tuple, range)) else (list(v.keys()) if isinstance(v, dict) else self.iterable(v, n)))
                return None
        return Layout._e_Call(self, n, env, fi)

    def iterable(self, v, st):
        if isinstance(v, Obj) and v.name == "iterator":
            out = v.attrs["seq"][v.attrs["pos"]:]
            v.attrs["pos"] = len(v.attrs["seq"])
            return out
        return Layout.iterable(self, v, st)

    def _e_DictComp(self, n, env, fi):
        pairs = self._e_ListComp(ast.ListComp(elt=ast.Tuple(elts=[n.key, n.value], ctx=ast.Load()), generators=n.generators), env, fi)
        return {freeze(k): v for k, v in pairs}

    def self_obj_for(self, env, fi):
        """the object bound to the first parameter of the method being simulated (closures see it through their defining scope)"""
        for nm in ([fi.params[0]] if fi is not None and getattr(fi, "params", None) else []) + ["self"]:
            v = env.get(nm)
            if isinstance(v, Obj):
                return v
        return None

    def _e_GeneratorExp(self, n, env, fi):
        return self._e_ListComp(n, env, fi)

    def _e_Dict(self, n, env, fi):
        out = {}
        for k, v in zip(n.keys, n.values):
            if k is None:
                raise LayoutUnknown("dict unpacking in a literal")
            out[freeze(self.ev(k, env, fi))] = self.ev(v, env, fi)
        return out

    def _e_Attribute(self, n, env, fi):
        o = self.ev(n.value, env, fi)
        ah = getattr(self, "attr_hooks", None)
        if ah and n.attr in ah:
            r = ah[n.attr](o)
            if r is not NotImplemented:
                return r
        if isinstance(o, Obj):
            if n.attr in o.attrs:
                return o.attrs[n.attr]
            return self._class_const(o, n.attr, Sym("attr", o.name, n.attr))
        if isinstance(o, Sym) and o.op == "global":
            return Sym("global", o.args[0] + "." + n.attr)
        if isinstance(o, tuple) and n.attr == "shape":
            return o
        return Sym("attr", freeze(o), n.attr)

    def _class_const(self, o, attr, default):
        """a literal constant bound in the class body (MRO of the simulated object's class)"""
        if o.name == "self" and getattr(self, "self_class", None):
            for k in self.prog.mro(self.self_class):
                for st in k.node.body:
                    if isinstance(st, ast.Assign) and any(isinstance(t, ast.Name) and t.id == attr for t in st.targets):
                        v = self._const_expr(st.value, k)
                        return default if v is NotImplemented else v
        return default

    def _const_expr(self, node, cls, depth=0):
        """value of a class-level constant expression: literals, tuples / lists of them, `+` of such, names of other class-level constants"""
        if depth > 6:
            return NotImplemented
        try:
            return ast.literal_eval(node)
        except (ValueError, SyntaxError):
            pass
        if isinstance(node, (ast.Tuple, ast.List)):
            vals = [self._const_expr(e, cls, depth + 1) for e in node.elts]
            if any(v is NotImplemented for v in vals):
                return NotImplemented
            return tuple(vals) if isinstance(node, ast.Tuple) else vals
        if isinstance(node, ast.BinOp) and isinstance(node.op, ast.Add):
            a, b = self._const_expr(node.left, cls, depth + 1), self._const_expr(node.right, cls, depth + 1)
            if a is NotImplemented or b is NotImplemented or type(a) is not type(b):
                return NotImplemented
            return a + b
        if isinstance(node, ast.Name):
            for k in self.prog.mro(cls.name):
                for st in k.node.body:
                    if isinstance(st, ast.Assign) and any(isinstance(t, ast.Name) and t.id == node.id for t in st.targets):
                        return self._const_expr(st.value, k, depth + 1)
        return NotImplemented

    def _e_Subscript(self, n, env, fi):
        o = self.ev(n.value, env, fi)
        import collections
        if isinstance(o, collections.defaultdict) and isinstance(n.ctx, ast.Load) and not isinstance(n.slice, ast.Slice):
            return o[freeze(self.ev(n.slice, env, fi))]        # a missing key creates its default, as in Python
        if isinstance(o, RowMat):
            sl = n.slice
            rows = sl
            if isinstance(sl, ast.Tuple) and len(sl.elts) == 2:
                rows, cols = sl.elts
                if not (isinstance(cols, ast.Slice) and cols.lower is None and cols.upper is None and cols.step is None):
                    raise LayoutUnknown("column selection on a row-labelled matrix: %s" % ast.unparse(n))
            if isinstance(rows, ast.Slice):
                lo = self.ev(rows.lower, env, fi) if rows.lower is not None else None
                hi = self.ev(rows.upper, env, fi) if rows.upper is not None else None
                if all(x is None or isinstance(x, int) for x in (lo, hi)) and rows.step is None:
                    return RowMat(list(o)[lo:hi])
                raise LayoutUnknown("row slice %s" % ast.unparse(n))
            idx = self.ev(rows, env, fi)
            if isinstance(idx, (list, tuple, range)) and all(isinstance(i, int) for i in idx):
                return RowMat([o[i] if -len(o) <= i < len(o) else "<row %d does not exist>" % i for i in idx])
            if isinstance(idx, int):
                return RowMat([o[idx] if -len(o) <= idx < len(o) else "<row %d does not exist>" % idx])
            raise LayoutUnknown("row selection %s" % ast.unparse(n))
        if isinstance(o, (list, tuple)) and isinstance(n.slice, ast.Slice):
            lo = self.ev(n.slice.lower, env, fi) if n.slice.lower is not None else None
            hi = self.ev(n.slice.upper, env, fi) if n.slice.upper is not None else None
            if all(x is None or isinstance(x, int) for x in (lo, hi)):
                return o[lo:hi]
        if isinstance(o, tuple) and not isinstance(n.slice, (ast.Slice, ast.Tuple)):
            idx = self.ev(n.slice, env, fi)
            if isinstance(idx, int) and -len(o) <= idx < len(o):
                return o[idx]
        return Layout._e_Subscript(self, n, env, fi)


def fresh_obj(name, **attrs):
    return Obj(name, dict(attrs))
