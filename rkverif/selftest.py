"""E7 -- the checker tested both ways, on the *current* /repo tree.

Variants are committed patches: `seeded/<id>/patch.diff` (a change that breaks a property while the
baseline tests still pass: the named rule must fire) and `refactors/<id>/patch.diff`
(behaviour-preserving edits: every rule must stay silent).  Each variant is applied to a scratch
copy of /repo/rockit in a temporary directory outside /repo and /verif, the property's rules are
run on it with the same code as the real check, and the scratch copy is removed at once.

Outcomes are written into the evidence file of the property; they never print VIOLATION and never
change the exit code of the check (a variant that no longer applies to an edited tree is `skipped`).
"""
import json
import os
import random
import shutil
import subprocess
import tempfile
import time

from .model import repo_root

VERIF = os.path.dirname(os.path.dirname(os.path.abspath(__file__)))


def variants():
    out = []
    for kind, d in (("mutant", "seeded"), ("refactor", "refactors")):
        base = os.path.join(VERIF, d)
        if not os.path.isdir(base):
            continue
        for vid in sorted(os.listdir(base)):
            p = os.path.join(base, vid, "patch.diff")
            m = os.path.join(base, vid, "meta.json")
            if os.path.exists(p) and os.path.exists(m):
                try:
                    meta = json.load(open(m))
                except Exception:
                    meta = {}
                out.append({"id": vid, "kind": kind, "patch": p, "meta": meta})
    return out


def apply_variant(v):
    """Scratch copy of the current tree with the variant applied, or None when it does not apply."""
    tmp = tempfile.mkdtemp(prefix="rkverif_selftest_")
    try:
        shutil.copytree(os.path.join(repo_root(), "rockit"), os.path.join(tmp, "rockit"),
                        ignore=shutil.ignore_patterns("__pycache__", "*.pyc"))
        r = subprocess.run(["patch", "-p1", "-s", "-f", "--no-backup-if-mismatch", "-d", tmp, "-i", v["patch"]],
                           capture_output=True, text=True)
        if r.returncode != 0:
            shutil.rmtree(tmp, ignore_errors=True)
            return None
        return tmp
    except Exception:
        shutil.rmtree(tmp, ignore_errors=True)
        return None


def _one(args):
    """(exit code or None when the variant does not apply, rules that fired) for one variant; runs in a worker process."""
    pid, seed, v = args
    from .core import run_property
    tmp = apply_variant(v)
    if tmp is None:
        return None, []
    try:
        code, ctx, new, known = run_property(pid, "quick", seed, root=tmp, write=False, quiet=True)
        rules = sorted({f.rule for f in new})
    except Exception:
        code, rules = 2, []
    finally:
        shutil.rmtree(tmp, ignore_errors=True)
    return code, rules


def run_for(pid, tier, seed):
    from .core import run_property
    t0 = time.time()
    vs = variants()
    mine = []
    for v in vs:
        if v["kind"] == "mutant":
            det = v["meta"].get("detected_by", {})
            if pid in det or v["meta"].get("property") == pid:
                mine.append(v)
        else:
            mine.append(v)
    if tier != "thorough":
        rnd = random.Random(seed)
        muts = [v for v in mine if v["kind"] == "mutant"]
        refs = [v for v in mine if v["kind"] == "refactor"]
        rnd.shuffle(muts)
        rnd.shuffle(refs)
        mine = muts[:2] + refs[:2]
    res = {"mutants_fired": [], "mutants_missed": [], "refactors_silent": [], "refactors_alarmed": [], "skipped": []}
    jobs = 1
    if tier == "thorough":
        try:
            jobs = max(1, int(os.environ.get("VERIF_JOBS", "12")))
        except ValueError:
            jobs = 12
    work = [(pid, seed, v) for v in mine]
    if jobs > 1 and len(work) > 1:
        import multiprocessing
        with multiprocessing.get_context("fork").Pool(min(jobs, len(work))) as pool:
            outs = pool.map(_one, work, chunksize=1)
    else:
        outs = [_one(w) for w in work]
    for v, (code, rules) in zip(mine, outs):
        if code is None:
            res["skipped"].append(v["id"])
            continue
        if v["kind"] == "mutant":
            expected = pid in v["meta"].get("detected_by", {})
            if code == 1:
                res["mutants_fired"].append({"id": v["id"], "rules": rules})
            elif expected:
                res["mutants_missed"].append({"id": v["id"], "exit": code})
            else:
                res.setdefault("mutants_not_in_scope", []).append(v["id"])
        else:
            if code == 0:
                res["refactors_silent"].append(v["id"])
            else:
                res["refactors_alarmed"].append({"id": v["id"], "exit": code, "rules": rules})
    res["wall_s"] = round(time.time() - t0, 2)
    res["variants_run"] = len(mine)
    # merge into the evidence file
    path = os.path.join(VERIF, "evidence", "%s.json" % pid)
    try:
        ev = json.load(open(path))
        ev["coverage"]["selftest"] = res
        ev["wall_s"] = round(ev.get("wall_s", 0) + res["wall_s"], 3)
        tmpf = path + ".tmp"
        json.dump(ev, open(tmpf, "w"), indent=1, default=str)
        os.replace(tmpf, path)
    except Exception:
        pass
    print("%s self-test (%s): %d variants: %d mutants fired, %d missed, %d refactors silent, %d alarmed, %d skipped, %.1fs" % (
        pid, tier, len(mine), len(res["mutants_fired"]), len(res["mutants_missed"]), len(res["refactors_silent"]), len(res["refactors_alarmed"]), len(res["skipped"]), res["wall_s"]))
    return res
