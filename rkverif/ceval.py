"""Concrete instantiation of *extracted* integer predicates and index maps.

A tiny evaluator for the closed expression language that index arithmetic and guards are written in
(integer constants, names, + - * // %, comparisons, and/or/not, conditional expressions, len() of a
list whose length is given).  It evaluates syntax trees under an environment of integers; it never
executes repository code.  Anything outside the fragment raises Unknown.
"""
import ast


class Unknown(Exception):
    pass


def ceval(node, env, scope=None, depth=0):
    """env maps ast.unparse text of sub-expressions (e.g. 'k', 'self.N', "args['include_first']") to values."""
    if depth > 20:
        raise Unknown("depth")
    t = ast.unparse(node)
    if t in env:
        return env[t]
    if isinstance(node, ast.Constant):
        if isinstance(node.value, (int, bool, float, str)) or node.value is None:
            return node.value
        raise Unknown(t)
    if isinstance(node, ast.Name):
        if scope is not None:
            v = scope.reaching(node.id, node)
            if v is not None:
                return ceval(v, env, scope, depth + 1)
        raise Unknown(t)
    if isinstance(node, ast.UnaryOp):
        v = ceval(node.operand, env, scope, depth + 1)
        if isinstance(node.op, ast.USub):
            return -v
        if isinstance(node.op, ast.UAdd):
            return +v
        if isinstance(node.op, ast.Not):
            return not v
        raise Unknown(t)
    if isinstance(node, ast.BinOp):
        a = ceval(node.left, env, scope, depth + 1)
        b = ceval(node.right, env, scope, depth + 1)
        try:
            if isinstance(node.op, ast.Add): return a + b
            if isinstance(node.op, ast.Sub): return a - b
            if isinstance(node.op, ast.Mult): return a * b
            if isinstance(node.op, ast.FloorDiv): return a // b
            if isinstance(node.op, ast.Mod): return a % b
        except Exception:
            raise Unknown(t)
        raise Unknown(t)
    if isinstance(node, ast.BoolOp):
        if isinstance(node.op, ast.And):
            r = True
            for v in node.values:
                r = ceval(v, env, scope, depth + 1)
                if not r:
                    return r
            return r
        r = False
        for v in node.values:
            r = ceval(v, env, scope, depth + 1)
            if r:
                return r
        return r
    if isinstance(node, ast.Compare):
        left = ceval(node.left, env, scope, depth + 1)
        for op, c in zip(node.ops, node.comparators):
            right = ceval(c, env, scope, depth + 1)
            try:
                if isinstance(op, ast.Eq): ok = left == right
                elif isinstance(op, ast.NotEq): ok = left != right
                elif isinstance(op, ast.Lt): ok = left < right
                elif isinstance(op, ast.LtE): ok = left <= right
                elif isinstance(op, ast.Gt): ok = left > right
                elif isinstance(op, ast.GtE): ok = left >= right
                elif isinstance(op, ast.Is): ok = left is right
                elif isinstance(op, ast.IsNot): ok = left is not right
                elif isinstance(op, ast.In): ok = left in right
                elif isinstance(op, ast.NotIn): ok = left not in right
                else: raise Unknown(t)
            except TypeError:
                raise Unknown(t)
            if not ok:
                return False
            left = right
        return True
    if isinstance(node, (ast.Tuple, ast.List)):
        return tuple(ceval(e, env, scope, depth + 1) for e in node.elts)
    if isinstance(node, ast.IfExp):
        return ceval(node.body if ceval(node.test, env, scope, depth + 1) else node.orelse, env, scope, depth + 1)
    if isinstance(node, ast.Call) and isinstance(node.func, ast.Name) and node.func.id in ("int", "bool") and len(node.args) == 1:
        v = ceval(node.args[0], env, scope, depth + 1)
        return int(v) if node.func.id == "int" else bool(v)
    raise Unknown(t)


def select_return(fnode, env, scope=None):
    """The `return` statement reached in a function whose control flow consists of if/elif/else on
    integer predicates (evaluated with ceval under env).  Raises Unknown outside that fragment."""
    def block(stmts):
        for st in stmts:
            if isinstance(st, ast.Return):
                return st
            if isinstance(st, ast.If):
                r = block(st.body if ceval(st.test, env, scope) else st.orelse)
                if r is not None:
                    return r
            elif isinstance(st, (ast.Assign, ast.AugAssign, ast.Expr, ast.Pass, ast.Assert)):
                continue
            elif isinstance(st, ast.Raise):
                raise Unknown("raise reached")
            else:
                raise Unknown("statement %s" % type(st).__name__)
        return None
    return block(fnode.body)


def specialise(node, env, scope=None, depth=0):
    """The sub-expression `node` denotes under env: local names are replaced by their reaching definition and
    conditional expressions by the branch their (integer) test selects.  Stops at the first node that is neither."""
    while depth < 20:
        depth += 1
        if isinstance(node, ast.IfExp):
            node = node.body if ceval(node.test, env, scope) else node.orelse
            continue
        if isinstance(node, ast.Name) and scope is not None and ast.unparse(node) not in env:
            v = scope.reaching(node.id, node)
            if v is not None:
                node = v
                continue
        return node
    raise Unknown("depth")


def instance_text(node, env, scope=None, lens=None, depth=0):
    """Text of the expression `node` denotes under env, with everything the fragment can decide decided: local names are
    replaced by their reaching definition, conditional expressions by the selected branch, integer sub-expressions by their
    value, and a negative constant index into a list of known length (lens: text -> length) by the equivalent non-negative one.
    Two spellings of the same element (U[-1] / U[k-1] at k == len(U); get(stage, k_interval) / get(stage, k-1)) get the same text."""
    lens = lens or {}
    if depth > 25:
        raise Unknown("depth")
    try:
        v = ceval(node, env, scope)
        if isinstance(v, (int, bool)) and not isinstance(node, ast.Constant):
            return repr(int(v)) if not isinstance(v, bool) else repr(v)
    except Unknown:
        pass
    rec = lambda x: instance_text(x, env, scope, lens, depth + 1)
    if isinstance(node, ast.IfExp):
        try:
            return rec(node.body if ceval(node.test, env, scope) else node.orelse)
        except Unknown:
            return "(%s if %s else %s)" % (rec(node.body), rec(node.test), rec(node.orelse))
    if isinstance(node, ast.Name):
        if scope is not None and node.id not in env:
            v = scope.reaching(node.id, node)
            if v is not None:
                return rec(v)
        return node.id
    if isinstance(node, ast.Subscript):
        base = rec(node.value)
        idx = rec(node.slice)
        if base in lens:
            try:
                i = int(idx)
                if i < 0:
                    idx = repr(i + lens[base])
            except ValueError:
                pass
        return "%s[%s]" % (base, idx)
    if isinstance(node, ast.Attribute):
        return "%s.%s" % (rec(node.value), node.attr)
    if isinstance(node, ast.Call):
        parts = [rec(a) for a in node.args] + ["%s=%s" % (k.arg, rec(k.value)) for k in node.keywords]
        return "%s(%s)" % (rec(node.func), ",".join(parts))
    if isinstance(node, ast.Starred):
        return "*" + rec(node.value)
    return ast.unparse(node).replace(" ", "")


def run_path(body, env, scope=None, skip_raising_guards=False):
    """Deterministic walk through a statement list under env (every if-test must be decidable with ceval, else Unknown):
    returns (executed simple statements in order, exit statement or None).  try-blocks are followed on their no-exception path
    (the handlers are returned separately by handlers_on_path), loops are recorded as one opaque statement."""
    done = []

    class _Exit(Exception):
        def __init__(self, st):
            self.st = st

    def block(stmts):
        for st in stmts:
            if isinstance(st, ast.If):
                try:
                    t = ceval(st.test, env, scope)
                except Unknown:
                    # a guard that only rejects (if <undecidable>: raise) is passed on the normal path
                    if skip_raising_guards and not st.orelse and st.body and isinstance(st.body[-1], ast.Raise) and all(isinstance(x, (ast.Assign, ast.AugAssign, ast.Expr, ast.Raise)) for x in st.body):
                        continue
                    raise
                block(st.body if t else st.orelse)
            elif isinstance(st, (ast.Return, ast.Raise)):
                raise _Exit(st)
            elif isinstance(st, ast.Try):
                block(st.body)
                block(st.orelse)
                block(st.finalbody)
            elif isinstance(st, ast.With):
                done.append(st)
                block(st.body)
            else:
                done.append(st)
    try:
        block(body)
    except _Exit as e:
        return done, e.st
    return done, None


def calls_on_path(fnode, env, scope=None):
    """[(call node, inside a loop?)] of the calls executed, in order, on the path of fnode selected by env (see run_path;
    guards that only reject are passed)."""
    done, ex = run_path(fnode.body, env, scope, skip_raising_guards=True)
    out = []
    for st in done:
        loop = isinstance(st, (ast.For, ast.While))
        for c in ast.walk(st):
            if isinstance(c, ast.Call):
                out.append((c, loop))
    if ex is not None and isinstance(ex, ast.Return) and ex.value is not None:
        for c in ast.walk(ex.value):
            if isinstance(c, ast.Call):
                out.append((c, False))
    return out
