"""E1 -- syntax-directed path engine over structured Python code.

A `Walker` pushes an abstract state through the statements of a function body,
forking at branches (three-valued guard evaluation under assumptions), joining at
merges, treating loops as "zero or more iterations" (or "one or more" when the
iterable is known non-empty), modelling try/except (a handler may be entered from
any point of the try body) and collecting the states at every normal exit
(fall-through and `return`).  Paths that end in `raise` are dropped: a rule about
"every non-raising path" quantifies over exactly the collected exits.
"""
import ast


class Exit:
    def __init__(self, kind, node, state):
        self.kind, self.node, self.state = kind, node, state


class Walker:
    """Subclass and override transfer/join/guard/nonempty as needed.

    transfer(node, state) is called for every *simple* statement and for the header
    expressions of compound statements (if/while tests, for iterables, with items)."""

    def __init__(self):
        self.exits = []

    # -- to override -----------------------------------------------------------
    def transfer(self, node, state):
        return state

    def join(self, a, b):
        return a and b

    def guard(self, test, state):
        """True / False / None (unknown)."""
        return None

    def nonempty(self, iter_node, state):
        return False

    # -- machinery ---------------------------------------------------------------
    def _join_all(self, states):
        states = [s for s in states if s is not _DEAD]
        if not states:
            return _DEAD
        r = states[0]
        for s in states[1:]:
            r = self.join(r, s)
        return r

    def run(self, body, state):
        self.exits = []
        out, brk, cont = self._block(body, state)
        if out is not _DEAD:
            self.exits.append(Exit("fallthrough", None, out))
        return self.exits

    def _block(self, body, state):
        brk, cont = [], []
        for st in body:
            if state is _DEAD:
                break
            state, b, c = self._stmt(st, state)
            brk += b
            cont += c
        return state, brk, cont

    def _stmt(self, st, state):
        if isinstance(st, ast.If):
            state = self.transfer(st.test, state)
            g = self.guard(st.test, state)
            outs, brk, cont = [], [], []
            if g is not False:
                o, b, c = self._block(st.body, self.assume(st.test, True, state))
                outs.append(o); brk += b; cont += c
            if g is not True:
                o, b, c = self._block(st.orelse, self.assume(st.test, False, state))
                outs.append(o); brk += b; cont += c
            return self._join_all(outs), brk, cont
        if isinstance(st, (ast.For, ast.AsyncFor)):
            state = self.transfer(st.iter, state)
            body_in = self.enter_loop(st, state)
            o, b, c = self._block(st.body, body_in)
            after_body = self._join_all([o] + c)
            outs = [after_body] + b
            if not self.nonempty(st.iter, state):
                outs.append(state)
            after = self._join_all(outs)
            if st.orelse and after is not _DEAD:
                after, b2, c2 = self._block(st.orelse, after)
                return after, b2, c2
            return after, [], []
        if isinstance(st, ast.While):
            state = self.transfer(st.test, state)
            g = self.guard(st.test, state)
            o, b, c = self._block(st.body, state)
            after_body = self._join_all([o] + c)
            outs = list(b)
            if g is True:
                # `while True`: leaves only through break (or return/raise)
                pass
            else:
                outs += [after_body, state]
            return self._join_all(outs), [], []
        if isinstance(st, ast.Try):
            entry = state
            points = [entry]
            cur = entry
            brk, cont = [], []
            for s in st.body:
                if cur is _DEAD:
                    break
                cur, b, c = self._stmt(s, cur)
                brk += b; cont += c
                if cur is not _DEAD:
                    points.append(cur)
            outs = []
            if cur is not _DEAD and st.orelse:
                cur, b, c = self._block(st.orelse, cur)
                brk += b; cont += c
            outs.append(cur)
            hentry = self._join_all(points)
            for h in st.handlers:
                hs = self.enter_handler(h, hentry)
                o, b, c = self._block(h.body, hs)
                outs.append(o); brk += b; cont += c
            after = self._join_all(outs)
            if st.finalbody and after is not _DEAD:
                after, b, c = self._block(st.finalbody, after)
                brk += b; cont += c
            return after, brk, cont
        if isinstance(st, (ast.With, ast.AsyncWith)):
            for it in st.items:
                state = self.transfer(it.context_expr, state)
            return self._block(st.body, state)
        if isinstance(st, ast.Return):
            state = self.transfer(st, state)
            self.exits.append(Exit("return", st, state))
            return _DEAD, [], []
        if isinstance(st, ast.Raise):
            self.transfer(st, state)
            return _DEAD, [], []
        if isinstance(st, ast.Break):
            return _DEAD, [state], []
        if isinstance(st, ast.Continue):
            return _DEAD, [], [state]
        if isinstance(st, (ast.FunctionDef, ast.AsyncFunctionDef, ast.ClassDef)):
            return self.transfer(st, state), [], []
        if isinstance(st, ast.Match):
            outs, brk, cont = [], [], []
            state = self.transfer(st.subject, state)
            for case in st.cases:
                o, b, c = self._block(case.body, state)
                outs.append(o); brk += b; cont += c
            outs.append(state)
            return self._join_all(outs), brk, cont
        return self.transfer(st, state), [], []

    def assume(self, test, value, state):
        return state

    def enter_loop(self, st, state):
        return state

    def enter_handler(self, h, state):
        return state


class _Dead:
    def __repr__(self):
        return "DEAD"


_DEAD = _Dead()


def const_guard(test, env, norm=None):
    """Three-valued evaluation of a test under `env`: {canonical text: python value}.

    Understands not/and/or, ==, !=, <, <=, >, >=, `is None`, `is not None`, truthiness of names."""
    def val(n):
        t = ast.unparse(n)
        if t in env:
            return True, env[t]
        if isinstance(n, ast.Constant):
            return True, n.value
        if isinstance(n, ast.UnaryOp) and isinstance(n.op, ast.USub):
            ok, v = val(n.operand)
            if ok and isinstance(v, (int, float)):
                return True, -v
        return False, None

    def ev(n):
        t = ast.unparse(n)
        if t in env and isinstance(env[t], bool):
            return env[t]
        if isinstance(n, ast.BoolOp):
            vals = [ev(v) for v in n.values]
            if isinstance(n.op, ast.And):
                if any(v is False for v in vals):
                    return False
                return True if all(v is True for v in vals) else None
            if any(v is True for v in vals):
                return True
            return False if all(v is False for v in vals) else None
        if isinstance(n, ast.UnaryOp) and isinstance(n.op, ast.Not):
            v = ev(n.operand)
            return None if v is None else (not v)
        if isinstance(n, ast.Compare) and len(n.ops) == 1:
            ok1, a = val(n.left)
            ok2, b = val(n.comparators[0])
            if ok1 and ok2:
                op = n.ops[0]
                try:
                    if isinstance(op, ast.Eq): return a == b
                    if isinstance(op, ast.NotEq): return a != b
                    if isinstance(op, ast.Lt): return a < b
                    if isinstance(op, ast.LtE): return a <= b
                    if isinstance(op, ast.Gt): return a > b
                    if isinstance(op, ast.GtE): return a >= b
                    if isinstance(op, ast.Is): return a is b
                    if isinstance(op, ast.IsNot): return a is not b
                except TypeError:
                    return None
            return None
        ok, v = val(n)
        if ok:
            return bool(v)
        return None

    return ev(test)


class MustWalker(Walker):
    """All-paths 'has an event satisfying pred happened?' analysis.

    pred(node) is evaluated on every sub-node of each simple statement / header expression.
    inline(call) may return a list of statements (a resolved callee body) to be walked in place."""

    def __init__(self, pred, env=None, nonempty_pred=None, inline=None, depth=3, guard_fn=None):
        super().__init__()
        self.pred, self.env, self.nonempty_pred, self.inline, self.depth = pred, env or {}, nonempty_pred, inline, depth
        self.guard_fn = guard_fn
        self._d = 0

    def join(self, a, b):
        return a and b

    def guard(self, test, state):
        if self.guard_fn is not None:
            return self.guard_fn(test)
        return const_guard(test, self.env)

    def nonempty(self, it, state):
        return bool(self.nonempty_pred and self.nonempty_pred(it))

    def transfer(self, node, state):
        if state:
            return state
        if isinstance(node, (ast.FunctionDef, ast.AsyncFunctionDef, ast.ClassDef)):
            return state
        for sub in walk_no_nested(node):
            if self.pred(sub):
                return True
            if self.inline and isinstance(sub, ast.Call) and self._d < self.depth:
                body = self.inline(sub)
                if body is not None:
                    self._d += 1
                    w = MustWalker(self.pred, self.env if not isinstance(body, tuple) else body[1], self.nonempty_pred, self.inline, self.depth, self.guard_fn)
                    w._d = self._d
                    exits = w.run(body if not isinstance(body, tuple) else body[0], False)
                    self._d -= 1
                    if exits and all(e.state for e in exits):
                        return True
        return state


def walk_no_nested(node):
    """ast.walk that does not descend into nested function/class/lambda bodies."""
    stack = [node]
    while stack:
        n = stack.pop()
        yield n
        for c in reversed(list(ast.iter_child_nodes(n))):
            if isinstance(c, (ast.FunctionDef, ast.AsyncFunctionDef, ast.ClassDef, ast.Lambda)):
                continue
            stack.append(c)


def must_on_all_paths(body, pred, env=None, nonempty_pred=None, inline=None, guard_fn=None):
    """(ok, offending_exits): does every non-raising path through body meet an event satisfying pred?"""
    w = MustWalker(pred, env, nonempty_pred, inline, guard_fn=guard_fn)
    exits = w.run(body, False)
    bad = [e for e in exits if not e.state]
    return (not bad), bad


def describe_exit(e):
    if e.kind == "return":
        return "return at line %d" % e.node.lineno
    return "fall-through at end of body"


class PairWalker(Walker):
    """Path-sensitive over two facts: has a `write` happened, has an `event` happened.

    The abstract state is the set of reachable (wrote, event) pairs; an exit containing
    (True, False) is a non-raising path that wrote without the event."""

    def __init__(self, write_pred, event_pred, env=None, inline=None, depth=3):
        super().__init__()
        self.wp, self.ep, self.env, self.inline, self.depth = write_pred, event_pred, env or {}, inline, depth
        self._d = 0

    def join(self, a, b):
        return a | b

    def guard(self, test, state):
        return const_guard(test, self.env)

    def nonempty(self, iter_node, state):
        # the stage tree including its root is never empty: `for s in <stage>.iter_stages(include_self=True)`
        return isinstance(iter_node, ast.Call) and isinstance(iter_node.func, ast.Attribute) and iter_node.func.attr == "iter_stages" \
            and any(k.arg == "include_self" and isinstance(k.value, ast.Constant) and k.value.value is True for k in iter_node.keywords)

    def transfer(self, node, state):
        if isinstance(node, (ast.FunctionDef, ast.AsyncFunctionDef, ast.ClassDef)):
            return state
        subs = sorted(walk_no_nested(node), key=lambda x: (getattr(x, "end_lineno", 0), getattr(x, "end_col_offset", 0)))
        for sub in subs:
            if self.wp(sub):
                state = frozenset((True, e) for _, e in state)
            if self.ep(sub):
                state = frozenset((w, True) for w, _ in state)
            if self.inline and isinstance(sub, ast.Call) and self._d < self.depth:
                body = self.inline(sub)
                if body is not None:
                    w = PairWalker(self.wp, self.ep, self.env, self.inline, self.depth)
                    w._d = self._d + 1
                    exits = w.run(body, state)
                    if exits:
                        st = frozenset()
                        for e in exits:
                            st = st | e.state
                        state = st
        return state


def write_implies_event(body, write_pred, event_pred, env=None, inline=None):
    w = PairWalker(write_pred, event_pred, env, inline)
    exits = w.run(body, frozenset({(False, False)}))
    bad = [e for e in exits if (True, False) in e.state]
    return (not bad), bad


def sign_given_N(p, nkey="N"):
    """Sign of an affine polynomial a*N + b under N >= 1: +1, -1, 0 (identically zero) or None (unknown)."""
    if p.is_zero():
        return 0
    if p.is_const():
        c = p.const_value()
        return 1 if c > 0 else -1
    lin = p.linear_in([nkey])
    if lin is None:
        return None
    coefs, rest = lin
    if not rest.is_const() or nkey not in coefs or not coefs[nkey].is_const():
        return None
    a, b = coefs[nkey].const_value(), rest.const_value()
    # value at N=1 is a+b, slope a
    if a >= 0 and a + b > 0:
        return 1
    if a <= 0 and a + b < 0:
        return -1
    return None


def poly_guard(test, norm, truth=None, nkey="N"):
    """Three-valued evaluation of a test whose comparisons are between affine forms in N (N >= 1).

    norm  : Norm whose bindings give the symbolic values (e.g. k := N-1)
    truth : {canonical key: bool} for opaque boolean atoms (e.g. 'self.localize_T')"""
    truth = truth or {}

    def ev(n):
        k = norm.key(n)
        if k in truth:
            return truth[k]
        if isinstance(n, ast.BoolOp):
            vals = [ev(v) for v in n.values]
            if isinstance(n.op, ast.And):
                if any(v is False for v in vals):
                    return False
                return True if all(v is True for v in vals) else None
            if any(v is True for v in vals):
                return True
            return False if all(v is False for v in vals) else None
        if isinstance(n, ast.UnaryOp) and isinstance(n.op, ast.Not):
            v = ev(n.operand)
            return None if v is None else (not v)
        if isinstance(n, ast.Compare) and len(n.ops) == 1:
            d = norm.poly(n.left) - norm.poly(n.comparators[0])
            s = sign_given_N(d, nkey)
            if s is None:
                return None
            op = n.ops[0]
            if isinstance(op, ast.Eq): return s == 0
            if isinstance(op, ast.NotEq): return s != 0
            if isinstance(op, ast.Lt): return s < 0
            if isinstance(op, ast.LtE): return s <= 0
            if isinstance(op, ast.Gt): return s > 0
            if isinstance(op, ast.GtE): return s >= 0
        return None

    return ev(test)


_NEG_OPS = {ast.NotEq: ast.Eq, ast.NotIn: ast.In, ast.IsNot: ast.Is}


def canon_guard(test, pol=True):
    """(text, polarity) of a guard with the negation moved out of the test: ('a not in b', True) == ('a in b', False),
    ('not x', True) == ('x', False).  Lets a rule state the guard it expects in either spelling."""
    if isinstance(test, str):
        test = ast.parse(test, mode="eval").body
    while True:
        if isinstance(test, ast.UnaryOp) and isinstance(test.op, ast.Not):
            test, pol = test.operand, not pol
            continue
        if isinstance(test, ast.Compare) and len(test.ops) == 1 and type(test.ops[0]) in _NEG_OPS:
            test = ast.Compare(left=test.left, ops=[_NEG_OPS[type(test.ops[0])]()], comparators=test.comparators)
            pol = not pol
            continue
        break
    return ast.unparse(test), pol


def guard_conjuncts_set(pairs):
    """frozenset of canonical (text, polarity) conjuncts of a list of guards: a positive conjunction `a and b` counts as its
    members, negations are moved out of the tests (canon_guard) - so nested ifs, one combined test and the guard clause
    `if not (a and b): return` all give the same set."""
    out = set()
    work = list(pairs)
    while work:
        t, p = work.pop()
        if isinstance(t, str):
            t = ast.parse(t, mode="eval").body
        txt, pol = canon_guard(t, p)
        node = ast.parse(txt, mode="eval").body
        if pol and isinstance(node, ast.BoolOp) and isinstance(node.op, ast.And):
            work.extend((v, True) for v in node.values)
        elif not pol and isinstance(node, ast.BoolOp) and isinstance(node.op, ast.Or):
            work.extend((v, False) for v in node.values)
        else:
            out.add((txt, pol))
    return frozenset(out)
