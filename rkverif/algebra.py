"""E5 -- expression algebra for the branch-free step maps (intg_rk, intg_expl_euler).

The def-use chains of a step map are expanded by `Norm` into polynomials over atoms; the atoms
are the formal inputs (X, U, P, t0, DT) and the uninterpreted stage evaluations
f(x=..,u=..,p=..,t=..)["ode"|"quad"].  From these the Butcher tableau (A, b, c) is read off as
exact rationals.  No text is matched: any algebraically equal rewrite gives the same tableau.
"""
import ast
from fractions import Fraction

from .model import AnalysisError
from .poly import Poly
from .paths import walk_no_nested


class StepMap:
    pass


def function_ctor(fi):
    """The `Function(name, ins, outs, in_names, out_names)` constructor returned by fi: (call, ins, outs, in_names, out_names)."""
    for r in walk_no_nested(fi.node):
        if isinstance(r, ast.Return) and isinstance(r.value, ast.Call) and ast.unparse(r.value.func) in ("Function", "ca.Function"):
            c = r.value
            if len(c.args) >= 5 and all(isinstance(a, ast.List) for a in c.args[1:5]):
                names_in = [e.value for e in c.args[3].elts if isinstance(e, ast.Constant)]
                names_out = [e.value for e in c.args[4].elts if isinstance(e, ast.Constant)]
                return c, c.args[1].elts, c.args[2].elts, names_in, names_out
    # assigned then returned
    for st in walk_no_nested(fi.node):
        if isinstance(st, ast.Assign) and isinstance(st.value, ast.Call) and ast.unparse(st.value.func) in ("Function", "ca.Function"):
            c = st.value
            if len(c.args) >= 5 and all(isinstance(a, ast.List) for a in c.args[1:5]):
                names_in = [e.value for e in c.args[3].elts if isinstance(e, ast.Constant)]
                names_out = [e.value for e in c.args[4].elts if isinstance(e, ast.Constant)]
                return c, c.args[1].elts, c.args[2].elts, names_in, names_out
    raise AnalysisError("%s: no Function(name, [ins], [outs], [in_names], [out_names]) constructor found" % fi.qualname)


def extract_step_map(ctx, fi):
    """Analyse an explicit one-step scheme written as f-evaluations and arithmetic."""
    n = ctx.norm(fi)
    call, ins, outs, names_in, names_out = function_ctor(fi)
    sm = StepMap()
    sm.fi, sm.norm = fi, n
    sm.names_in, sm.names_out = names_in, names_out
    sm.in_keys = [n.key(e) for e in ins]
    sm.inputs = dict(zip(names_in, sm.in_keys))
    sm.outputs = {}
    for nm, e in zip(names_out, outs):
        sm.outputs[nm] = (e, n.poly(e))
    fname = fi.params[1]
    # collect stage evaluations: call atoms to f
    stages = {}
    for key, at in list(n.table.items()):
        if at.kind == "call" and at.parts["func"] == fname:
            stages[key] = at
    # order by dependency depth (a stage whose x argument mentions another stage comes later)
    def deps(at):
        out = set()
        for kw, p in at.parts["kw"].items():
            for a in p.atoms():
                for k2 in stages:
                    if a.startswith(k2 + "["):
                        out.add(k2)
        return out
    order = []
    remaining = dict(stages)
    while remaining:
        ready = [k for k, at in remaining.items() if deps(at) <= set(order)]
        if not ready:
            raise AnalysisError("%s: cyclic stage dependencies" % fi.qualname)
        for k in sorted(ready, key=lambda k: (len(k), k)):
            order.append(k)
            remaining.pop(k)
    sm.stage_keys = order
    sm.stages = [stages[k] for k in order]
    return sm


def tableau(sm):
    """(A, b, c, problems): exact rational Butcher tableau read off the normal forms."""
    n = sm.norm
    s = len(sm.stages)
    X, U, P, t0, DT = (sm.inputs.get(k) for k in ("x0", "u", "p", "t0", "DT"))
    probs = []
    ode = ["%s['ode']" % k for k in sm.stage_keys]
    quad = ["%s['quad']" % k for k in sm.stage_keys]
    A = [[Fraction(0)] * s for _ in range(s)]
    c = [None] * s
    for i, at in enumerate(sm.stages):
        kw = at.parts["kw"]
        x, t, u, p = kw.get("x"), kw.get("t"), kw.get("u"), kw.get("p")
        if u is None or u != Poly.atom(U):
            probs.append(("stage %d control" % (i + 1), "u=%s" % U, "u=%s" % u))
        if p is None or p != Poly.atom(P):
            probs.append(("stage %d parameters" % (i + 1), "p=%s" % P, "p=%s" % p))
        if x is None:
            probs.append(("stage %d state" % (i + 1), "x=X + DT*sum a_ij k_j", "missing"))
            continue
        rest = x - Poly.atom(X)
        for j in range(s):
            cj = rest.coeff(ode[j])
            if not cj.is_zero():
                want_form = cj.coeff(DT)
                if want_form.is_const() and (cj - want_form * Poly.atom(DT)).is_zero():
                    A[i][j] = want_form.const_value()
                else:
                    probs.append(("stage %d state" % (i + 1), "a_%d%d*DT*k_%d" % (i + 1, j + 1, j + 1), str(cj)))
                rest = rest - cj * Poly.atom(ode[j])
        if not rest.is_zero():
            probs.append(("stage %d state" % (i + 1), "x = X + DT*sum a_ij*ode_j", "extra terms: %s" % rest))
        if t is None:
            probs.append(("stage %d time" % (i + 1), "t=t0+c*DT", "missing"))
            continue
        tr = t - Poly.atom(t0)
        ci = tr.coeff(DT)
        if ci.is_const() and (tr - ci * Poly.atom(DT)).is_zero():
            c[i] = ci.const_value()
        else:
            probs.append(("stage %d time" % (i + 1), "t = t0 + c_i*DT (absolute time of the stage)", str(t)))
    b = [Fraction(0)] * s
    bq = [Fraction(0)] * s
    xf = sm.outputs.get("xf")
    if xf is None:
        probs.append(("output xf", "present", "missing"))
    else:
        rest = xf[1] - Poly.atom(X)
        for j in range(s):
            cj = rest.coeff(ode[j])
            if not cj.is_zero():
                w = cj.coeff(DT)
                if w.is_const() and (cj - w * Poly.atom(DT)).is_zero():
                    b[j] = w.const_value()
                else:
                    probs.append(("output xf", "b_%d*DT*k_%d" % (j + 1, j + 1), str(cj)))
                rest = rest - cj * Poly.atom(ode[j])
        if not rest.is_zero():
            probs.append(("output xf", "xf = X + DT*sum b_i*ode_i", "extra terms: %s" % rest))
    qf = sm.outputs.get("qf")
    if qf is not None:
        rest = qf[1]
        for j in range(s):
            cj = rest.coeff(quad[j])
            if not cj.is_zero():
                w = cj.coeff(DT)
                if w.is_const() and (cj - w * Poly.atom(DT)).is_zero():
                    bq[j] = w.const_value()
                else:
                    probs.append(("output qf", "b_%d*DT*quad_%d" % (j + 1, j + 1), str(cj)))
                rest = rest - cj * Poly.atom(quad[j])
        if not rest.is_zero():
            probs.append(("output qf", "qf = DT*sum b_i*quad_i", "extra terms: %s" % rest))
    return A, b, bq, c, probs


def order_conditions(A, b, c, order):
    """Butcher order conditions up to `order` (<=4) as list of (name, lhs, rhs)."""
    s = len(b)
    S = lambda f: sum((f(i) for i in range(s)), Fraction(0))
    conds = [("sum b_i = 1", S(lambda i: b[i]), Fraction(1))]
    if order >= 2:
        conds.append(("sum b_i c_i = 1/2", S(lambda i: b[i] * c[i]), Fraction(1, 2)))
    if order >= 3:
        conds.append(("sum b_i c_i^2 = 1/3", S(lambda i: b[i] * c[i] ** 2), Fraction(1, 3)))
        conds.append(("sum b_i a_ij c_j = 1/6", sum((b[i] * A[i][j] * c[j] for i in range(s) for j in range(s)), Fraction(0)), Fraction(1, 6)))
    if order >= 4:
        conds.append(("sum b_i c_i^3 = 1/4", S(lambda i: b[i] * c[i] ** 3), Fraction(1, 4)))
        conds.append(("sum b_i c_i a_ij c_j = 1/8", sum((b[i] * c[i] * A[i][j] * c[j] for i in range(s) for j in range(s)), Fraction(0)), Fraction(1, 8)))
        conds.append(("sum b_i a_ij c_j^2 = 1/12", sum((b[i] * A[i][j] * c[j] ** 2 for i in range(s) for j in range(s)), Fraction(0)), Fraction(1, 12)))
        conds.append(("sum b_i a_ij a_jk c_k = 1/24", sum((b[i] * A[i][j] * A[j][k] * c[k] for i in range(s) for j in range(s) for k in range(s)), Fraction(0)), Fraction(1, 24)))
    return conds


def dense_output(sm, which="poly_coeff"):
    """Coefficient polynomials [c0, c1, ...] of the dense output (hcat([...]) literal), or None."""
    n = sm.norm
    out = sm.outputs.get(which)
    if out is None:
        return None
    e = out[0]
    sc = n.scope
    if isinstance(e, ast.Name):
        v = sc.reaching(e.id, e)
        if v is not None:
            e = v
    if isinstance(e, ast.Call) and ast.unparse(e.func) in ("hcat", "ca.hcat", "horzcat") and e.args:
        lst = e.args[0] if isinstance(e.args[0], ast.List) else None
        if lst is not None:
            return [n.poly(x) for x in lst.elts]
        return [n.poly(a) for a in e.args]
    return [n.poly(e)]
