"""E6 -- name resolution: every global name loaded by a function must be bound somewhere.

Bound means: a local/enclosing-function binding, a module-level binding (def, class, assignment,
import), a builtin, or -- for modules with a star import -- a top-level name of the star-imported
module (CasADi's namespace is read by *parsing* casadi/casadi.py, never by importing it).
"""
import ast
import builtins
import glob
import os
import sys

_CASADI_NAMES = None


def casadi_names():
    global _CASADI_NAMES
    if _CASADI_NAMES is not None:
        return _CASADI_NAMES
    names = set()
    cands = glob.glob("/venv/lib/python3*/site-packages/casadi/casadi.py") + \
        glob.glob(os.path.join(sys.prefix, "lib", "python3*", "site-packages", "casadi", "casadi.py"))
    if cands:
        cands = cands[:1] + [os.path.join(os.path.dirname(cands[0]), "__init__.py")]
    for p in cands:
        try:
            tree = ast.parse(open(p, encoding="utf-8", errors="replace").read())
        except Exception:
            continue
        for st in tree.body:
            names |= bound_by_stmt(st)
    _CASADI_NAMES = names
    return names


def bound_by_stmt(st):
    out = set()
    if isinstance(st, (ast.FunctionDef, ast.AsyncFunctionDef, ast.ClassDef)):
        out.add(st.name)
    elif isinstance(st, ast.Assign):
        for t in st.targets:
            for n in ast.walk(t):
                if isinstance(n, ast.Name):
                    out.add(n.id)
    elif isinstance(st, (ast.AnnAssign, ast.AugAssign)):
        if isinstance(st.target, ast.Name):
            out.add(st.target.id)
    elif isinstance(st, ast.Import):
        for al in st.names:
            out.add((al.asname or al.name).split(".")[0])
    elif isinstance(st, ast.ImportFrom):
        for al in st.names:
            if al.name != "*":
                out.add(al.asname or al.name)
    elif isinstance(st, (ast.If, ast.Try, ast.With, ast.For, ast.While)):
        for sub in ast.iter_child_nodes(st):
            if isinstance(sub, ast.stmt):
                out |= bound_by_stmt(sub)
            elif isinstance(sub, ast.ExceptHandler):
                for s2 in sub.body:
                    out |= bound_by_stmt(s2)
        if isinstance(st, (ast.For,)):
            for n in ast.walk(st.target):
                if isinstance(n, ast.Name):
                    out.add(n.id)
    return out


def module_bindings(mod):
    names = set()
    for st in mod.tree.body:
        names |= bound_by_stmt(st)
    star_unknown = False
    for s in mod.star_imports:
        if s.lstrip(".") == "casadi" and not s.startswith("."):
            cn = casadi_names()
            if cn:
                names |= cn
            else:
                star_unknown = True
        else:
            star_unknown = True
    return names, star_unknown


def function_bindings(fnode):
    """Names bound anywhere inside the function (params, assignments, loops, imports, comprehension vars, nested defs)."""
    out = set()
    a = fnode.args
    for x in a.posonlyargs + a.args + a.kwonlyargs:
        out.add(x.arg)
    if a.vararg:
        out.add(a.vararg.arg)
    if a.kwarg:
        out.add(a.kwarg.arg)
    for n in ast.walk(fnode):
        if isinstance(n, ast.Name) and isinstance(n.ctx, (ast.Store, ast.Del)):
            out.add(n.id)
        elif isinstance(n, (ast.FunctionDef, ast.AsyncFunctionDef, ast.ClassDef)) and n is not fnode:
            out.add(n.name)
            if isinstance(n, (ast.FunctionDef, ast.AsyncFunctionDef)):
                aa = n.args
                for x in aa.posonlyargs + aa.args + aa.kwonlyargs:
                    out.add(x.arg)
                if aa.vararg:
                    out.add(aa.vararg.arg)
                if aa.kwarg:
                    out.add(aa.kwarg.arg)
        elif isinstance(n, ast.Lambda):
            aa = n.args
            for x in aa.posonlyargs + aa.args + aa.kwonlyargs:
                out.add(x.arg)
        elif isinstance(n, (ast.Import, ast.ImportFrom)):
            for al in n.names:
                if al.name != "*":
                    out.add((al.asname or al.name).split(".")[0])
        elif isinstance(n, ast.ExceptHandler) and n.name:
            out.add(n.name)
    return out


def unresolved_names(fi):
    """[(name, node)] loaded in fi but bound nowhere."""
    modnames, star_unknown = module_bindings(fi.module)
    if star_unknown:
        return []
    local = function_bindings(fi.node)
    outer = fi.outer
    while outer is not None:
        local |= function_bindings(outer.node)
        outer = outer.outer
    if fi.cls is not None:
        # class-level names are not visible in methods; nothing to add
        pass
    out = []
    seen = set()
    for n in ast.walk(fi.node):
        if isinstance(n, ast.Name) and isinstance(n.ctx, ast.Load):
            if n.id in local or n.id in modnames or hasattr(builtins, n.id):
                continue
            if n.id in seen:
                continue
            seen.add(n.id)
            out.append((n.id, n))
    return out
