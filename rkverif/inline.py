"""E0b -- inlining of helpers that did not exist when the rules were written.

The rules anchor on the functions of the tree they were written against (rkverif/known_names.json).
A maintainer may later extract a block into a new private helper; the property is untouched, but a
rule that reads the host function would no longer see the block.  Before any rule runs, every call
to a *new* helper (a function or method whose qualified name is not in the frozen list) is inlined
at the syntax-tree level: parameters are substituted, the helper's locals are renamed apart, early
returns are turned into assignments of a result variable (if/else nesting), and the call is replaced
by that variable (or by the returned expression when the helper is a single `return`).
Helpers with yield, returns inside loops/try/with, *args/**kwargs or recursion are left alone.
"""
import ast
import copy
import json
import os

HERE = os.path.dirname(os.path.abspath(__file__))


def known_names():
    p = os.path.join(HERE, "known_names.json")
    try:
        return set(json.load(open(p)))
    except Exception:
        return None


def contains_return(node):
    """Does the node contain a `return` of its own (not one of a nested def / lambda)?"""
    stack = [node]
    first = True
    while stack:
        n = stack.pop()
        if isinstance(n, (ast.FunctionDef, ast.AsyncFunctionDef, ast.Lambda)) and not first:
            continue
        first = False
        if isinstance(n, ast.Return):
            return True
        stack.extend(ast.iter_child_nodes(n))
    return False


def inlinable(fnode):
    a = fnode.args
    if a.vararg or a.kwarg or a.kwonlyargs or a.posonlyargs:
        return False
    for n in ast.walk(fnode):
        if isinstance(n, (ast.Yield, ast.YieldFrom, ast.Global, ast.Nonlocal, ast.Await)):
            return False
        if isinstance(n, (ast.AsyncFunctionDef, ast.ClassDef)) and n is not fnode:
            return False
        if isinstance(n, (ast.For, ast.While, ast.Try, ast.With)) and contains_return(n):
            return False
    return True


def always_returns(stmts):
    for s in stmts:
        if isinstance(s, (ast.Return, ast.Raise)):
            return True
        if isinstance(s, ast.If) and s.orelse and always_returns(s.body) and always_returns(s.orelse):
            return True
    return False


def eliminate_returns(stmts, res):
    """Rewrite a statement list so that `return E` becomes `res = E` with if/else nesting."""
    out = []
    for i, s in enumerate(stmts):
        rest = stmts[i + 1:]
        if isinstance(s, ast.Return):
            val = s.value if s.value is not None else ast.Constant(value=None)
            out.append(ast.copy_location(ast.Assign(targets=[ast.Name(id=res, ctx=ast.Store())], value=val), s))
            return out
        if isinstance(s, ast.If) and contains_return(s):
            body = eliminate_returns(list(s.body) + ([] if always_returns(s.body) else copy.deepcopy(rest)), res)
            orelse = eliminate_returns(list(s.orelse) + ([] if (s.orelse and always_returns(s.orelse)) else copy.deepcopy(rest)), res)
            out.append(ast.copy_location(ast.If(test=s.test, body=body or [ast.Pass()], orelse=orelse), s))
            return out
        out.append(s)
    return out


class _Rename(ast.NodeTransformer):
    def __init__(self, mapping, exprs):
        self.mapping, self.exprs = mapping, exprs

    def visit_Name(self, n):
        if n.id in self.exprs and isinstance(n.ctx, ast.Load):
            return copy.deepcopy(self.exprs[n.id])
        if n.id in self.mapping:
            return ast.copy_location(ast.Name(id=self.mapping[n.id], ctx=n.ctx), n)
        return n

    def visit_arg(self, n):
        return n

    def visit_FunctionDef(self, n):
        if n.name in self.mapping:
            n.name = self.mapping[n.name]
        return self.generic_visit(n)


def simple_arg(a):
    if isinstance(a, (ast.Name, ast.Constant)):
        return True
    if isinstance(a, ast.Attribute):
        return simple_arg(a.value)
    if isinstance(a, ast.Subscript):
        return simple_arg(a.value) and (isinstance(a.slice, (ast.Name, ast.Constant)) or simple_arg(a.slice) if not isinstance(a.slice, (ast.Slice, ast.Tuple)) else False)
    if isinstance(a, ast.UnaryOp) and isinstance(a.op, ast.USub):
        return simple_arg(a.operand)
    return False


def assigned_names(fnode):
    out = set()
    for n in ast.walk(fnode):
        if isinstance(n, ast.Name) and isinstance(n.ctx, (ast.Store, ast.Del)):
            out.add(n.id)
        elif isinstance(n, (ast.FunctionDef, ast.AsyncFunctionDef)) and n is not fnode:
            out.add(n.name)
    return out


_counter = [0]


def build_inline(helper, call, bound_self, target_names=None, host_names=frozenset(), tail=False):
    """(prelude statements, replacement expression) for one call of `helper`; None if arguments do not fit.

    target_names: when the call statement is `x = helper(...)` / `x, y = helper(...)` and the helper simply returns
    local names, those locals are renamed to the targets and no result variable is needed (replacement None)."""
    params = [a.arg for a in helper.args.args]
    args = list(call.args)
    if bound_self:
        params = params[1:]
        self_name = helper.args.args[0].arg
    else:
        self_name = None
    if any(isinstance(a, ast.Starred) for a in args) or any(k.arg is None for k in call.keywords):
        return None
    binding = {}
    for p, a in zip(params, args):
        binding[p] = a
    for k in call.keywords:
        if k.arg in params and k.arg not in binding:
            binding[k.arg] = k.value
        else:
            return None
    defaults = helper.args.defaults
    for p, d in zip(params[len(params) - len(defaults):] if defaults else [], defaults):
        binding.setdefault(p, d)
    if set(binding) != set(params) or len(args) > len(params):
        return None
    _counter[0] += 1
    tag = "__inl%d_" % _counter[0]
    assigned = assigned_names(helper)
    # helper locals keep their names unless the host already uses the name (moved code stays recognisable)
    mapping = {nm: tag + nm for nm in assigned if nm != self_name and (nm in host_names or nm in params)}
    rn = direct_return_names(helper) if target_names else None
    direct = rn is not None and len(rn) == len(target_names)
    if direct:
        for loc, tgt in zip(rn, target_names):
            mapping[loc] = tgt
    exprs = {}
    prelude = []
    for p in params:
        a = binding[p]
        if direct and p in rn:
            # the parameter itself is reassigned and returned into a host name: `x = helper(.., x)` needs no copy
            tgt = mapping[p]
            if isinstance(a, ast.Name) and a.id == tgt:
                continue
            others = [binding[q] for q in params if q != p]
            if any(isinstance(x, ast.Name) and x.id == tgt for o in others for x in ast.walk(o)):
                return None
            prelude.append(ast.copy_location(ast.Assign(targets=[ast.Name(id=tgt, ctx=ast.Store())], value=copy.deepcopy(a)), call))
            continue
        if simple_arg(a) and p not in assigned:
            exprs[p] = a
        else:
            mapping[p] = tag + p
            prelude.append(ast.copy_location(ast.Assign(targets=[ast.Name(id=tag + p, ctx=ast.Store())], value=copy.deepcopy(a)), call))
    if self_name is not None and self_name != "self":
        exprs[self_name] = ast.Name(id="self", ctx=ast.Load())
    body = copy.deepcopy(helper.body)
    # drop a leading docstring
    if body and isinstance(body[0], ast.Expr) and isinstance(body[0].value, ast.Constant) and isinstance(body[0].value.value, str):
        body = body[1:]
    ren = _Rename(mapping, exprs)
    if direct:
        body = [ren.visit(st) for st in body[:-1]]
        return prelude + body, None
    if len(body) == 1 and isinstance(body[0], ast.Return) and not prelude:
        val = body[0].value if body[0].value is not None else ast.Constant(value=None)
        return [], ren.visit(copy.deepcopy(val))
    res = tag + "res"
    if tail:
        # `return helper(...)`: the helper's own returns are the host's returns
        body = [ren.visit(s) for s in body]
        if not always_returns(body):
            body.append(ast.copy_location(ast.Return(value=ast.Constant(value=None)), call))
        return prelude + body, None
    if contains_return(ast.Module(body=body, type_ignores=[])):
        if target_names and len(target_names) == 1 and target_names[0] not in mapping.values():
            # `x = helper(...)`: every path of the helper ends in `x = <returned expression>` (nothing runs after it)
            body = eliminate_returns(body, tag + "res")
            body = [ren.visit(s) for s in body]
            body = [_Rename({tag + "res": target_names[0]}, {}).visit(s) for s in body]
            return prelude + body, None
        body = eliminate_returns(body, res)
        repl = ast.Name(id=res, ctx=ast.Load())
    else:
        repl = ast.Constant(value=None)
    body = [ren.visit(s) for s in body]
    return prelude + body, repl


def direct_return_names(helper):
    """If the helper ends with `return a` / `return a, b` of plain local names (and has no other return), those names."""
    body = helper.body
    if not body or not isinstance(body[-1], ast.Return) or body[-1].value is None:
        return None
    if contains_return(ast.Module(body=body[:-1], type_ignores=[])):
        return None
    v = body[-1].value
    locs = assigned_names(helper)
    if isinstance(v, ast.Name) and v.id in locs:
        return [v.id]
    if isinstance(v, ast.Tuple) and all(isinstance(e, ast.Name) and e.id in locs for e in v.elts) and len({e.id for e in v.elts}) == len(v.elts):
        return [e.id for e in v.elts]
    return None


class _CallReplacer(ast.NodeTransformer):
    def __init__(self, target, repl):
        self.target, self.repl, self.done = target, repl, False

    def visit_Call(self, n):
        if n is self.target:
            self.done = True
            return self.repl
        return self.generic_visit(n)


def in_comprehension_or_lambda(stmt, call):
    for n in ast.walk(stmt):
        if isinstance(n, (ast.ListComp, ast.SetComp, ast.DictComp, ast.GeneratorExp, ast.Lambda)):
            for m in ast.walk(n):
                if m is call:
                    return True
    return False


def inline_in_function(fnode, resolver, max_rounds=4):
    """Inline calls for which resolver(call) returns (helper FunctionDef, bound_self).  Returns number of inlined calls."""
    total = 0
    for _ in range(max_rounds):
        changed = False

        def process_block(stmts):
            nonlocal changed, total
            i = 0
            while i < len(stmts):
                s = stmts[i]
                # recurse into nested blocks first
                for field in ("body", "orelse", "finalbody"):
                    blk = getattr(s, field, None)
                    if isinstance(blk, list) and blk and isinstance(blk[0], ast.stmt) and not isinstance(s, (ast.FunctionDef, ast.ClassDef)):
                        process_block(blk)
                if isinstance(s, ast.Try):
                    for h in s.handlers:
                        process_block(h.body)
                # calls in this statement's own expressions (not in nested blocks)
                own = []
                for field, val in ast.iter_fields(s):
                    if field in ("body", "orelse", "finalbody", "handlers"):
                        continue
                    vals = val if isinstance(val, list) else [val]
                    for v in vals:
                        if isinstance(v, ast.AST):
                            for n in ast.walk(v):
                                if isinstance(n, ast.Call):
                                    own.append(n)
                for c in own:
                    r = resolver(c)
                    if r is None:
                        continue
                    helper, bound_self = r
                    if helper is fnode or not inlinable(helper):
                        continue
                    tnames = None
                    if isinstance(s, ast.Assign) and s.value is c and len(s.targets) == 1:
                        t0 = s.targets[0]
                        if isinstance(t0, ast.Name):
                            tnames = [t0.id]
                        elif isinstance(t0, (ast.Tuple, ast.List)) and all(isinstance(e, ast.Name) for e in t0.elts):
                            tnames = [e.id for e in t0.elts]
                    tail = isinstance(s, ast.Return) and s.value is c
                    built = build_inline(helper, c, bound_self, tnames, host_names=frozenset(assigned_names(fnode)) | {a.arg for a in fnode.args.args}, tail=tail)
                    if built is None:
                        continue
                    prelude, repl = built
                    if repl is None:
                        stmts[i:i + 1] = prelude or [ast.copy_location(ast.Pass(), s)]
                        changed = True
                        total += 1
                        return True
                    if prelude and (in_comprehension_or_lambda(s, c) or isinstance(s, ast.While)):
                        continue
                    rep = _CallReplacer(c, repl)
                    new_s = rep.visit(s)
                    if not rep.done:
                        continue
                    if isinstance(new_s, ast.Expr) and isinstance(new_s.value, ast.Constant):
                        stmts[i:i + 1] = prelude or [ast.copy_location(ast.Pass(), s)]
                    else:
                        stmts[i:i + 1] = prelude + [new_s]
                    changed = True
                    total += 1
                    return True
                i += 1
            return False

        while process_block(fnode.body):
            pass
        if not changed:
            break
    if total:
        ast.fix_missing_locations(fnode)
        # line numbers of synthesized nodes: inherit the host function's line where missing
        for n in ast.walk(fnode):
            if not hasattr(n, "lineno") and isinstance(n, (ast.stmt, ast.expr)):
                n.lineno = fnode.lineno
                n.col_offset = 0
                n.end_lineno = fnode.lineno
                n.end_col_offset = 0
    return total


def inline_new_helpers(prog):
    """Inline every call to a helper whose qualified name is not in known_names.json.  Returns a record for the evidence."""
    known = known_names()
    if known is None:
        return {"enabled": False}
    new_methods = {}   # (class name, method name) -> FunctionInfo
    new_functions = {}  # (module relpath, name) -> FunctionInfo
    for m in prog.modules.values():
        for name, f in m.functions.items():
            if name not in known and m.relpath + ":" + name not in known:
                new_functions[(m.relpath, name)] = f
        for c in m.classes.values():
            for name, f in c.methods.items():
                q = c.name + "." + name
                if q not in known and not any((k.name + "." + name) in known for k in prog.mro(c.name)):
                    new_methods[(c.name, name)] = f
    total = 0
    hosts = list(prog.all_functions(include_nested=False))
    for host in hosts:
        if (host.cls.name if host.cls else None, host.name) in new_methods and False:
            continue

        def resolver(call, host=host):
            fn = call.func
            if isinstance(fn, ast.Attribute):
                recv = ast.unparse(fn.value)
                if recv == "self" and host.cls is not None:
                    for cn in [k.name for k in prog.mro(host.cls.name)] + prog.subclasses(host.cls.name):
                        f = new_methods.get((cn, fn.attr))
                        if f is not None:
                            if "classmethod" in f.decorators:
                                return None
                            return f.node, "staticmethod" not in f.decorators
                if recv in prog.classes and (recv, fn.attr) in new_methods:
                    f = new_methods[(recv, fn.attr)]
                    if "classmethod" in f.decorators:
                        return None
                    # Base.m(self, ...) : explicit self
                    return f.node, False
            elif isinstance(fn, ast.Name):
                f = new_functions.get((host.module.relpath, fn.id))
                if f is not None:
                    return f.node, False
            return None
        total += inline_in_function(host.node, resolver)
    # nested helpers: a function defined inside a host that is not in the frozen list of the host's local bindings
    # (known_locals.json) and is only ever called (never passed around) is inlined into the host and its definition dropped
    try:
        from .canon import load_locals, scope_bindings
        ref_locals = load_locals()
    except Exception:
        ref_locals = None
    nested_done = []
    if ref_locals is not None:
        for host in prog.all_functions(include_nested=False):
            key = (host.cls.name + "." + host.name) if host.cls is not None else (host.module.relpath + ":" + host.name)
            want = ref_locals.get(key)
            if want is None:
                continue
            known_local = {n for n, _ in want}
            cands = {}
            for st in host.node.body:
                if isinstance(st, ast.FunctionDef) and st.name not in known_local and inlinable(st):
                    uses = [n for n in ast.walk(host.node) if isinstance(n, ast.Name) and n.id == st.name]
                    calls = [n for n in ast.walk(host.node) if isinstance(n, ast.Call) and isinstance(n.func, ast.Name) and n.func.id == st.name]
                    inside = [n for n in ast.walk(st) if isinstance(n, ast.Name) and n.id == st.name]
                    if uses and len(uses) == len(calls) and not inside:
                        cands[st.name] = st
            if not cands:
                continue

            def nested_resolver(call, cands=cands):
                if isinstance(call.func, ast.Name) and call.func.id in cands:
                    return cands[call.func.id], False
                return None
            got = inline_in_function(host.node, nested_resolver)
            if got:
                total += got
                for nm, st in cands.items():
                    if not any(isinstance(n, ast.Call) and isinstance(n.func, ast.Name) and n.func.id == nm for n in ast.walk(host.node) if n is not st and not any(n is x for x in ast.walk(st))):
                        if st in host.node.body:
                            host.node.body.remove(st)
                            nested_done.append("%s/%s" % (key, nm))
    # a helper whose every call was inlined is dead code for the analysis: drop it, so that inventories and
    # handler scans see its statements exactly once (in the hosts)
    removed = []
    remaining = set()
    for host in prog.all_functions(include_nested=False):
        for n in ast.walk(host.node):
            if isinstance(n, ast.Call):
                if isinstance(n.func, ast.Attribute):
                    remaining.add(n.func.attr)
                elif isinstance(n.func, ast.Name):
                    remaining.add(n.func.id)
            elif isinstance(n, ast.Attribute):
                remaining.add(n.attr)   # bound-method references such as callbacks
    for (cn, name), f in list(new_methods.items()):
        if name not in remaining or all(name not in {x.func.attr for x in ast.walk(h.node) if isinstance(x, ast.Call) and isinstance(x.func, ast.Attribute)}
                                         for h in prog.all_functions(include_nested=False) if h is not f):
            c = prog.classes.get(cn)
            if c is not None and name in c.methods:
                del c.methods[name]
                removed.append("%s.%s" % (cn, name))
    for (rel, name), f in list(new_functions.items()):
        used = any(isinstance(x, ast.Name) and x.id == name for h in prog.all_functions(include_nested=False) if h is not f for x in ast.walk(h.node))
        if not used and name in prog.modules[rel].functions:
            del prog.modules[rel].functions[name]
            removed.append("%s:%s" % (rel, name))
    return {"enabled": True, "new_helpers": sorted(["%s.%s" % k for k in new_methods] + ["%s:%s" % k for k in new_functions] + nested_done), "inlined_calls": total, "removed": removed + nested_done}


def scalarise_helper_objects(prog):
    """P44: scalar replacement of small helper objects.  A local `v = K(..)` with K a *new* class of the same module (no name of it in
    the frozen list), used only as `v.field` / `v.method(..)` and never passed on, is dissolved: the constructor and every method call
    are inlined and the fields become locals `v__field`.  An accumulator object with add()/result() thus gives back the parallel
    local lists it replaced."""
    known = known_names()
    if known is None:
        return 0
    done = 0
    for m in prog.modules.values():
        newcls = {}
        for st in m.tree.body:
            if isinstance(st, ast.ClassDef) and not st.bases and not any(k.startswith(st.name + ".") for k in known):
                meths = {x.name: x for x in st.body if isinstance(x, ast.FunctionDef)}
                if all(isinstance(x, (ast.FunctionDef, ast.Expr, ast.Pass)) for x in st.body) and "__init__" in meths:
                    newcls[st.name] = meths
        if not newcls:
            continue
        hosts = [n for n in ast.walk(m.tree) if isinstance(n, ast.FunctionDef)]
        for host in hosts:
            if any(host in meths.values() for meths in newcls.values()):
                continue
            cands = []
            for st in ast.walk(host):
                if isinstance(st, ast.Assign) and len(st.targets) == 1 and isinstance(st.targets[0], ast.Name) and isinstance(st.value, ast.Call) and isinstance(st.value.func, ast.Name) \
                        and st.value.func.id in newcls:
                    cands.append((st.targets[0].id, st.value.func.id, st))
            for v, kname, ctor in cands:
                meths = newcls[kname]
                # v is bound once and only used as v.<attr>
                names = [x for x in ast.walk(host) if isinstance(x, ast.Name) and x.id == v]
                stores = [x for x in names if isinstance(x.ctx, ast.Store)]
                attr_values = {id(x.value) for x in ast.walk(host) if isinstance(x, ast.Attribute) and isinstance(x.value, ast.Name) and x.value.id == v}
                if len(stores) != 1 or any(id(x) not in attr_values for x in names if isinstance(x.ctx, ast.Load)):
                    continue
                if any(isinstance(x, (ast.FunctionDef, ast.Lambda)) and x is not host and any(isinstance(y, ast.Name) and y.id == v for y in ast.walk(x)) for x in ast.walk(host)):
                    continue
                props = {nm for nm, d in meths.items() if any(isinstance(dd, ast.Name) and dd.id == "property" for dd in d.decorator_list)}
                backup = copy.deepcopy(host.body)
                # constructor call -> v.__init__(..) statement; property reads -> calls
                ctor_args, ctor_kw = ctor.value.args, ctor.value.keywords

                class Pre(ast.NodeTransformer):
                    def visit_Assign(self, n):
                        if n is ctor:
                            return ast.copy_location(ast.Expr(value=ast.Call(func=ast.Attribute(value=ast.Name(id=v, ctx=ast.Load()), attr="__init__", ctx=ast.Load()), args=ctor_args, keywords=ctor_kw)), n)
                        self.generic_visit(n)
                        return n

                    def visit_Attribute(self, n):
                        self.generic_visit(n)
                        if isinstance(n.value, ast.Name) and n.value.id == v and n.attr in props and isinstance(n.ctx, ast.Load):
                            return ast.copy_location(ast.Call(func=n, args=[], keywords=[]), n)
                        return n

                    def visit_FunctionDef(self, n):
                        if n is host:
                            self.generic_visit(n)
                        return n
                Pre().visit(host)
                plain = {}
                for nm, d in meths.items():
                    d2 = copy.deepcopy(d)
                    d2.decorator_list = []
                    if d2.body and isinstance(d2.body[0], ast.Expr) and isinstance(d2.body[0].value, ast.Constant) and len(d2.body) > 1:
                        d2.body = d2.body[1:]
                    if not d2.args.args:
                        continue
                    me = d2.args.args[0].arg
                    for x in ast.walk(d2):
                        if isinstance(x, ast.Name) and x.id == me:
                            x.id = v
                    d2.args.args[0].arg = v
                    plain[nm] = d2

                pref = "__%s__" % kname
                for x in ast.walk(host):
                    if isinstance(x, ast.Call) and isinstance(x.func, ast.Attribute) and isinstance(x.func.value, ast.Name) and x.func.value.id == v and x.func.attr in plain:
                        x.args = [ast.copy_location(ast.Name(id=v, ctx=ast.Load()), x)] + x.args
                        x.func = ast.copy_location(ast.Name(id=pref + x.func.attr, ctx=ast.Load()), x)

                def resolver(call):
                    f = call.func
                    if isinstance(f, ast.Name) and f.id.startswith(pref) and f.id[len(pref):] in plain:
                        return plain[f.id[len(pref):]], False
                    return None
                inline_in_function(host, resolver)
                left = [x for x in ast.walk(host) if isinstance(x, ast.Call) and isinstance(x.func, ast.Name) and x.func.id.startswith(pref)]
                if left:
                    host.body = backup
                    continue

                class Fields(ast.NodeTransformer):
                    def visit_Attribute(self, n):
                        self.generic_visit(n)
                        if isinstance(n.value, ast.Name) and n.value.id == v:
                            return ast.copy_location(ast.Name(id="%s__%s" % (v, n.attr.lstrip("_")), ctx=n.ctx), n)
                        return n
                Fields().visit(host)
                if any(isinstance(x, ast.Name) and x.id == v for x in ast.walk(host)):
                    host.body = backup
                    continue
                ast.fix_missing_locations(host)
                done += 1
    return done


def write_known_names(prog):
    names = set()
    for m in prog.modules.values():
        for name in m.functions:
            names.add(name)
            names.add(m.relpath + ":" + name)
        for c in m.classes.values():
            for name in c.methods:
                names.add(c.name + "." + name)
    json.dump(sorted(names), open(os.path.join(HERE, "known_names.json"), "w"), indent=0)
    return len(names)
