"""Scopes (reaching definitions on structured code) and expression normalisation.

`Scope` answers "which single expression does this local name denote here?" with a
conservative, syntax-directed reaching-definition rule; `Norm` turns an expression
into a `Poly` over canonical atoms, expanding such local aliases, so that rules
compare *facts* (affine index forms, slot tables, linear forms) and never text.
"""
import ast
import os
from fractions import Fraction

from .poly import Poly, NotMonomial
from .model import AnalysisError

BLOCK_FIELDS = ("body", "orelse", "finalbody", "handlers")


MUTATORS = {"append", "extend", "insert", "pop", "remove", "clear", "update", "move_to_end", "add", "setdefault", "sort", "reverse"}
FRESH = {"sym", "variable", "parameter"}


def fresh_identity(value):
    """Calls that create an object with its own identity (a symbol, a decision variable):
    two textually equal calls denote different objects, so a name bound to one is kept as an atom."""
    return isinstance(value, ast.Call) and isinstance(value.func, ast.Attribute) and value.func.attr in FRESH


class Def:
    __slots__ = ("name", "kind", "stmt", "value", "order", "block", "target")

    def __init__(self, name, kind, stmt, value, order, block, target=None):
        self.name, self.kind, self.stmt, self.value, self.order, self.block, self.target = \
            name, kind, stmt, value, order, block, target


class Scope:
    """Per-function structure: parents, pre-order, blocks, definitions of local names."""

    def __init__(self, fi):
        self.fi = fi
        self.parent = {}
        self.order = {}
        self.block_of = {}   # stmt -> (owner node, field)
        self.defs = {}
        self.aug = set()     # names with augmented assignment or loop-carried mutation
        self.mutated = set() # names used as receivers of mutating calls / subscript stores
        n = [0]

        def visit(node, parent):
            self.parent[node] = parent
            self.order[node] = n[0]
            n[0] += 1
            for field, val in ast.iter_fields(node):
                if isinstance(val, list):
                    for item in val:
                        if isinstance(item, ast.AST):
                            if isinstance(item, (ast.stmt, ast.ExceptHandler)) and field in BLOCK_FIELDS:
                                self.block_of[item] = (node, field)
                            visit(item, node)
                elif isinstance(val, ast.AST):
                    visit(val, node)

        visit(fi.node, None)
        for p in fi.params + fi.kwonly + [x for x in (fi.vararg, fi.kwarg) if x]:
            self._add(Def(p, "param", fi.node, None, -1, (fi.node, "args")))
        self._collect(fi.node)

    def _add(self, d):
        self.defs.setdefault(d.name, []).append(d)

    def _targets(self, t):
        if isinstance(t, ast.Name):
            yield t.id, t, True
        elif isinstance(t, (ast.Tuple, ast.List)):
            for e in t.elts:
                for name, node, _ in self._targets(e):
                    yield name, node, False
        elif isinstance(t, ast.Starred):
            yield from self._targets(t.value)

    def _pair_targets(self, t, v):
        """(name, target node, value node or None): element-wise for `a, b = x, y`."""
        if isinstance(t, ast.Name):
            yield t.id, t, v
        elif isinstance(t, (ast.Tuple, ast.List)):
            if isinstance(v, (ast.Tuple, ast.List)) and len(v.elts) == len(t.elts) and not any(isinstance(e, ast.Starred) for e in list(t.elts) + list(v.elts)):
                for te, ve in zip(t.elts, v.elts):
                    yield from self._pair_targets(te, ve)
            else:
                for te in t.elts:
                    yield from self._pair_targets(te, None)
        elif isinstance(t, ast.Starred):
            yield from self._pair_targets(t.value, None)

    def _collect(self, root):
        for node in ast.walk(root):
            if node is not root and isinstance(node, (ast.FunctionDef, ast.AsyncFunctionDef, ast.ClassDef)):
                if self._inside_nested(node):
                    continue
                self._add(Def(node.name, "def", node, None, self.order[node], self.block_of.get(node)))
                continue
            if self._inside_nested(node):
                continue
            if isinstance(node, ast.Assign):
                for t in node.targets:
                    for name, tn, val in self._pair_targets(t, node.value):
                        simple = val is not None and len(node.targets) == 1
                        self._add(Def(name, "assign" if simple else "unpack", node, val if simple else None,
                                      self.order[node], self.block_of.get(node), tn))
                    if isinstance(t, ast.Subscript) and isinstance(t.value, ast.Name):
                        self.mutated.add(t.value.id)
            elif isinstance(node, ast.Call) and isinstance(node.func, ast.Attribute) and isinstance(node.func.value, ast.Name) \
                    and node.func.attr in MUTATORS:
                self.mutated.add(node.func.value.id)
            elif isinstance(node, ast.AnnAssign) and isinstance(node.target, ast.Name) and node.value is not None:
                self._add(Def(node.target.id, "assign", node, node.value, self.order[node], self.block_of.get(node)))
            elif isinstance(node, ast.AugAssign) and isinstance(node.target, ast.Name):
                self.aug.add(node.target.id)
                self._add(Def(node.target.id, "aug", node, None, self.order[node], self.block_of.get(node)))
            elif isinstance(node, (ast.For, ast.AsyncFor)):
                for name, tn, simple in self._targets(node.target):
                    self._add(Def(name, "for", node, None, self.order[node], (node, "body"), tn))
            elif isinstance(node, (ast.With, ast.AsyncWith)):
                for it in node.items:
                    if it.optional_vars is not None:
                        for name, tn, simple in self._targets(it.optional_vars):
                            self._add(Def(name, "with", node, None, self.order[node], (node, "body")))
            elif isinstance(node, ast.ExceptHandler) and node.name:
                self._add(Def(node.name, "except", node, None, self.order[node], (node, "body")))
            elif isinstance(node, ast.NamedExpr) and isinstance(node.target, ast.Name):
                self._add(Def(node.target.id, "walrus", node, None, self.order[node], None))
            elif isinstance(node, (ast.Import, ast.ImportFrom)):
                for al in node.names:
                    nm = (al.asname or al.name).split(".")[0]
                    self._add(Def(nm, "import", node, None, self.order[node], self.block_of.get(node)))
            elif isinstance(node, ast.comprehension):
                for name, tn, simple in self._targets(node.target):
                    self._add(Def(name, "comp", node, None, self.order[node], None, tn))

    def _inside_nested(self, node):
        p = self.parent.get(node)
        while p is not None and p is not self.fi.node:
            if isinstance(p, (ast.FunctionDef, ast.AsyncFunctionDef, ast.Lambda, ast.ClassDef)):
                return True
            p = self.parent.get(p)
        return False

    # -- structure queries ---------------------------------------------------
    def stmt_of(self, node):
        while node is not None and node not in self.block_of:
            node = self.parent.get(node)
        return node

    def block_chain(self, node):
        """Blocks enclosing node, innermost first, each as ((owner, field), stmt-in-that-block)."""
        out = []
        st = self.stmt_of(node)
        while st is not None:
            out.append((self.block_of[st], st))
            owner = self.block_of[st][0]
            if owner is self.fi.node:
                break
            st = self.stmt_of(owner)
        return out

    def enclosing_loops(self, node):
        """Enclosing `for` loops and comprehension generators, outermost first: [(target ast, iter ast, owner)]."""
        out = []
        p = self.parent.get(node)
        child = node
        while p is not None and p is not self.fi.node:
            if isinstance(p, (ast.For, ast.AsyncFor)) and child in p.body:
                out.append((p.target, p.iter, p))
            elif isinstance(p, (ast.ListComp, ast.SetComp, ast.GeneratorExp, ast.DictComp)):
                gens = p.generators
                upto = len(gens)
                for gi, g in enumerate(gens):
                    if child is g:
                        # node sits in generator gi: its iter sees generators < gi, its ifs see <= gi
                        upto = gi if self._within(node, g.iter) else gi + 1
                        break
                for g in reversed(gens[:upto]):
                    out.append((g.target, g.iter, g))
            child = p
            p = self.parent.get(p)
        out.reverse()
        return out

    def _within(self, node, anc):
        while node is not None:
            if node is anc:
                return True
            node = self.parent.get(node)
        return False

    def within(self, node, anc):
        return self._within(node, anc)

    def guards(self, node):
        """Conditions under which node executes: [(test ast, polarity)] from enclosing if/elif/else, IfExp, while."""
        out = []
        child = node
        p = self.parent.get(node)
        while p is not None and p is not self.fi.node:
            if isinstance(p, ast.If):
                if child in p.body:
                    out.append((p.test, True))
                elif child in p.orelse:
                    out.append((p.test, False))
            elif isinstance(p, ast.IfExp):
                if child is p.body:
                    out.append((p.test, True))
                elif child is p.orelse:
                    out.append((p.test, False))
            elif isinstance(p, ast.While) and child in p.body:
                out.append((p.test, True))
            child = p
            p = self.parent.get(p)
        out.reverse()
        return out

    def guard_conjuncts(self, node):
        """guards(node) with `a and b` (positive) / `a or b` (negative) split into their parts."""
        out = []

        def split(t, pol):
            if isinstance(t, ast.BoolOp) and ((isinstance(t.op, ast.And) and pol) or (isinstance(t.op, ast.Or) and not pol)):
                for v in t.values:
                    split(v, pol)
            elif isinstance(t, ast.UnaryOp) and isinstance(t.op, ast.Not):
                split(t.operand, not pol)
            else:
                out.append((t, pol))
        for t, pol in self.guards(node):
            split(t, pol)
        return out

    def path_guards(self, node):
        """guard_conjuncts(node) plus the conditions implied by earlier statements of the enclosing blocks that always
        leave the block (`if c: return` before node contributes (c, False)); independent of whether a guard is
        written as nesting or as an early exit."""
        def exits(stmts):
            for s in stmts:
                if isinstance(s, (ast.Return, ast.Raise, ast.Continue, ast.Break)):
                    return True
                if isinstance(s, ast.If) and s.orelse and exits(s.body) and exits(s.orelse):
                    return True
            return False
        raw = []
        for (blk, st) in reversed(self.block_chain(node)):
            owner, field = blk
            # explicit guard contributed by the owner of this block
            if isinstance(owner, ast.If):
                raw.append((owner.test, field == "body"))
            elif isinstance(owner, ast.While) and field == "body":
                raw.append((owner.test, True))
            stmts = getattr(owner, field)
            for prev in stmts[:stmts.index(st)]:
                if isinstance(prev, ast.If):
                    if exits(prev.body) and not (prev.orelse and exits(prev.orelse)):
                        raw.append((prev.test, False))
                    elif prev.orelse and exits(prev.orelse) and not exits(prev.body):
                        raw.append((prev.test, True))
        # conditional expressions between the statement and the node
        st = self.stmt_of(node)
        child, p = node, self.parent.get(node)
        inner = []
        while p is not None and child is not st:
            if isinstance(p, ast.IfExp):
                if child is p.body:
                    inner.append((p.test, True))
                elif child is p.orelse:
                    inner.append((p.test, False))
            child, p = p, self.parent.get(p)
        raw.extend(reversed(inner))
        out = []

        def split(t, pol):
            if isinstance(t, ast.BoolOp) and ((isinstance(t.op, ast.And) and pol) or (isinstance(t.op, ast.Or) and not pol)):
                for v in t.values:
                    split(v, pol)
            elif isinstance(t, ast.UnaryOp) and isinstance(t.op, ast.Not):
                split(t.operand, not pol)
            else:
                out.append((t, pol))
        for t, pol in raw:
            split(t, pol)
        return out

    # -- reaching definitions -------------------------------------------------
    def reaching(self, name, use):
        """The unique assignment expression that `name` denotes at `use`, or None when
        unknown / ambiguous / not a plain single assignment."""
        ds = self.defs.get(name)
        if not ds or name in self.mutated:
            return None
        uo = self.order.get(use)
        if uo is None:
            return None
        chain = self.block_chain(use)
        blocks = {}
        for (blk, st) in chain:
            blocks[(id(blk[0]), blk[1])] = st
        # comprehension variables shadow
        for d in ds:
            if d.kind == "comp" and self._comp_scope_contains(d.stmt, use):
                return None
        cands = []
        for d in ds:
            if d.kind in ("comp",):
                continue
            if d.order >= uo and d.kind != "for":
                continue
            if d.kind == "param":
                cands.append(d)
                continue
            if d.block is None:
                continue
            key = (id(d.block[0]), d.block[1])
            if key in blocks:
                # the def statement must precede (or be, for loops/with) the ancestor statement of the use
                anc = blocks[key]
                if d.kind in ("for", "with", "except"):
                    if self._within(use, d.stmt):
                        cands.append(d)
                elif self.order[d.stmt] < self.order[anc] or (d.stmt is anc and False):
                    cands.append(d)
        if not cands:
            return None
        best = max(cands, key=lambda d: d.order)
        # any other definition between best and use that is not dominated => ambiguous
        for d in ds:
            if d is best or d.kind == "comp":
                continue
            if best.order < d.order < uo:
                return None
        # loop-carried: a later definition inside a loop that encloses the use, where best is outside that loop
        for d in ds:
            if d is best or d.kind == "comp" or d.order <= uo:
                continue
            for (_t, _i, owner) in self.enclosing_loops(use):
                if isinstance(owner, (ast.For, ast.While)) and self._within(d.stmt, owner) and not self._within(best.stmt, owner):
                    return None
                if isinstance(owner, (ast.For, ast.While)) and self._within(d.stmt, owner) and self._within(best.stmt, owner):
                    # both in the loop; the later def may reach the use on the next iteration only if
                    # best does not dominate the use inside the body -- it does (same block chain), fine.
                    pass
        if best.kind != "assign":
            return None
        if fresh_identity(best.value):
            return None
        return best.value

    def list_value(self, name, use):
        """For a local list built as `L = <expr>` followed by straight-line `L.append(x)` / `L.extend(E)` /
        `L += E` statements in the same block before `use`: the equivalent expression `<expr> + [x] + E`.
        None when the construction is anything else (mutation in a nested block, several definitions, ...)."""
        ds = [d for d in self.defs.get(name, []) if d.kind != "comp"]
        if len([d for d in ds if d.kind == "assign"]) != 1 or any(d.kind not in ("assign", "aug") for d in ds):
            return None
        d0 = [d for d in ds if d.kind == "assign"][0]
        uo = self.order.get(use)
        if uo is None or d0.block is None or d0.order >= uo:
            return None
        anc = None
        for (blk, st) in self.block_chain(use):
            if blk[0] is d0.block[0] and blk[1] == d0.block[1]:
                anc = st
        if anc is None or isinstance(d0.stmt, ast.Assign) and len(d0.stmt.targets) != 1:
            return None
        stmts = getattr(d0.block[0], d0.block[1])
        i0, i1 = stmts.index(d0.stmt), stmts.index(anc)
        if i0 >= i1:
            return None
        value = d0.value
        allowed = set()
        for st in stmts[i0 + 1:i1]:
            add = None
            if isinstance(st, ast.Expr) and isinstance(st.value, ast.Call) and isinstance(st.value.func, ast.Attribute) \
                    and isinstance(st.value.func.value, ast.Name) and st.value.func.value.id == name and len(st.value.args) == 1 and not st.value.keywords:
                if st.value.func.attr == "append":
                    add = ast.List(elts=[st.value.args[0]], ctx=ast.Load())
                elif st.value.func.attr == "extend":
                    add = st.value.args[0]
            elif isinstance(st, ast.AugAssign) and isinstance(st.target, ast.Name) and st.target.id == name and isinstance(st.op, ast.Add):
                add = st.value
            if add is not None:
                value = ast.BinOp(left=value, op=ast.Add(), right=add)
                allowed.add(st)
        # no other mutation of the name before the use, nor inside a loop around the use
        loops = [o for (_t, _i, o) in self.enclosing_loops(use) if isinstance(o, (ast.For, ast.While))]
        for node in ast.walk(self.fi.node):
            mut = None
            if isinstance(node, ast.Call) and isinstance(node.func, ast.Attribute) and isinstance(node.func.value, ast.Name) \
                    and node.func.value.id == name and node.func.attr in MUTATORS:
                mut = node
            elif isinstance(node, ast.AugAssign) and isinstance(node.target, ast.Name) and node.target.id == name:
                mut = node
            elif isinstance(node, (ast.Assign, ast.Delete)) and any(isinstance(t, ast.Subscript) and isinstance(t.value, ast.Name) and t.value.id == name for t in node.targets):
                mut = node
            if mut is None:
                continue
            st = self.stmt_of(mut)
            if st in allowed:
                continue
            if self.order[mut] < uo or any(self._within(mut, o) for o in loops):
                return None
        return ast.fix_missing_locations(ast.copy_location(value, d0.value)) if value is not d0.value else value

    def _comp_scope_contains(self, gen, use):
        comp = self.parent.get(gen)
        return comp is not None and self._within(use, comp) and not self._within(use, comp.generators[0].iter)

    def loop_var_names(self, node):
        out = []
        for t, it, owner in self.enclosing_loops(node):
            for name, _, _ in self._targets(t):
                out.append(name)
        return out


class Atom:
    __slots__ = ("key", "kind", "node", "parts")

    def __init__(self, key, kind, node, parts=None):
        self.key, self.kind, self.node, self.parts = key, kind, node, parts or {}

    def __repr__(self):
        return "<atom %s %s>" % (self.kind, self.key)


_CMP = {ast.Eq: "==", ast.NotEq: "!=", ast.Lt: "<", ast.LtE: "<=", ast.Gt: ">", ast.GtE: ">=",
        ast.Is: "is", ast.IsNot: "is not", ast.In: "in", ast.NotIn: "not in"}
_BIN = {ast.FloorDiv: "//", ast.Mod: "%", ast.MatMult: "@", ast.BitOr: "|", ast.BitAnd: "&",
        ast.BitXor: "^", ast.LShift: "<<", ast.RShift: ">>"}


def _is_access_path(v):
    """a name / attribute chain, or integer index arithmetic (+ - * //) over such and constants"""
    if isinstance(v, ast.BinOp) and isinstance(v.op, (ast.Add, ast.Sub, ast.Mult, ast.FloorDiv)):
        return _is_access_path(v.left) and _is_access_path(v.right)
    if isinstance(v, ast.UnaryOp) and isinstance(v.op, ast.USub):
        return _is_access_path(v.operand)
    if isinstance(v, ast.Constant) and isinstance(v.value, int):
        return True
    while isinstance(v, ast.Attribute) or (isinstance(v, ast.Subscript) and isinstance(v.slice, ast.Constant)):
        v = v.value
    return isinstance(v, ast.Name)


class Norm:
    """Expression -> Poly over canonical atoms.

    scope : Scope used to expand single-assignment local aliases (None = no expansion)
    bind  : {name: Poly} explicit bindings that override everything (loop-variable renaming etc.)
    """

    def __init__(self, scope=None, bind=None, expand=True, max_depth=150, no_expand=(), alias_only=False):
        self.alias_only = alias_only   # expand a local only when its definition is a pure access path (name / attribute chain)
        self.scope = scope
        self.bind = dict(bind or {})
        self.expand = expand and scope is not None
        self.table = {}
        self.max_depth = max_depth
        self.no_expand = set(no_expand)
        self._stack = []

    # -- public ------------------------------------------------------------------
    def poly(self, node):
        return self._p(node, 0)

    def key(self, node):
        return str(self.poly(node))

    def atom_info(self, key):
        return self.table.get(key)

    def single(self, node):
        """AtomInfo if node normalises to exactly one atom, else None."""
        k = self.poly(node).is_single_atom()
        return self.table.get(k) if k else None

    # -- helpers ------------------------------------------------------------------
    def _mk(self, key, kind, node, parts=None):
        if key not in self.table:
            self.table[key] = Atom(key, kind, node, parts)
        return Poly.atom(key)

    def _k(self, node, d):
        return str(self._p(node, d))

    def _p(self, node, d):
        if d > self.max_depth:
            return self._mk("<deep:%s>" % ast.unparse(node), "other", node)
        m = getattr(self, "_n_" + type(node).__name__, None)
        if m is None:
            return self._mk("<%s>" % ast.unparse(node), "other", node)
        return m(node, d + 1)

    def _n_Constant(self, n, d):
        v = n.value
        if isinstance(v, bool) or v is None:
            return self._mk(repr(v), "const", n)
        if isinstance(v, int):
            return Poly.const(v)
        if isinstance(v, float):
            try:
                return Poly.const(Fraction(str(v)))
            except (ValueError, ZeroDivisionError):
                return self._mk(repr(v), "const", n)
        return self._mk(repr(v), "const", n)

    def _n_Name(self, n, d):
        if n.id in self.bind:
            b = self.bind[n.id]
            return b if isinstance(b, Poly) else Poly.const(b)
        if self.expand and n.id not in self.no_expand and isinstance(n.ctx, ast.Load):
            v = self.scope.reaching(n.id, n)
            if v is not None and self.alias_only and not _is_access_path(v):
                v = None
            if v is not None and id(v) not in self._stack:
                self._stack.append(id(v))
                try:
                    return self._p(v, d)
                finally:
                    self._stack.pop()
        return self._mk(n.id, "name", n)

    def _n_Attribute(self, n, d):
        base = self._k(n.value, d)
        return self._mk("%s.%s" % (base, n.attr), "attr", n, {"base": base, "attr": n.attr})

    def _slice_key(self, s, d):
        if isinstance(s, ast.Tuple):
            return ",".join(self._slice_key(e, d) for e in s.elts)
        if isinstance(s, ast.Slice):
            return ":".join("" if x is None else self._k(x, d) for x in (s.lower, s.upper, s.step)) \
                if s.step is not None else ":".join("" if x is None else self._k(x, d) for x in (s.lower, s.upper))
        return self._k(s, d)

    def _n_Subscript(self, n, d):
        base = self._k(n.value, d)
        sk = self._slice_key(n.slice, d)
        idx = None
        if not isinstance(n.slice, (ast.Tuple, ast.Slice)):
            idx = self._p(n.slice, d)
        return self._mk("%s[%s]" % (base, sk), "sub", n, {"base": base, "index": idx, "slice": n.slice, "value": n.value})

    def _n_Call(self, n, d):
        # len([e for x in L]) == len(L): a comprehension without filter has one element per element of its (single) source
        if isinstance(n.func, ast.Name) and n.func.id == "len" and len(n.args) == 1 and not n.keywords:
            a = n.args[0]
            if isinstance(a, ast.Name) and self.scope is not None and a.id not in self.bind:
                v = self.scope.reaching(a.id, a)
                if isinstance(v, ast.ListComp):
                    a = v
            if isinstance(a, ast.ListComp) and len(a.generators) == 1 and not a.generators[0].ifs:
                return self._n_Call(ast.copy_location(ast.Call(func=n.func, args=[a.generators[0].iter], keywords=[]), n), d)
        f = self._k(n.func, d)
        args = []
        for a in n.args:
            if isinstance(a, ast.Starred):
                args.append("*" + self._k(a.value, d))
            else:
                args.append(self._k(a, d))
        kws = {}
        for kw in n.keywords:
            if kw.arg is None:
                args.append("**" + self._k(kw.value, d))
            else:
                kws[kw.arg] = self._p(kw.value, d)
        key = "%s(%s)" % (f, ",".join(args + ["%s=%s" % (k, kws[k]) for k in sorted(kws)]))
        return self._mk(key, "call", n, {"func": f, "args": args, "kw": kws})

    def _n_BinOp(self, n, d):
        op = type(n.op)
        if op in (ast.Add, ast.Sub, ast.Mult):
            a, b = self._p(n.left, d), self._p(n.right, d)
            return a + b if op is ast.Add else (a - b if op is ast.Sub else a * b)
        if op is ast.Div:
            a, b = self._p(n.left, d), self._p(n.right, d)
            return a * self._inv(b, n.right)
        if op is ast.Pow:
            a = self._p(n.left, d)
            e = self._p(n.right, d)
            if e.is_const() and e.const_value().denominator == 1 and abs(e.const_value()) <= 12:
                k = int(e.const_value())
                if k >= 0:
                    return a ** k
                return self._inv(a ** (-k), n)
            return self._mk("pow(%s,%s)" % (a, e), "pow", n, {"base": a, "exp": e})
        sym = _BIN.get(op, op.__name__)
        a, b = self._p(n.left, d), self._p(n.right, d)
        return self._mk("(%s %s %s)" % (a, sym, b), "binop", n, {"op": sym, "left": a, "right": b})

    def _inv(self, b, node):
        """1/b in normal form: the monomial content is inverted exactly, the primitive part becomes an atom."""
        try:
            return b.inv()
        except ZeroDivisionError:
            return self._mk("inv(0)", "inv", node, {"den": b})
        except NotMonomial:
            mono, prim = b.content()
            return mono.inv() * self._mk("inv(%s)" % prim, "inv", node, {"den": prim})

    def _n_UnaryOp(self, n, d):
        if isinstance(n.op, ast.USub):
            return -self._p(n.operand, d)
        if isinstance(n.op, ast.UAdd):
            return self._p(n.operand, d)
        if isinstance(n.op, ast.Not):
            x = self._k(n.operand, d)
            return self._mk("not(%s)" % x, "not", n, {"operand": x})
        return self._mk("~(%s)" % self._k(n.operand, d), "other", n)

    def _n_Compare(self, n, d):
        sides = [self._p(n.left, d)] + [self._p(c, d) for c in n.comparators]
        ops = [_CMP.get(type(o), "?") for o in n.ops]
        if len(ops) == 1 and ops[0] in ("==", "!="):
            ss = sorted(str(s) for s in sides)
            key = "(%s %s %s)" % (ss[0], ops[0], ss[1])
        elif len(ops) == 1 and ops[0] in (">", ">="):
            # a >= b  ==  b <= a
            key = "(%s %s %s)" % (sides[1], "<" if ops[0] == ">" else "<=", sides[0])
            sides = [sides[1], sides[0]]
            ops = ["<" if ops[0] == ">" else "<="]
        else:
            key = "(" + str(sides[0]) + "".join(" %s %s" % (o, s) for o, s in zip(ops, sides[1:])) + ")"
        return self._mk(key, "cmp", n, {"ops": ops, "sides": sides})

    def _n_BoolOp(self, n, d):
        op = "and" if isinstance(n.op, ast.And) else "or"
        vals = [self._k(v, d) for v in n.values]
        return self._mk("(" + (" %s " % op).join(vals) + ")", "bool", n, {"op": op, "values": vals})

    def _n_IfExp(self, n, d):
        t, a, b = self._k(n.test, d), self._p(n.body, d), self._p(n.orelse, d)
        return self._mk("(%s if %s else %s)" % (a, t, b), "ifexp", n, {"test": t, "body": a, "orelse": b, "test_node": n.test})

    def _seq(self, n, d, op, cl, kind):
        elts = []
        for e in n.elts:
            if isinstance(e, ast.Starred):
                elts.append("*" + self._k(e.value, d))
            else:
                elts.append(self._k(e, d))
        return self._mk(op + ",".join(elts) + cl, kind, n, {"elts": elts})

    def _n_List(self, n, d):
        return self._seq(n, d, "[", "]", "list")

    def _n_Tuple(self, n, d):
        return self._seq(n, d, "(", ")", "tuple")

    def _n_Set(self, n, d):
        return self._seq(n, d, "{", "}", "set")

    def _n_Starred(self, n, d):
        return self._mk("*" + self._k(n.value, d), "star", n)

    def _comp(self, n, d, op, cl):
        # comprehension variables are alpha-renamed (%cv0, %cv1, ...): their names carry no meaning
        saved = dict(self.bind)
        gens = []
        try:
            idx = getattr(self, "_cvn", 0)
            for g in n.generators:
                it = self._k(g.iter, d)
                names = []
                for t in ast.walk(g.target):
                    if isinstance(t, ast.Name):
                        nm = "%%cv%d" % idx
                        idx += 1
                        self.bind[t.id] = Poly.atom(nm)
                        names.append(nm)
                self._cvn = idx
                s = "for %s in %s" % (",".join(names), it)
                for i in g.ifs:
                    s += " if " + self._k(i, d)
                gens.append(s)
            elt = self._k(n.elt, d) if not isinstance(n, ast.DictComp) else "%s:%s" % (self._k(n.key, d), self._k(n.value, d))
        finally:
            self.bind = saved
            self._cvn = getattr(self, "_cvn", 0) - sum(1 for g in n.generators for t in ast.walk(g.target) if isinstance(t, ast.Name))
        return self._mk(op + elt + " " + " ".join(gens) + cl, "comp", n)

    def _n_ListComp(self, n, d):
        return self._comp(n, d, "[", "]")

    def _n_GeneratorExp(self, n, d):
        return self._comp(n, d, "(", ")")

    def _n_SetComp(self, n, d):
        return self._comp(n, d, "{", "}")

    def _n_DictComp(self, n, d):
        return self._comp(n, d, "{", "}")

    def _n_Dict(self, n, d):
        items = []
        for k, v in zip(n.keys, n.values):
            items.append("%s:%s" % ("**" if k is None else self._k(k, d), self._k(v, d)))
        return self._mk("{" + ",".join(items) + "}", "dict", n,
                        {"items": {(k.value if isinstance(k, ast.Constant) else None): v for k, v in zip(n.keys, n.values)}})

    def _n_JoinedStr(self, n, d):
        return self._mk("<fstr:%s>" % ast.unparse(n), "const", n)

    def _n_Lambda(self, n, d):
        return self._mk("<lambda:%s>" % ast.unparse(n), "other", n)

    def _n_NamedExpr(self, n, d):
        return self._p(n.value, d)


def value_cases(scope, name, key=None, within=None):
    """[(conditions, leaf expression)] of the plain assignments to a local name: enclosing if-guards of each
    assignment followed by the tests of nested conditional expressions, conditions as (text, polarity)."""
    key = key or (lambda t: ast.unparse(t))
    out = []

    def flat(v, conds):
        if isinstance(v, ast.IfExp):
            flat(v.body, conds + [(key(v.test), True)])
            flat(v.orelse, conds + [(key(v.test), False)])
        else:
            out.append((conds, v))
    for d in scope.defs.get(name, []):
        if d.kind == "assign" and (within is None or scope.within(d.stmt, within)):
            flat(d.value, [(key(t), p) for t, p in scope.guards(d.stmt)])
    return out


def return_cases(scope, fnode=None, key=None):
    """[(leaf text, [(condition text, polarity)])] of the values a function returns, independent of whether the choice is written
    with if statements (nested or as early exits: path_guards), with a conditional expression (`return A if c else B`), or with a
    conditional expression in one argument of the returned call (`return f(x, A if c else B)` = `f(x, A) if c else f(x, B)`;
    lifted only when the other arguments are plain names / attributes / constants, so that evaluation order cannot matter)."""
    import copy
    from .paths import walk_no_nested
    key = key or (lambda t: ast.unparse(t))
    fnode = fnode or scope.fi.node
    out = []

    def plain(e):
        return all(isinstance(x, (ast.Name, ast.Attribute, ast.Constant, ast.expr_context)) for x in ast.walk(e))

    def flat(v, conds):
        if isinstance(v, ast.IfExp):
            flat(v.body, conds + [(key(v.test), True)])
            flat(v.orelse, conds + [(key(v.test), False)])
            return
        if isinstance(v, ast.Call):
            slots = [("a", i) for i, a in enumerate(v.args) if isinstance(a, ast.IfExp)] + [("k", i) for i, k in enumerate(v.keywords) if isinstance(k.value, ast.IfExp)]
            others = [a for a in v.args if not isinstance(a, ast.IfExp)] + [k.value for k in v.keywords if not isinstance(k.value, ast.IfExp)]
            if len(slots) == 1 and all(plain(o) for o in others) and plain(v.func):
                kind, i = slots[0]
                cond = v.args[i] if kind == "a" else v.keywords[i].value
                for branch, pol in ((cond.body, True), (cond.orelse, False)):
                    w = copy.deepcopy(v)
                    if kind == "a":
                        w.args[i] = copy.deepcopy(branch)
                    else:
                        w.keywords[i].value = copy.deepcopy(branch)
                    flat(w, conds + [(key(cond.test), pol)])
                return
        out.append((ast.unparse(v) if v is not None else "None", conds))
    for r in walk_no_nested(fnode):
        if isinstance(r, ast.Return):
            flat(r.value, [(key(t), p) for t, p in scope.path_guards(r)])
    return out


def list_events(scope, name, key=None):
    """How a local list is built, in program order: [(kind, element keys or expression key, guards)] with kind
    'set' (plain assignment), 'prepend' (L = [a]+L / L.insert(0, a)), 'append' (L = L+[b] / L += [b] / L.append(b) / L.extend([b])),
    'extend' (L.extend(E) / L += E / L = L + E for a non-display E), 'other'."""
    key = key or (lambda t: ast.unparse(t))
    ev = []

    def elems(v):
        return [key(e) for e in v.elts] if isinstance(v, ast.List) else None
    for node in ast.walk(scope.fi.node):
        if scope._inside_nested(node):
            continue
        g = None
        if isinstance(node, ast.Assign) and len(node.targets) == 1 and isinstance(node.targets[0], ast.Name) and node.targets[0].id == name:
            v = node.value
            g = [(ast.unparse(t), p) for t, p in scope.guards(node)]
            if isinstance(v, ast.BinOp) and isinstance(v.op, ast.Add) and isinstance(v.right, ast.Name) and v.right.id == name and elems(v.left) is not None:
                ev.append((scope.order[node], "prepend", elems(v.left), g))
            elif isinstance(v, ast.BinOp) and isinstance(v.op, ast.Add) and isinstance(v.left, ast.Name) and v.left.id == name:
                ev.append((scope.order[node], "append" if elems(v.right) is not None else "extend", elems(v.right) if elems(v.right) is not None else key(v.right), g))
            else:
                ev.append((scope.order[node], "set", key(v), g))
        elif isinstance(node, ast.AugAssign) and isinstance(node.target, ast.Name) and node.target.id == name and isinstance(node.op, ast.Add):
            g = [(ast.unparse(t), p) for t, p in scope.guards(node)]
            v = node.value
            ev.append((scope.order[node], "append" if elems(v) is not None else "extend", elems(v) if elems(v) is not None else key(v), g))
        elif isinstance(node, ast.Call) and isinstance(node.func, ast.Attribute) and isinstance(node.func.value, ast.Name) and node.func.value.id == name \
                and node.func.attr in MUTATORS:
            g = [(ast.unparse(t), p) for t, p in scope.guards(node)]
            a = node.args
            loop_form = None
            if node.func.attr == "append" and len(a) == 1:
                # `for e in L: X.append(f(e))` as the loop's only statement is X.extend([f(e) for e in L])
                st = scope.stmt_of(node)
                owner = scope.block_of.get(st, (None, None))[0]
                conds = []
                if isinstance(owner, ast.If) and not owner.orelse and owner.body == [st]:
                    conds, st2 = [owner.test], owner
                    owner = scope.block_of.get(owner, (None, None))[0]
                else:
                    st2 = st
                if isinstance(owner, ast.For) and not owner.orelse and owner.body == [st2] and isinstance(st, ast.Expr) and st.value is node \
                        and not any(isinstance(x, ast.Name) and x.id == name for part in [a[0], owner.iter] + conds for x in ast.walk(part)):
                    loop_form = ast.ListComp(elt=a[0], generators=[ast.comprehension(target=owner.target, iter=owner.iter, ifs=conds, is_async=0)])
                    g = [(ast.unparse(t), p) for t, p in scope.guards(owner)]
            if loop_form is not None:
                ev.append((scope.order[node], "extend", key(loop_form), g))
            elif node.func.attr == "append" and len(a) == 1:
                ev.append((scope.order[node], "append", [key(a[0])], g))
            elif node.func.attr == "extend" and len(a) == 1:
                ev.append((scope.order[node], "append" if elems(a[0]) is not None else "extend", elems(a[0]) if elems(a[0]) is not None else key(a[0]), g))
            elif node.func.attr == "insert" and len(a) == 2 and isinstance(a[0], ast.Constant) and a[0].value == 0:
                ev.append((scope.order[node], "prepend", [key(a[1])], g))
            else:
                ev.append((scope.order[node], "other", ast.unparse(node), g))
    ev.sort(key=lambda e: e[0])
    return [(k, v, g) for _, k, v, g in ev]


def parse_expr(text):
    try:
        return ast.parse(text, mode="eval").body
    except SyntaxError as e:
        raise AnalysisError("internal: bad expected expression %r: %s" % (text, e))


def expected(text, **bind):
    """Normal form of a rule-side expected expression (no alias expansion)."""
    n = Norm(None, bind={k: (v if isinstance(v, Poly) else Poly.atom(v) if isinstance(v, str) else Poly.const(v)) for k, v in bind.items()})
    return n.poly(parse_expr(text))
