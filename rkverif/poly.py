"""Multivariate Laurent polynomials with exact rational coefficients over opaque atoms.

This is the normal form used everywhere in the checker to compare index
expressions, step lengths, Butcher tableaux and dense-output coefficients
*up to algebraic rewriting*: two source expressions are "the same" when their
normal forms are equal, never when their text is equal.

A monomial is a sorted tuple of (atom_key, exponent) pairs with non-zero integer
exponents; a polynomial is a dict monomial -> Fraction.  Division is only
defined by a monomial (a single term); anything else must be turned into an
atom by the caller.
"""
from fractions import Fraction


class NotMonomial(Exception):
    pass


def _mono_mul(a, b):
    d = dict(a)
    for k, e in b:
        d[k] = d.get(k, 0) + e
    return tuple(sorted((k, e) for k, e in d.items() if e != 0))


class Poly:
    __slots__ = ("t",)

    def __init__(self, terms=None):
        self.t = {m: Fraction(c) for m, c in (terms or {}).items() if c != 0}

    # -- constructors -----------------------------------------------------
    @staticmethod
    def const(c):
        return Poly({(): Fraction(c)})

    @staticmethod
    def atom(key, exp=1):
        return Poly({((key, exp),): Fraction(1)})

    # -- queries ----------------------------------------------------------
    def is_zero(self):
        return not self.t

    def is_const(self):
        return all(m == () for m in self.t)

    def const_value(self):
        if not self.is_const():
            raise ValueError("not constant: %s" % self)
        return self.t.get((), Fraction(0))

    def atoms(self):
        s = set()
        for m in self.t:
            for k, _ in m:
                s.add(k)
        return s

    def is_monomial(self):
        return len(self.t) == 1

    def is_single_atom(self):
        """Return the atom key if this is exactly 1*atom^1, else None."""
        if len(self.t) == 1:
            (m, c), = self.t.items()
            if c == 1 and len(m) == 1 and m[0][1] == 1:
                return m[0][0]
        return None

    def coeff(self, key, exp=1):
        """Coefficient polynomial of atom^exp, treating self as a polynomial in `key`."""
        out = {}
        for m, c in self.t.items():
            d = dict(m)
            if d.get(key, 0) == exp:
                d.pop(key, None)
                mm = tuple(sorted(d.items()))
                out[mm] = out.get(mm, 0) + c
        return Poly(out)

    def without(self, key):
        """Part not involving atom `key`."""
        return Poly({m: c for m, c in self.t.items() if key not in dict(m)})

    def degree_in(self, key):
        ds = [dict(m).get(key, 0) for m in self.t]
        return (min(ds), max(ds)) if ds else (0, 0)

    def linear_in(self, keys):
        """If self == sum_i c_i*key_i + rest (c_i, rest free of all keys) return (dict key->Poly, rest) else None."""
        keys = set(keys)
        coefs, rest = {}, {}
        for m, c in self.t.items():
            hit = [(k, e) for k, e in m if k in keys]
            if not hit:
                rest[m] = c
                continue
            if len(hit) != 1 or hit[0][1] != 1:
                return None
            k = hit[0][0]
            mm = tuple(x for x in m if x[0] != k)
            coefs.setdefault(k, {})
            coefs[k][mm] = coefs[k].get(mm, 0) + c
        return {k: Poly(v) for k, v in coefs.items()}, Poly(rest)

    # -- arithmetic -------------------------------------------------------
    def _coerce(self, o):
        if isinstance(o, Poly):
            return o
        return Poly.const(o)

    def __add__(self, o):
        o = self._coerce(o)
        d = dict(self.t)
        for m, c in o.t.items():
            d[m] = d.get(m, 0) + c
        return Poly(d)

    __radd__ = __add__

    def __neg__(self):
        return Poly({m: -c for m, c in self.t.items()})

    def __sub__(self, o):
        return self + (-self._coerce(o))

    def __rsub__(self, o):
        return self._coerce(o) - self

    def __mul__(self, o):
        o = self._coerce(o)
        d = {}
        for m1, c1 in self.t.items():
            for m2, c2 in o.t.items():
                m = _mono_mul(m1, m2)
                d[m] = d.get(m, 0) + c1 * c2
        return Poly(d)

    __rmul__ = __mul__

    def content(self):
        """Split self = m * p with m a monomial (incl. rational factor) and p primitive:
        p has no common atom power and its first term (canonical order) has coefficient 1."""
        if not self.t:
            return Poly.const(1), Poly()
        keys = set()
        for m in self.t:
            keys |= {k for k, _ in m}
        common = {}
        for k in keys:
            common[k] = min(dict(m).get(k, 0) for m in self.t)
        mono = tuple(sorted((k, e) for k, e in common.items() if e != 0))
        inv_mono = tuple((k, -e) for k, e in mono)
        red = {}
        for m, c in self.t.items():
            red[_mono_mul(m, inv_mono)] = c
        first = sorted(red.items(), key=lambda x: x[0])[0][1]
        prim = Poly({m: c / first for m, c in red.items()})
        return Poly({mono: first}), prim

    def inv(self):
        if len(self.t) != 1:
            raise NotMonomial(str(self))
        (m, c), = self.t.items()
        return Poly({tuple((k, -e) for k, e in m): 1 / c})

    def __truediv__(self, o):
        return self * self._coerce(o).inv()

    def __pow__(self, n):
        if not isinstance(n, int):
            raise TypeError("integer power only")
        if n < 0:
            return self.inv() ** (-n)
        r = Poly.const(1)
        for _ in range(n):
            r = r * self
        return r

    def subst(self, key, val):
        """Replace atom `key` by polynomial `val` (negative powers need a monomial val)."""
        val = self._coerce(val)
        out = Poly()
        for m, c in self.t.items():
            term = Poly.const(c)
            for k, e in m:
                term = term * ((val ** e) if k == key else Poly.atom(k, e))
            out = out + term
        return out

    def subst_many(self, mapping):
        out = Poly()
        for m, c in self.t.items():
            term = Poly.const(c)
            for k, e in m:
                if k in mapping:
                    term = term * (self._coerce(mapping[k]) ** e)
                else:
                    term = term * Poly.atom(k, e)
            out = out + term
        return out

    # -- identity ---------------------------------------------------------
    def __eq__(self, o):
        if not isinstance(o, Poly):
            try:
                o = Poly.const(o)
            except Exception:
                return NotImplemented
        return self.t == o.t

    def __ne__(self, o):
        r = self.__eq__(o)
        return r if r is NotImplemented else not r

    def __hash__(self):
        return hash(frozenset(self.t.items()))

    def __bool__(self):
        return bool(self.t)

    def __str__(self):
        if not self.t:
            return "0"
        parts = []
        for m, c in sorted(self.t.items(), key=lambda x: (x[0], x[1])):
            ms = "*".join(k if e == 1 else "%s^%d" % (k, e) for k, e in m)
            if not ms:
                parts.append(str(c))
            elif c == 1:
                parts.append(ms)
            elif c == -1:
                parts.append("-" + ms)
            else:
                parts.append("%s*%s" % (c, ms))
        return " + ".join(parts)

    __repr__ = __str__
