"""Loop contexts: which loops (and of what kind) enclose a construct."""
import ast

from .poly import Poly

SIZE_ATOMS = {"self.N": "N", "self.M": "M", "self.degree": "d",
              "stage._method.N": "N", "stage._method.M": "M", "self._method.N": "N", "self._method.M": "M"}


class LoopInfo:
    def __init__(self, var, kind, bound, iter_node, owner, extra=None):
        self.var, self.kind, self.bound, self.iter_node, self.owner, self.extra = var, kind, bound, iter_node, owner, extra

    def __repr__(self):
        return "<loop %s in %s>" % (self.var, self.kind)


def range_bound(iter_node, norm):
    """If iter is range(E) (or list(range(E))) return the Poly of E, else None.  range(a,b) -> (a,b)."""
    n = iter_node
    if isinstance(n, ast.Call) and isinstance(n.func, ast.Name) and n.func.id == "list" and len(n.args) == 1:
        n = n.args[0]
    if isinstance(n, ast.Call) and isinstance(n.func, ast.Name) and n.func.id == "range":
        if len(n.args) == 1:
            return (Poly.const(0), norm.poly(n.args[0]))
        if len(n.args) == 2:
            return (norm.poly(n.args[0]), norm.poly(n.args[1]))
    return None


def size_kind(p):
    """'N' / 'M' / 'd' when the polynomial is exactly one of the size atoms."""
    k = p.is_single_atom()
    return SIZE_ATOMS.get(k) if k else None


def classify_iter(iter_node, norm):
    """kind, extra:  'N'/'M'/'d' for range(size); 'N+final' for list(range(N))+[-1]; 'final+N' for [-1]+list(range(N));
    'constraints:<grid>[+<grid>]' for loops over stage._constraints[...]; 'range' / 'other'."""
    sc = getattr(norm, "scope", None)
    if isinstance(iter_node, ast.Name) and sc is not None:
        iter_node = sc.list_value(iter_node.id, iter_node) or iter_node
    rb = range_bound(iter_node, norm)
    if rb is not None:
        lo, hi = rb
        if lo == Poly.const(0):
            sk = size_kind(hi)
            if sk:
                return sk, None
        return "range", rb
    if isinstance(iter_node, ast.BinOp) and isinstance(iter_node.op, ast.Add):
        # list(range(self.N)) + [-1]
        rb = range_bound(iter_node.left, norm)
        if rb is not None and rb[0] == Poly.const(0) and size_kind(rb[1]) == "N" and isinstance(iter_node.right, ast.List) \
                and len(iter_node.right.elts) == 1 and norm.poly(iter_node.right.elts[0]) == Poly.const(-1):
            return "N+final", None
        # [-1] + list(range(self.N)): the final node first
        rb = range_bound(iter_node.right, norm)
        if rb is not None and rb[0] == Poly.const(0) and size_kind(rb[1]) == "N" and isinstance(iter_node.left, ast.List) \
                and len(iter_node.left.elts) == 1 and norm.poly(iter_node.left.elts[0]) == Poly.const(-1):
            return "final+N", None
        grids = constraint_grids(iter_node)
        if grids:
            return "constraints", grids
    grids = constraint_grids(iter_node)
    if grids:
        return "constraints", grids
    if isinstance(iter_node, ast.Call) and isinstance(iter_node.func, ast.Name) and iter_node.func.id == "enumerate" and iter_node.args:
        k, e = classify_iter(iter_node.args[0], norm)
        return "enumerate:" + k, e
    return "other", None


def constraint_grids(node):
    """['control','integrator'] for stage._constraints['control']+stage._constraints['integrator'] etc."""
    if isinstance(node, ast.BinOp) and isinstance(node.op, ast.Add):
        a, b = constraint_grids(node.left), constraint_grids(node.right)
        if a and b:
            return a + b
        return None
    if isinstance(node, ast.Subscript) and isinstance(node.value, ast.Attribute) and node.value.attr == "_constraints" \
            and isinstance(node.slice, ast.Constant) and isinstance(node.slice.value, str):
        return [node.slice.value]
    return None


def loop_context(scope, norm, node):
    out = []
    for target, it, owner in scope.enclosing_loops(node):
        if isinstance(it, ast.Name):
            it = scope.list_value(it.id, it) or it
        kind, extra = classify_iter(it, norm)
        if isinstance(target, ast.Name):
            var = target.id
        else:
            var = tuple(e.id if isinstance(e, ast.Name) else ast.unparse(e) for e in getattr(target, "elts", [])) or ast.unparse(target)
        out.append(LoopInfo(var, kind, extra, it, owner, extra))
    return out


def loop_var(ctxs, kind):
    """Name of the innermost loop variable of the given kind, or None."""
    for li in reversed(ctxs):
        if li.kind == kind and isinstance(li.var, str):
            return li.var
    return None


def elementwise_text(scope, node, loop=None):
    """Text of `node` with the bindings of its innermost enclosing `for` loop made explicit as L[@]:
        for a, b in zip(A, B): f(a, b)          -> f(A[@], B[@])
        for i, a in enumerate(A): f(a, B[i])    -> f(A[@], B[@])
        for i in range(len(A)): f(A[i], B[i])   -> f(A[@], B[@])
    Returns (text, lists iterated in full) or None when the header is none of these forms."""
    import copy
    if loop is None:
        loops = [o for (_t, _i, o) in scope.enclosing_loops(node) if isinstance(o, ast.For)]
        if not loops:
            return None
        loop = loops[-1]
    t, it = loop.target, loop.iter
    names, idx, full = {}, None, []
    if isinstance(it, ast.Call) and isinstance(it.func, ast.Name) and it.func.id == "zip" and isinstance(t, ast.Tuple) and len(t.elts) == len(it.args) \
            and all(isinstance(e, ast.Name) for e in t.elts):
        for e, a in zip(t.elts, it.args):
            names[e.id] = ast.unparse(a)
            full.append(ast.unparse(a))
    elif isinstance(it, ast.Call) and isinstance(it.func, ast.Name) and it.func.id == "enumerate" and len(it.args) == 1 and isinstance(t, ast.Tuple) and len(t.elts) == 2 \
            and all(isinstance(e, ast.Name) for e in t.elts):
        idx = t.elts[0].id
        names[t.elts[1].id] = ast.unparse(it.args[0])
        full.append(ast.unparse(it.args[0]))
    elif isinstance(it, ast.Call) and isinstance(it.func, ast.Name) and it.func.id == "range" and len(it.args) == 1 and isinstance(t, ast.Name) \
            and isinstance(it.args[0], ast.Call) and isinstance(it.args[0].func, ast.Name) and it.args[0].func.id == "len" and len(it.args[0].args) == 1:
        idx = t.id
        full.append(ast.unparse(it.args[0].args[0]))
    elif isinstance(t, ast.Name) and not isinstance(it, ast.Call):
        names[t.id] = ast.unparse(it)
        full.append(ast.unparse(it))
    else:
        return None

    class T(ast.NodeTransformer):
        def visit_Subscript(self, n):
            if idx is not None and isinstance(n.slice, ast.Name) and n.slice.id == idx:
                return ast.Subscript(value=self.visit(n.value), slice=ast.Name(id="@", ctx=ast.Load()), ctx=ast.Load())
            return self.generic_visit(n)

        def visit_Name(self, n):
            if n.id in names:
                return ast.Subscript(value=ast.parse(names[n.id], mode="eval").body, slice=ast.Name(id="@", ctx=ast.Load()), ctx=ast.Load())
            return n
    new = T().visit(copy.deepcopy(node))
    return ast.unparse(ast.fix_missing_locations(new)), full
