"""E7b -- AST-computed mutants: one rule instance broken at a time, generated from the *current* tree.

Each operator walks the syntax trees of /repo/rockit and yields small source edits (still valid
Python) that break exactly one instance of a rule family; the thorough tier applies each to a scratch
copy, runs the property's rules and records whether they fire.  This is a test of the checker
(sensitivity of every instance, no vacuous rule), not of rockit; results go to the evidence file and
never change the exit code.
"""
import ast
import os
import shutil
import tempfile
import time
from multiprocessing import Pool

from .model import repo_root, CORE_FILES

VERIF = os.path.dirname(os.path.dirname(os.path.abspath(__file__)))


class Edit:
    def __init__(self, rel, node, new_text, what, props):
        self.rel, self.what, self.props, self.new_text = rel, what, props, new_text
        self.span = (node.lineno, node.col_offset, node.end_lineno, node.end_col_offset)


def apply_edit(src, e):
    lines = src.split("\n")
    l0, c0, l1, c1 = e.span
    # ast columns are utf8 byte offsets; sources are ASCII in practice
    before = lines[l0 - 1][:c0]
    after = lines[l1 - 1][c1:]
    new = (before + e.new_text + after).split("\n")
    return "\n".join(lines[:l0 - 1] + new + lines[l1:])


def parse(root, rel):
    with open(os.path.join(root, rel)) as f:
        src = f.read()
    return src, ast.parse(src)


def functions(tree):
    for cls in tree.body:
        if isinstance(cls, ast.ClassDef):
            for f in cls.body:
                if isinstance(f, ast.FunctionDef):
                    yield cls.name, f
        elif isinstance(cls, ast.FunctionDef):
            yield None, cls


def op_drop_invalidation(root):
    """delete one `self._set_transcribed(False)` statement"""
    for rel in ("rockit/stage.py", "rockit/ocp.py"):
        src, tree = parse(root, rel)
        for cname, f in functions(tree):
            for st in ast.walk(f):
                if isinstance(st, ast.Expr) and isinstance(st.value, ast.Call) and ast.unparse(st.value) == "self._set_transcribed(False)":
                    yield Edit(rel, st, "pass", "%s.%s: invalidation removed" % (cname, f.name), ["C13"])


EVALUATORS = ("eval_at_control", "_eval_at_control", "eval_at_integrator", "eval_at_integrator_root")


def op_shift_slot_index(root):
    """in an evaluator's substitution call, address one slot with a shifted interval index"""
    rel = "rockit/sampling_method.py"
    src, tree = parse(root, rel)
    for cname, f in functions(tree):
        if cname != "SamplingMethod" or f.name not in EVALUATORS:
            continue
        k = f.args.args[3].arg
        for c in ast.walk(f):
            if isinstance(c, ast.Call) and isinstance(c.func, ast.Attribute) and c.func.attr == "_expr_apply":
                for kw in c.keywords:
                    if kw.arg in ("sub", "t0", "T", "v", "p", "signals") or kw.arg is None:
                        continue
                    names = [n for n in ast.walk(kw.value) if isinstance(n, ast.Name) and n.id == k and isinstance(n.ctx, ast.Load)]
                    if not names:
                        continue
                    n0 = names[0]
                    yield Edit(rel, n0, "(%s-1)" % k, "%s slot %s: index %s shifted" % (f.name, kw.arg, k), ["C04", "C07", "C09"])


def op_silence_guard(root):
    """turn one `raise` (or assert) of a guard into a no-op"""
    targets = {
        "rockit/stage.py": ("_param_value", "add_objective", "set_initial", "subject_to", "_sample", "set_der", "set_next", "offset", "signal_shape"),
        "rockit/direct_method.py": ("transcribe", "main_transcribe", "subject_to", "set_value"),
        "rockit/sampling_method.py": ("intg_rk", "intg_expl_euler", "discrete_system", "set_value"),
        "rockit/casadi_helpers.py": ("for_all_primitives", "reinterpret_expr"),
    }
    for rel, names in targets.items():
        src, tree = parse(root, rel)
        for cname, f in functions(tree):
            if f.name not in names:
                continue
            for st in ast.walk(f):
                if isinstance(st, ast.Raise) and st.exc is not None and not (isinstance(st.exc, ast.Name)):
                    if "IndexError" in ast.unparse(st.exc):
                        continue
                    yield Edit(rel, st, "pass", "%s.%s: `%s` silenced" % (cname, f.name, ast.unparse(st)[:40]), ["C20"])
                elif isinstance(st, ast.Assert) and f.name in ("intg_rk", "intg_expl_euler", "set_der", "set_next", "add_objective", "set_value"):
                    yield Edit(rel, st, "pass", "%s.%s: `%s` silenced" % (cname, f.name, ast.unparse(st)[:40]), ["C20"])


def op_widen_handler(root):
    """except IndexError -> except Exception around a placement"""
    for rel in ("rockit/multiple_shooting.py", "rockit/single_shooting.py", "rockit/direct_collocation.py", "rockit/sampling_method.py"):
        src, tree = parse(root, rel)
        for cname, f in functions(tree):
            for h in ast.walk(f):
                if isinstance(h, ast.ExceptHandler) and h.type is not None and ast.unparse(h.type) == "IndexError":
                    yield Edit(rel, h.type, "Exception", "%s.%s: IndexError handler widened" % (cname, f.name), ["C04"])


def op_placement_flag(root):
    """negate one include_first / include_last test of a placement loop"""
    for rel in ("rockit/multiple_shooting.py", "rockit/single_shooting.py", "rockit/direct_collocation.py"):
        src, tree = parse(root, rel)
        for cname, f in functions(tree):
            if f.name != "add_constraints":
                continue
            for st in ast.walk(f):
                if isinstance(st, ast.If) and any(isinstance(x, ast.Continue) for x in st.body):
                    for n in ast.walk(st.test):
                        if isinstance(n, ast.UnaryOp) and isinstance(n.op, ast.Not) and "include_" in ast.unparse(n.operand):
                            yield Edit(rel, n, ast.unparse(n.operand), "%s.add_constraints: `%s` negated" % (cname, ast.unparse(n)), ["C04"])


def op_scale_side(root):
    """in the scaled-constraint rebuild, stop dividing one side"""
    rel = "rockit/direct_method.py"
    src, tree = parse(root, rel)
    for cname, f in functions(tree):
        if f.name != "transcribe_placeholders":
            continue
        for st in ast.walk(f):
            if isinstance(st, ast.Assign) and isinstance(st.value, ast.BinOp) and isinstance(st.value.op, ast.Div) and ast.unparse(st.value.right) == "scale":
                yield Edit(rel, st.value, ast.unparse(st.value.left), "transcribe_placeholders: `%s` no longer divided by scale" % ast.unparse(st.targets[0]), ["C14"])


def op_clone_alias(root):
    """clone(): share one container with the template instead of copying it"""
    rel = "rockit/stage.py"
    src, tree = parse(root, rel)
    for cname, f in functions(tree):
        if f.name != "clone":
            continue
        for st in ast.walk(f):
            if isinstance(st, ast.Assign) and isinstance(st.value, ast.Call) and ast.unparse(st.value.func) in ("copy", "deepcopy") and \
                    ast.unparse(st.targets[0]).startswith("ret.") and ast.unparse(st.targets[0]) not in ("ret._T", "ret._t0"):
                yield Edit(rel, st.value, ast.unparse(st.value.args[0]), "clone: %s aliased" % ast.unparse(st.targets[0]), ["C12"])


def op_tableau(root):
    """perturb one coefficient of the explicit schemes"""
    rel = "rockit/sampling_method.py"
    src, tree = parse(root, rel)
    for cname, f in functions(tree):
        if f.name not in ("intg_rk",):
            continue
        for st in f.body:
            if isinstance(st, ast.Assign) and isinstance(st.targets[0], ast.Name) and st.targets[0].id[:1] == "k" and st.targets[0].id[1:].isdigit():
                props = ["C01", "C03"]       # stage definitions: the tableau
            elif isinstance(st, ast.Return):
                props = ["C01", "C03", "C08"]  # xf / qf weights
            elif isinstance(st, ast.Assign):
                props = ["C08"]              # dense-output coefficients
            else:
                continue
            for n in ast.walk(st):
                if isinstance(n, ast.Constant) and isinstance(n.value, int) and not isinstance(n.value, bool) and n.value in (2, 4, 6, 24):
                    yield Edit(rel, n, str(n.value + 1), "intg_rk: constant %d -> %d at line %d col %d" % (n.value, n.value + 1, n.lineno, n.col_offset), props)


OPERATORS = [op_drop_invalidation, op_shift_slot_index, op_silence_guard, op_widen_handler, op_placement_flag, op_scale_side, op_clone_alias, op_tableau]


def generate(root):
    out = []
    for op in OPERATORS:
        try:
            for e in op(root):
                e.op = op.__name__
                out.append(e)
        except (OSError, SyntaxError, IndexError):
            continue
    return out


def _run_one(args):
    pid, root, rel, span, new_text, what = args
    import sys
    sys.setrecursionlimit(20000)
    from .core import run_property
    tmp = tempfile.mkdtemp(prefix="rkverif_mut_")
    try:
        shutil.copytree(os.path.join(root, "rockit"), os.path.join(tmp, "rockit"), ignore=shutil.ignore_patterns("__pycache__", "*.pyc"))
        p = os.path.join(tmp, rel)
        src = open(p).read()
        e = Edit.__new__(Edit)
        e.span, e.new_text = span, new_text
        new = apply_edit(src, e)
        try:
            compile(new, p, "exec")
        except SyntaxError:
            return (what, "invalid")
        if new == src:
            return (what, "noop")
        open(p, "w").write(new)
        try:
            code, ctx, newf, known = run_property(pid, "quick", 0, root=tmp, write=False, quiet=True)
        except Exception as ex:
            return (what, "error: %s" % str(ex)[:80])
        return (what, "killed" if code == 1 else ("analysis-error" if code == 2 else "survived"), sorted({f.rule for f in newf})[:4])
    finally:
        shutil.rmtree(tmp, ignore_errors=True)


def run_for(pid, jobs=8):
    t0 = time.time()
    root = repo_root()
    edits = [e for e in generate(root) if pid in e.props]
    tasks = [(pid, root, e.rel, e.span, e.new_text, "%s | %s" % (e.op, e.what)) for e in edits]
    if not tasks:
        return {"generated": 0}
    if len(tasks) > 4 and jobs > 1:
        with Pool(min(jobs, len(tasks))) as pool:
            results = pool.map(_run_one, tasks)
    else:
        results = [_run_one(t) for t in tasks]
    res = {"generated": len(tasks), "killed": 0, "survived": [], "invalid": 0, "analysis_error": [], "samples": [], "wall_s": 0}
    for r in results:
        what, outcome = r[0], r[1]
        if outcome == "killed":
            res["killed"] += 1
            if len(res["samples"]) < 12:
                res["samples"].append({"mutant": what, "rules": r[2]})
        elif outcome == "survived":
            res["survived"].append(what)
        elif outcome in ("invalid", "noop"):
            res["invalid"] += 1
        else:
            res["analysis_error"].append(what + " -> " + outcome)
    res["wall_s"] = round(time.time() - t0, 2)
    return res
