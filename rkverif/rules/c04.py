"""C04 -- every constraint is imposed exactly where declared, and nothing else is.

Decided: grid-kind coverage (placed or rejected by every method), placement domains with their
skip conditions (include_first/include_last) evaluated as truth tables, evaluator/indices/expression
pass-through, drop discipline (only IndexError, only out-of-horizon shifts: the shift semantics of
eval_at_control is instantiated over all nodes and offsets), before/after complementarity,
classification in subject_to, an inventory of every NLP constraint site, the store-once /
replay-once discipline of OptiWrapper, and the evaluators' slot tables.
Not decided: numeric bounds; the residual functions themselves.
"""
import ast
import re

from ..core import rule
from ..model import AnalysisError, nested_functions
from ..norm import Norm, expected
from ..poly import Poly
from ..paths import must_on_all_paths, walk_no_nested, describe_exit, Walker, const_guard
from ..loops import loop_context, loop_var, constraint_grids
from ..effects import is_call_to
from ..ceval import ceval, Unknown, specialise
from .. import slots as S

LEVEL = "other"

METHODS = ["MultipleShooting", "SingleShooting", "DirectCollocation", "SplineMethod"]
GENERIC = ["MultipleShooting", "SingleShooting", "DirectCollocation"]
EVALUATORS = {"eval_at_control": 1, "eval_at_integrator": 2, "eval_at_integrator_root": 3}


def accepted_grids(ctx):
    f = ctx.prog.own_method("Stage", "subject_to")
    for n in walk_no_nested(f.node):
        if isinstance(n, ast.Compare) and len(n.ops) == 1 and isinstance(n.ops[0], ast.NotIn) and isinstance(n.comparators[0], (ast.List, ast.Tuple)):
            vals = [e.value for e in n.comparators[0].elts if isinstance(e, ast.Constant)]
            if vals and all(isinstance(v, str) for v in vals):
                return f, n, vals
    raise AnalysisError("Stage.subject_to: list of accepted grid names not found")


def is_subject_to(c):
    return isinstance(c, ast.Call) and isinstance(c.func, ast.Attribute) and c.func.attr == "subject_to" and \
        ast.unparse(c.func.value) in ("opti", "self.opti", "stage", "self", "Opti")


def method_closure(ctx, cname):
    """Functions of the method family reachable from <cname>.transcribe (self-calls only)."""
    prog = ctx.prog
    entry = prog.method(cname, "transcribe")
    seen, _ = prog.reachable([entry], concrete=cname, max_depth=6,
                             stop=lambda f: f.cls is None or "DirectMethod" not in [c.name for c in prog.mro(f.cls.name)])
    return [f for f in seen.values() if f.cls is not None and "DirectMethod" in [c.name for c in prog.mro(f.cls.name)]]


def dispositions(ctx, cname):
    """grid -> set of {'placed','rejected'} with witnesses."""
    out = {}
    for f in method_closure(ctx, cname):
        sc = ctx.scope(f)
        has_place = any(is_subject_to(c) or is_call_to(c, "add_inf_constraints") for c in walk_no_nested(f.node))
        for n in walk_no_nested(f.node):
            if isinstance(n, ast.For):
                grids = constraint_grids(n.iter)
                if grids:
                    inner = any(is_subject_to(c) or is_call_to(c, "add_inf_constraints") for c in ast.walk(n))
                    if inner or (has_place and cname == "SplineMethod"):
                        for g in grids:
                            out.setdefault(g, {}).setdefault("placed", (f, n))
            # rejections
            if isinstance(n, ast.Assert):
                t = n.test
                if isinstance(t, ast.Compare) and len(t.ops) == 1 and isinstance(t.ops[0], ast.NotIn) and isinstance(t.left, ast.Constant) \
                        and ast.unparse(t.comparators[0]).endswith("_constraints"):
                    out.setdefault(t.left.value, {}).setdefault("rejected", (f, n))
                if isinstance(t, ast.UnaryOp) and isinstance(t.op, ast.Not) and constraint_grids(t.operand):
                    for g in constraint_grids(t.operand):
                        out.setdefault(g, {}).setdefault("rejected", (f, n))
            if isinstance(n, ast.If) and any(isinstance(s, ast.Raise) for s in n.body):
                grids = constraint_grids(n.test)
                if not grids and isinstance(n.test, ast.Compare) and len(n.test.ops) == 1 and isinstance(n.test.ops[0], ast.In) \
                        and isinstance(n.test.left, ast.Constant) and ast.unparse(n.test.comparators[0]).endswith("_constraints"):
                    grids = [n.test.left.value]
                if not grids and isinstance(n.test, ast.Call) and ast.unparse(n.test.func) == "len" and n.test.args:
                    grids = constraint_grids(n.test.args[0])
                for g in grids or []:
                    out.setdefault(g, {}).setdefault("rejected", (f, n))
    return out


@rule("R04.1", min_instances=20, desc="kind coverage: every grid accepted by subject_to is placed or rejected by every method (never silently ignored)")
def r04_1(ctx):
    f, node, grids = accepted_grids(ctx)
    ctx.note("accepted_grids", grids)
    for cname in METHODS:
        d = dispositions(ctx, cname)
        g0 = ctx.prog.method(cname, "add_constraints")
        for g in grids:
            disp = d.get(g, {})
            ctx.check(bool(disp), "%s x grid='%s'" % (cname, g), detail="constraint kind silently ignored",
                      expected="constraints of this grid are placed (loop with opti.subject_to) or rejected (raise/assert)",
                      found="accepted by Stage.subject_to, never read by %s" % cname, fi=g0,
                      sample={"disposition": sorted(disp)})


class Site:
    pass


def placement_sites(ctx, cname):
    """subject_to(<self.eval_at_*(stage, c, ...)>) sites of the generic methods."""
    prog = ctx.prog
    f = prog.method(cname, "add_constraints")
    n = ctx.norm(f)
    sc = ctx.scope(f)
    out = []
    for c in walk_no_nested(f.node):
        if not is_subject_to(c) or not c.args:
            continue
        a = c.args[0]
        if not (isinstance(a, ast.Call) and isinstance(a.func, ast.Attribute) and a.func.attr in EVALUATORS and ast.unparse(a.func.value) == "self"):
            continue
        s = Site()
        s.f, s.call, s.ev, s.evaluator = f, c, a, a.func.attr
        s.lc = loop_context(sc, n, c)
        s.cons = [li for li in s.lc if li.kind == "constraints"]
        s.grids = s.cons[-1].extra if s.cons else []
        s.cvars = s.cons[-1].var if s.cons and isinstance(s.cons[-1].var, tuple) else (None, None, None)
        s.kinds = [li.kind for li in s.lc if li.kind != "constraints"]
        s.idx = [n.poly(x) for x in a.args[2:]]
        s.expr = ast.unparse(a.args[1]) if len(a.args) > 1 else None
        s.stage = ast.unparse(a.args[0]) if a.args else None
        # skip conditions: `if T: continue` earlier in the constraint loop body + enclosing ifs
        s.skips = []
        s.guards = [(t, p) for t, p in sc.guards(c)]
        if s.cons:
            owner = s.cons[-1].owner
            for st in owner.body:
                if sc.order[st] < sc.order[c] and isinstance(st, ast.If) and any(isinstance(x, ast.Continue) for x in st.body) and not st.orelse:
                    s.skips.append(st.test)
        # try wrapper
        s.tries = []
        p = sc.parent.get(c)
        while p is not None and p is not f.node:
            if isinstance(p, ast.Try):
                s.tries.append(p)
            p = sc.parent.get(p)
        s.kw = {kw.arg: ast.unparse(kw.value) for kw in c.keywords}
        out.append(s)
    return f, n, sc, out


def skip_table(site, names, combos):
    """Evaluate the site's skip conditions + guards for each combination; returns list of (combo, placed?) or None if unknown."""
    res = []
    for combo in combos:
        env = dict(zip(names, combo))
        placed = True
        try:
            for t in site.skips:
                if ceval(t, env):
                    placed = False
            for t, pol in site.guards:
                if bool(ceval(t, env)) != pol:
                    placed = False
        except Unknown as e:
            return None, str(e)
        res.append((combo, placed))
    return res, None


@rule("R04.2", min_instances=14, desc="placement domain: each path constraint is placed once per point of its grid, skipped only as include_first/include_last say; evaluator, indices and expression are the loop's own (R04.3, R04.4)")
def r04_2(ctx):
    for cname in GENERIC:
        f, n, sc, sites = placement_sites(ctx, cname)
        roles = {}
        for s in sites:
            final = s.idx and s.idx[0] == Poly.const(-1)
            for g in s.grids:
                role = (g, "final" if final else "interior")
                roles.setdefault(role, []).append(s)
        want_roles = [("control", "interior"), ("control", "final"), ("integrator", "interior"), ("integrator", "final")]
        if cname == "DirectCollocation":
            want_roles.append(("integrator_roots", "interior"))
        for role in want_roles:
            got = roles.get(role, [])
            ctx.check(len(got) == 1, "%s %s/%s placement" % (cname, role[0], role[1]), detail="placed %d times" % len(got),
                      expected="exactly one placement site", found="%d site(s): %s" % (len(got), "; ".join("line %d" % s.call.lineno for s in got)),
                      fi=f, node=(got[0].call if got else f.node))
        for role, got in sorted(roles.items()):
            if role not in want_roles:
                for s in got:
                    ctx.fail("%s %s/%s placement" % (cname, role[0], role[1]), detail="unexpected placement site",
                             expected="no such site", found=ast.unparse(s.call), fi=f, node=s.call)
        for s in sites:
            final = s.idx and s.idx[0] == Poly.const(-1)
            c, meta, args = (list(s.cvars) + [None, None, None])[:3]
            label = "%s line-role %s/%s" % (cname, "+".join(s.grids), "final" if final else "interior")
            # R04.4 pass-through and R04.3 evaluator/indices
            ctx.check(s.expr == c and s.stage == "stage", label + " expression", detail="placed expression is not the declared one",
                      expected="%s(stage, %s, ...)" % (s.evaluator, c), found=ast.unparse(s.ev), fi=f, node=s.call)
            if final:
                ctx.check(s.evaluator == "eval_at_control" and len(s.idx) == 1 and not s.kinds, label + " evaluator",
                          detail="final instance not evaluated at the final node", expected="eval_at_control(stage, c, -1) outside the k loop",
                          found="%s in loops %s" % (ast.unparse(s.ev), s.kinds), fi=f, node=s.call)
                names = ["%s['include_last']" % args]
                table, err = skip_table(s, names, [(True,), (False,)])
                ok = table is not None and all(placed == combo[0] for combo, placed in table)
                ctx.check(ok, label + " domain", detail="final instance not governed by include_last alone",
                          expected="placed iff include_last", found=err or str(table), fi=f, node=s.call, sample={"table": str(table)})
            else:
                kv, lv, jv = loop_var(s.lc, "N"), loop_var(s.lc, "M"), loop_var(s.lc, "d")
                if s.evaluator == "eval_at_control":
                    okidx = s.kinds == ["N"] and s.idx == [Poly.atom(kv)] and s.grids == ["control"]
                    names = [kv, "%s['include_first']" % args]
                    combos = [(k, inc) for k in (0, 1, 2) for inc in (True, False)]
                    want = lambda combo: not (combo[0] == 0 and not combo[1])
                elif s.evaluator == "eval_at_integrator":
                    okidx = s.kinds == ["N", "M"] and s.idx == [Poly.atom(kv), Poly.atom(lv)] and s.grids == ["integrator"]
                    names = [kv, lv, "%s['include_first']" % args]
                    combos = [(k, l, inc) for k in (0, 1) for l in (0, 1) for inc in (True, False)]
                    want = lambda combo: not (combo[0] == 0 and combo[1] == 0 and not combo[2])
                else:
                    okidx = s.kinds == ["N", "M", "d"] and s.idx == [Poly.atom(kv), Poly.atom(lv), Poly.atom(jv)] and s.grids == ["integrator_roots"]
                    # the only point of this grid that include_last can refer to is a collocation time that coincides with tf:
                    # the last root of the last step of the last interval, when the scheme has a root at 1 (Radau) - D92
                    names = [kv, lv, jv, "%s['include_last']" % args, "self.tau[-1]", "self.N", "self.M", "self.degree"]
                    combos = [(k, l, j, inc, tau, 2, 2, 2) for k in (0, 1) for l in (0, 1) for j in (0, 1) for inc in (True, False) for tau in (1, 0.9)]
                    want = lambda combo: not (not combo[3] and combo[0] == 1 and combo[1] == 1 and combo[2] == 1 and combo[4] == 1)
                ctx.check(okidx, label + " evaluator", detail="evaluator does not receive the loop's own indices",
                          expected="evaluator of the grid with (k[, i[, j]]) from range(N)[, range(M)[, range(degree)]]",
                          found="%s in loops %s over %s" % (ast.unparse(s.ev), s.kinds, s.grids), fi=f, node=s.call)
                table, err = skip_table(s, names, combos)
                ok = table is not None and all(placed == want(combo) for combo, placed in table)
                ctx.check(ok, label + " domain", detail="instances skipped or kept against include_first / include_last",
                          expected="every index tuple placed, except the very first point when not include_first (roots: the root at tf when not include_last)",
                          found=err or str([(c2, p) for c2, p in table if p != want(c2)]), fi=f, node=s.call,
                          sample={"names": names, "table": str(table)})
            # scale / meta pass-through of the same tuple (scale itself belongs to C14)
            ctx.check(s.kw.get("meta") == meta, label + " meta", detail="metadata of another constraint", expected="meta=%s" % meta,
                      found=str(s.kw.get("meta")), fi=f, node=s.call)


@rule("R04.5", min_instances=10, desc="drop discipline: a placement is only dropped on IndexError, raised only for a shifted node outside the horizon")
def r04_5(ctx):
    prog = ctx.prog
    for cname in GENERIC:
        f, n, sc, sites = placement_sites(ctx, cname)
        for s in sites:
            for t in s.tries:
                ok = len(t.body) == 1 and len(t.handlers) == 1 and t.handlers[0].type is not None and ast.unparse(t.handlers[0].type) == "IndexError" \
                    and all(isinstance(x, ast.Pass) for x in t.handlers[0].body) and not t.orelse and not t.finalbody
                ctx.check(ok, "%s try around %s placement" % (cname, "+".join(s.grids)), detail="placement failure swallowed too widely",
                          expected="try: <single subject_to> except IndexError: pass",
                          found="handlers %s, %d statements in try" % ([ast.unparse(h.type) if h.type else "bare" for h in t.handlers], len(t.body)),
                          fi=f, node=t)
            if s.evaluator != "eval_at_control":
                ctx.check(not s.tries, "%s %s placement is not droppable" % (cname, "+".join(s.grids)), detail="non-shiftable placement inside try",
                          expected="no try", found="try at line %d" % (s.tries[0].lineno if s.tries else 0), fi=f, node=s.call)
    # all other handlers in add_constraints of the generic methods, and in the inf-certificate placement
    for cname in GENERIC + ["inf"]:
        f = prog.method(cname, "add_constraints") if cname != "inf" else prog.own_method("SamplingMethod", "add_inf_constraints")
        for t in [x for x in walk_no_nested(f.node) if isinstance(x, ast.Try)]:
            for h in t.handlers:
                ctx.check(h.type is not None and ast.unparse(h.type) == "IndexError", "%s handler" % f.qualname,
                          detail="broad exception handler on the placement path", expected="except IndexError",
                          found="except %s" % (ast.unparse(h.type) if h.type else "<bare>"), fi=f, node=h)


@rule("R04.11", min_instances=40, desc="shift semantics of next/prev/offset: an instance is dropped iff a shifted node is outside [0,N]; otherwise every operand is evaluated at node+offset (final node = alias -1 = node N) - decided on simulated calls of eval_at_control for N = 1..3, every node, single offsets -3..3 and mixed pairs")
def r04_11(ctx):
    """SamplingMethod.eval_at_control is *run* up to the point where the shifted operands have been resolved (the run is cut at the
    first call that belongs to the un-shifted evaluation).  Scenario: the expression contains one placeholder symbol per offset of
    the case; stage._offsets maps it to (operand, offset); self._eval_at_control(stage, operand, node) records the node."""
    from ..sim import Sim, fresh_obj
    from ..layout import Sym, LayoutUnknown, freeze
    P = ctx.prog
    f = P.own_method("SamplingMethod", "eval_at_control")
    raises = [r for r in walk_no_nested(f.node) if isinstance(r, ast.Raise)]
    ctx.check(bool(raises) and all(r.exc is not None and ast.unparse(r.exc).startswith("IndexError") for r in raises), "eval_at_control raises IndexError for dropped instances", detail="wrong exception type",
              expected="IndexError", found=str([ast.unparse(r.exc) if r.exc else None for r in raises]), fi=f)

    class _Cut(Exception):
        pass

    def h_defaultdict(s_, r, a, k, n):
        import collections
        from ..sim import Closure
        fac = n.args[0] if n.args else None
        if fac is None:
            return collections.defaultdict(lambda: None)
        if isinstance(fac, ast.Name) and fac.id in ("list", "dict"):
            return collections.defaultdict(list if fac.id == "list" else dict)
        if isinstance(fac, ast.Name) and fac.id in P.classes:
            # a helper class of the repository as the factory: instances are built by the simulator
            make = ast.Call(func=ast.Name(id=fac.id, ctx=ast.Load()), args=[], keywords=[])
            return collections.defaultdict(lambda: s_.ev(make, {}, f))
        if a and isinstance(a[0], Closure):
            return collections.defaultdict(lambda a0=a[0]: s_.call_closure(a0, [], {}))
        return NotImplemented

    def cut(*a):
        raise _Cut()
    bad_drop, bad_idx, cases = [], [], 0
    for NN in (1, 2, 3):
        for kk in [-1] + list(range(NN)):
            node = NN if kk == -1 else kk
            for offs in [(o,) for o in range(-3, 4)] + [(-1, 1), (1, -1), (-2, 1), (2, -1), (0, 1), (-1, 0)]:
                syms = [fresh_obj("s%d" % q, off=o) for q, o in enumerate(offs)]
                table = {freeze(sy): (Sym("operand", q), o) for q, (sy, o) in enumerate(zip(syms, offs))}
                got = []
                hooks = {"symvar": lambda s_, r, a, k, n, syms=syms: list(syms), "ca.symvar": lambda s_, r, a, k, n, syms=syms: list(syms),
                         "._eval_at_control": lambda s_, r, a, k, n, got=got: (got.append((freeze(a[1]), a[2])), Sym("shifted", freeze(a[1]), a[2]))[1],
                         "vvcat": lambda s_, r, a, k, n: list(a[0]) if a and isinstance(a[0], (list, tuple)) else NotImplemented,
                         "defaultdict": h_defaultdict,
                         ".get_DT_control_at": cut, ".get_DT_at": cut, "._expr_apply": cut}
                sim = Sim(P, hooks=hooks)
                me = fresh_obj("self", N=NN, M=1, Q=[], q=0, U=[Sym("U", q) for q in range(NN)], X=[Sym("X", q) for q in range(NN + 1)])
                stage = fresh_obj("stage", _offsets=table)
                outcome = None
                try:
                    sim.call(f, [me, stage, Sym("expr"), kk], {})
                    outcome = "completed"
                except _Cut:
                    outcome = "kept"
                except LayoutUnknown as e:
                    if str(e).startswith("raise reached"):
                        outcome = "dropped"
                    else:
                        raise AnalysisError("eval_at_control could not be simulated (N=%d k=%d offsets=%s): %s" % (NN, kk, offs, e))
                if outcome == "completed":
                    raise AnalysisError("eval_at_control: the simulated run did not reach the un-shifted evaluation (anchor moved?)")
                cases += 1
                want_drop = any(not (0 <= node + o <= NN) for o in offs)
                if (outcome == "dropped") != want_drop:
                    bad_drop.append((NN, kk, offs, outcome))
                    continue
                if not want_drop:
                    nodes = sorted((q_, n_) for (q_, n_) in [(t[0], t[1]) for t in got])
                    want_nodes = sorted((freeze([Sym("operand", q)]), node + o) for q, o in enumerate(offs))
                    seen = sorted((op, (NN if nd == -1 else nd)) for op, nd in nodes)
                    if not all(isinstance(nd, int) and -1 <= nd <= NN for _, nd in nodes) or seen != want_nodes:
                        bad_idx.append((NN, kk, offs, [nd for _, nd in nodes]))
    ctx.note("shift_cases", cases)
    for NN, kk, offs, d in bad_drop[:6]:
        ctx.fail("eval_at_control drop rule N=%d k=%d offsets=%s" % (NN, kk, list(offs)), detail="instance %s although a shifted node is %s the horizon" % (d, "inside" if d == "dropped" else "outside"),
                 expected="drop iff some node+offset is outside [0,N] (k=-1 denotes node N)", found=str(d), fi=f)
    for NN, kk, offs, idx in bad_idx[:6]:
        ctx.fail("eval_at_control shifted node N=%d k=%d offsets=%s" % (NN, kk, list(offs)), detail="operand evaluated at the wrong node",
                 expected="nodes %s" % [(NN if kk == -1 else kk) + o for o in offs], found=str(idx), fi=f)
    for i_ in range(cases - len(bad_drop) - len(bad_idx)):
        ctx.obligations.setdefault("R04.11", []).append(("case", True))


@rule("R04.6", min_instances=8, desc="point constraints: before/after predicates are complementary and each pass runs exactly once per stage transcription")
def r04_6(ctx):
    prog = ctx.prog
    fb = prog.own_method("SamplingMethod", "add_constraints_before")
    fa = prog.own_method("SamplingMethod", "add_constraints_after")
    tests = {}
    for f in (fb, fa):
        sc = ctx.scope(f)
        subs = [c for c in walk_no_nested(f.node) if is_subject_to(c)]
        ctx.check(len(subs) == 1, "%s places each point constraint" % f.qualname, detail="placement count", expected="one opti.subject_to", found=str(len(subs)), fi=f)
        if len(subs) != 1:
            continue
        c = subs[0]
        n = ctx.norm(f)
        lc = loop_context(sc, n, c)
        cons = [li for li in lc if li.kind == "constraints"]
        ok = len(cons) == 1 and cons[0].extra == ["point"] and len(lc) == 1
        cv = cons[0].var[0] if ok and isinstance(cons[0].var, tuple) else None
        arg = n.key(c.args[0]) if c.args else ""
        ok = ok and arg == "self.eval(stage,%s)" % cv
        ctx.check(ok, "%s evaluates the declared point constraint" % f.qualname, detail="point constraint pass-through",
                  expected="opti.subject_to(self.eval(stage, c), ...) for c in stage._constraints['point']", found=arg, fi=f, node=c)
        gs = sc.guards(c)
        ctx.check(len(gs) == 1, "%s has a single selection predicate" % f.qualname, detail="extra guard", expected="one if", found=str(len(gs)), fi=f, node=c)
        if len(gs) == 1:
            tests[f.name] = (gs[0][0], gs[0][1])
    if len(tests) == 2:
        tb, pb = tests["add_constraints_before"]
        ta, pa = tests["add_constraints_after"]

        def canon(t, pol):
            # ('x' in S) / ('x' not in S) -> (lhs, rhs, positive?)
            if isinstance(t, ast.Compare) and len(t.ops) == 1 and isinstance(t.ops[0], (ast.In, ast.NotIn)):
                pos = isinstance(t.ops[0], ast.In)
                return ast.unparse(t.left), ast.unparse(t.comparators[0]), pos == pol
            return ast.unparse(t), "", pol
        cb, ca = canon(tb, pb), canon(ta, pa)
        ctx.check(cb[:2] == ca[:2] and cb[2] != ca[2], "before/after predicates are complementary", detail="a point constraint placed twice or never",
                  expected="P and not P over the same expression", found="%s vs %s" % (cb, ca), fi=fb)
    # exactly-once call sites
    for cname in METHODS:
        f = prog.method(cname, "add_constraints")
        sc = ctx.scope(f)
        n = ctx.norm(f)
        calls = [c for c in walk_no_nested(f.node) if is_call_to(c, "add_constraints_before", "self")]
        ok = len(calls) == 1
        if ok:
            lc = loop_context(sc, n, calls[0])
            gs = sc.guards(calls[0])
            if lc:
                kv = loop_var(lc, "N")
                ok = len(lc) == 1 and kv is not None and len(gs) == 1 and gs[0][1] and ast.unparse(gs[0][0]).replace(" ", "") == "%s==0" % kv
            else:
                ok = not gs
        ctx.check(ok, "%s runs add_constraints_before exactly once" % cname, detail="before-pass multiplicity",
                  expected="one unconditional call (or once under k==0 in the k loop)", found="%d call(s)" % len(calls), fi=f)
    t = prog.own_method("SamplingMethod", "transcribe")
    sct = ctx.scope(t)
    calls = [c for c in walk_no_nested(t.node) if is_call_to(c, "add_constraints_after", "self")]
    ok = len(calls) == 1 and not sct.enclosing_loops(calls[0]) and all(ast.unparse(g[0]).replace(" ", "") == "phase==1" and g[1] for g in sct.guards(calls[0]))
    ctx.check(ok, "SamplingMethod.transcribe runs add_constraints_after exactly once (phase 1)", detail="after-pass multiplicity",
              expected="one call under phase==1", found="%d call(s)" % len(calls), fi=t)
    calls_c = [c for c in walk_no_nested(t.node) if is_call_to(c, "add_constraints", "self")]
    ok = len(calls_c) == 1 and not sct.enclosing_loops(calls_c[0]) and bool(calls) and sct.order[calls_c[0]] < sct.order[calls[0]]
    ctx.check(ok, "SamplingMethod.transcribe runs add_constraints exactly once, before add_constraints_after", detail="pass order",
              expected="add_constraints; add_constraints_after", found="%d call(s)" % len(calls_c), fi=t)


@rule("R04.7", min_instances=40, desc="slot tables of the evaluators: every substituted quantity is the element of the right list at the evaluator's own indices")
def r04_7(ctx):
    check_evaluator_slots(ctx)


def check_evaluator_slots(ctx):
    prog = ctx.prog
    f = prog.own_method("SamplingMethod", "eval_at_control")
    k = f.params[3]
    calls = S.expr_apply_calls(f)
    if len(calls) != 1:
        raise AnalysisError("eval_at_control: expected exactly one stage._expr_apply call, found %d" % len(calls))
    want = S.expected_control(k)
    want.pop("DT")
    got = S.check_slot_table(ctx, f, calls[0], want, "eval_at_control", extra_ok=("sub", "xq", "DT"))
    n = ctx.norm(f)
    # DT: step of the integrator interval adjacent to the node (last step for the final node)
    if "DT" in got:
        sc = ctx.scope(f)
        dtnode = [kw.value for kw in calls[0].keywords if kw.arg == "DT"][0]
        vals = {}
        for kk in (-1, 0, 2):
            try:
                v = specialise(dtnode, {k: kk, "self.M": 3}, sc)
                if is_call_to(v, "get_DT_at", "self") and len(v.args) == 2 and ast.unparse(v.args[0]) == k:
                    vals[kk] = ceval(v.args[1], {k: kk, "self.M": 3}, sc)
                else:
                    vals[kk] = None
            except Unknown:
                vals[kk] = None
        ok = vals == {-1: 2, 0: 0, 2: 0}
        ctx.check(ok, "eval_at_control slot DT", detail="integrator step of the wrong sub-interval",
                  expected="self.get_DT_at(k, M-1 if k==-1 else 0)", found=ast.unparse(v), fi=f, node=calls[0])
    # xq: Q[k] when quadratures are stored per node, else the running quadrature only at the final node
    check_branch_slot(ctx, f, calls[0], "xq", {
        (("self.Q", True),): "self.Q[%s]" % k,
        (("self.Q", False), ("(-1 == %s)" % k, True)): "self.q",
        (("self.Q", False), ("(-1 == %s)" % k, False)): "nan"}, "eval_at_control")
    # sub: the offset substitution built in the loop
    ctx.check(got.get("sub") is not None, "eval_at_control slot sub", detail="offset operands not substituted", expected="sub=(subst_from, subst_to)", found=str(got.get("sub")), fi=f)
    # the result goes through eval_top of the master
    f2 = prog.own_method("SamplingMethod", "_eval_at_control")
    k2 = f2.params[3]
    calls2 = S.expr_apply_calls(f2)
    if len(calls2) != 1:
        raise AnalysisError("_eval_at_control: expected exactly one stage._expr_apply call")
    n2 = ctx.norm(f2)
    got2 = S.slot_table(n2, calls2[0])
    simple = {"t0": "self.t0", "T": "self.T", "v": "self.V", "p": "veccat(*self.P)", "x": "self.X[%s]" % k2,
              "z": "self.Z[%s] if self.Z else nan" % k2, "p_control_plus": "self.get_p_control_plus_at(stage,%s)" % k2,
              "v_control_plus": "self.get_v_control_plus_at(stage,%s)" % k2, "v_states": "self.get_v_states_at(stage,%s)" % k2,
              "t": "self.control_grid[%s]" % k2, "DT_control": "self.get_DT_control_at(%s)" % k2}
    for slot, text in simple.items():
        if slot in got2:
            ctx.check(got2[slot] == expected(text), "_eval_at_control slot %s" % slot, detail="slot fed from the wrong element", expected=expected(text), found=got2[slot], fi=f2, node=calls2[0])
    # interval quantities at node N take the last interval: the slot expression is instantiated at an inner node, at the
    # final node (k == len(U)) and at the alias k == -1; spellings do not matter (U[-1] / U[k-1] / U[k_interval])
    from ..ceval import instance_text
    sc2 = ctx.scope(f2)
    NU = 4
    for slot, elem in (("u", "self.U[%d]"), ("p_control", "self.get_p_control_at(stage,%d)"), ("v_control", "self.get_v_control_at(stage,%d)")):
        if slot not in got2:
            continue
        node = [kw.value for kw in calls2[0].keywords if kw.arg == slot][0]
        inst = {}
        for label, kk in (("inner", 1), ("final", NU), ("alias", -1)):
            try:
                inst[label] = instance_text(node, {k2: kk, "len(self.U)": NU, "self.N": NU}, sc2, lens={"self.U": NU})
            except Unknown:
                inst[label] = None
        ok = inst["inner"] == elem % 1 and inst["final"] == elem % (NU - 1) and inst["alias"] in (elem % (NU - 1), elem % -1)
        ctx.check(ok, "_eval_at_control slot %s" % slot, detail="per-interval quantity at the final node must take the last interval",
                  expected="element k at an inner node, element N-1 at node N (and at the alias k=-1)", found="inner: %s; node N: %s; k=-1: %s" % (inst["inner"], inst["final"], inst["alias"]), fi=f2, node=calls2[0])
    check_branch_slot(ctx, f2, calls2[0], "xq", {
        (("self.Q", True),): "self.Q[%s]" % k2,
        (("self.Q", False), ("(-1 == %s)" % k2, True)): "self.q",
        (("self.Q", False), ("(-1 == %s)" % k2, False)): "nan"}, "_eval_at_control")
    f3 = prog.own_method("SamplingMethod", "eval_at_integrator")
    k3, i3 = f3.params[3], f3.params[4]
    c3 = S.expr_apply_calls(f3)
    if len(c3) != 1:
        raise AnalysisError("eval_at_integrator: expected exactly one stage._expr_apply call")
    S.check_slot_table(ctx, f3, c3[0], S.expected_integrator(k3, i3), "eval_at_integrator")
    f4 = prog.own_method("SamplingMethod", "eval_at_integrator_root")
    k4, i4, j4 = f4.params[3], f4.params[4], f4.params[5]
    c4 = S.expr_apply_calls(f4)
    if len(c4) != 1:
        raise AnalysisError("eval_at_integrator_root: expected exactly one stage._expr_apply call")
    S.check_slot_table(ctx, f4, c4[0], S.expected_root(k4, i4, j4), "eval_at_integrator_root")
    # per-interval selection helpers index every list with the same k
    for name, attr, elem in (("get_p_control_at", "P_control", "{v}[{k}]"), ("get_v_control_at", "V_control", "{v}[{k}]"),
                             ("get_p_control_plus_at", "P_control_plus", "{v}[{k}]"), ("get_v_control_plus_at", "V_control_plus", "{v}[{k}]"),
                             ("get_v_states_at", "V_states", "{v}[{k}]"), ("get_signals_at", "signals", "{v}.sampled[{k}]")):
        g = prog.own_method("SamplingMethod", name)
        ok, found = S.per_interval_helper_ok(ctx, g, attr, elem)
        ctx.check(ok, "%s selects element k of every list" % name, detail="per-interval selection", expected="veccat(*[%s for v in self.%s])" % (elem.format(v="v", k="k"), attr), found=found, fi=g)
    # every evaluator finishes with the master's global substitution
    for g in (f, f3, f4):
        has = any(is_call_to(c, "eval_top") for c in walk_no_nested(g.node))
        ctx.check(has, "%s applies the master's global substitution" % g.qualname, detail="global variables/parameters of the master not substituted",
                  expected="stage.master._method.eval_top(stage.master, ...)", found="missing", fi=g)


def check_branch_slot(ctx, f, call, slot, table, label):
    """slot value defined by cases; `table` maps a tuple of (guard key, polarity) to the value text.  The canonical form
    of such a definition is one (nested) conditional expression; its cases are flattened and compared with the table."""
    sc = ctx.scope(f)
    val = [kw.value for kw in call.keywords if kw.arg == slot]
    if not val:
        return
    v = val[0]
    n = ctx.norm(f)
    # follow plain aliases (x = y) down to the defining expression
    for _ in range(6):
        if isinstance(v, ast.Name):
            ds = [d for d in sc.defs.get(v.id, []) if d.kind == "assign"]
            if len(ds) == 1:
                v = ds[0].value
                continue
        break
    got = {}

    def flat(node, conds):
        if isinstance(node, ast.IfExp):
            k = Norm(None).key(node.test)
            flat(node.body, conds + ((k, True),))
            flat(node.orelse, conds + ((k, False),))
        else:
            got[conds] = str(Norm(None).poly(node))
    if isinstance(v, ast.Name):
        # still defined per branch by statements: collect the branch definitions
        defs = S.branch_defs(sc, v.id, lambda: Norm(sc, expand=False))
        for gs, p in defs or []:
            got[tuple(gs)] = str(p)
    else:
        flat(v, ())
    want = {k: str(expected(t)) for k, t in table.items()}
    ctx.check(got == want, "%s slot %s" % (label, slot), detail="quadrature state at the wrong point", expected=want, found=got, fi=f, node=call)


def subject_to_table(ctx):
    """{(grid argument, expression is a signal?): grid the constraint is stored under | '<raise>'} from simulated calls of
    Stage.subject_to (rkverif/sim.py), plus what was stored."""
    from ..sim import Sim, fresh_obj
    from ..layout import Sym, LayoutUnknown, freeze
    P = ctx.prog
    cache = P.__dict__.setdefault("_subject_to_table", {})
    if "r" in cache:
        return cache["r"]
    f = P.own_method("Stage", "subject_to")
    table, stored = {}, {}
    GRIDS = ["point", "control", "inf", "integrator", "integrator_roots"]
    for grid in [None] + GRIDS + ["no_such_grid"]:
        for sig in (True, False):
            cons = {g: [] for g in GRIDS + ["no_such_grid"]}
            me = fresh_obj("self", _constraints=cons)
            hooks = {".is_signal": lambda s_, r, a, k, n, sig=sig: sig, "._set_transcribed": lambda s_, r, a, k, n: None,
                     "._parse_scale": lambda s_, r, a, k, n: Sym("scale"), "get_meta": lambda s_, r, a, k, n: Sym("meta")}
            try:
                Sim(P, hooks=hooks).call(f, [me, Sym("constr")], {"grid": grid})
                where = [g for g, v in cons.items() if v]
                table[(grid, sig)] = where[0] if len(where) == 1 and len(cons[where[0]]) == 1 else "<stored %d times>" % sum(len(v) for v in cons.values())
                if len(where) == 1:
                    stored[(grid, sig)] = cons[where[0]][0]
            except LayoutUnknown as e:
                table[(grid, sig)] = "<raise>" if "raise reached" in str(e) else "<unknown: %s>" % str(e)[:60]
    # the options of the declaration are recorded under their own names (the transcription methods look them up by name)
    opts = {"include_first": Sym("IF"), "include_last": Sym("IL"), "refine": Sym("RF"), "group_refine": Sym("GR"), "group_dim": Sym("GD"), "group_control": Sym("GC")}
    cons = {g: [] for g in GRIDS}
    me = fresh_obj("self", _constraints=cons)
    hooks = {".is_signal": lambda s_, r, a, k, n: True, "._set_transcribed": lambda s_, r, a, k, n: None,
             "._parse_scale": lambda s_, r, a, k, n: "SC", "get_meta": lambda s_, r, a, k, n: Sym("meta"),
             "dict": lambda s_, r, a, k, n: ({freeze(x): y for x, y in (s_.iterable(a[0], n) if not isinstance(a[0], (list, tuple, dict)) else (a[0].items() if isinstance(a[0], dict) else a[0]))} if a else dict(k))}
    record = None
    try:
        sim = Sim(P, hooks=hooks)
        sim.self_class = "Stage"
        sim.call(f, [me, Sym("constr")], dict(opts, grid="control"))
        if len(cons["control"]) == 1 and isinstance(cons["control"][0], tuple) and len(cons["control"][0]) == 3 and isinstance(cons["control"][0][2], dict):
            record = {k: v for k, v in cons["control"][0][2].items()}
    except LayoutUnknown as e:
        record = "<unknown: %s>" % str(e)[:80]
    # include_last="auto" (documented: enforce at tf only when the constraint does not depend on a control) is resolved to a
    # boolean when the constraint is declared; any other string is rejected
    auto = {}
    for dep in (True, False, "bogus"):
        cons2 = {g: [] for g in GRIDS}
        me2 = fresh_obj("self", _constraints=cons2, _offsets={}, u=Sym("u"))
        hooks2 = dict(hooks)
        hooks2["depends_on"] = lambda s_, r, a, k, n, dep=dep: bool(dep)
        hooks2["ca.depends_on"] = hooks2["depends_on"]
        hooks2["symvar"] = lambda s_, r, a, k, n: []
        hooks2["ca.symvar"] = hooks2["symvar"]
        hooks2["MX"] = lambda s_, r, a, k, n: a[0] if a else NotImplemented
        try:
            sim = Sim(P, hooks=hooks2)
            sim.self_class = "Stage"
            sim.call(f, [me2, Sym("constr")], {"grid": "control", "include_last": "auto" if dep != "bogus" else "sometimes"})
            got = cons2["control"][0][2].get("include_last") if len(cons2["control"]) == 1 else "<not stored>"
            auto[dep] = got
        except LayoutUnknown as e:
            auto[dep] = "<raise>" if "raise reached" in str(e) else "<unknown: %s>" % str(e)[:60]
    cache["auto"] = auto
    cache["r"] = (f, table, stored)
    cache["record"] = (record, dict(opts, scale="SC", grid="control"))
    return cache["r"]


def subject_to_expected():
    GRIDS = ["point", "control", "inf", "integrator", "integrator_roots"]
    want = {(None, True): "control", (None, False): "point", ("no_such_grid", True): "<raise>", ("no_such_grid", False): "<raise>", ("point", True): "<raise>", ("point", False): "point"}
    for g in GRIDS[1:]:
        want[(g, True)] = g
        want[(g, False)] = "point"
    return want


@rule("R04.8", min_instances=5, desc="classification in Stage.subject_to: default grid, unknown grid raises, signal on 'point' raises, non-signal forced to 'point', stored once under its grid")
def r04_8(ctx):
    from ..layout import Sym, freeze
    f, table, stored = subject_to_table(ctx)
    want = subject_to_expected()
    unknown = {k: v for k, v in table.items() if str(v).startswith("<unknown")}
    if unknown:
        raise AnalysisError("Stage.subject_to could not be simulated: %s" % list(unknown.items())[:2])
    bad = {k: (table.get(k), v) for k, v in want.items() if k[0] == "no_such_grid" and table.get(k) != v}
    ctx.check(not bad, "Stage.subject_to rejects unknown grid names", detail="unknown grid accepted", expected="raise for grid='no_such_grid'", found=str(bad), fi=f)
    accepted = sorted(g for (g, sig), v in table.items() if g is not None and sig and v == g)
    ctx.check(accepted == sorted(["control", "inf", "integrator", "integrator_roots"]), "Stage.subject_to accepted grids", detail="grid list changed",
              expected="point, control, inf, integrator, integrator_roots", found=str(accepted), fi=f, sample={"grids": accepted})
    ok = all(isinstance(v, tuple) and len(v) == 3 and freeze(v[0]) == freeze(Sym("constr")) for v in stored.values()) and not any(str(v).startswith("<stored") for v in table.values())
    ctx.check(ok, "Stage.subject_to stores the constraint once, unmodified, under its grid", detail="declaration storage", expected="self._constraints[grid].append((constr, meta, args)) once",
              found=str({k: v for k, v in table.items() if str(v).startswith("<stored")})[:120], fi=f)
    bad = {k: (table.get(k), v) for k, v in want.items() if k[0] is None or (k[0] != "no_such_grid" and not k[1]) if table.get(k) != v}
    ctx.check(not bad, "Stage.subject_to default grid and forcing of non-signals to 'point'", detail="grid classification",
              expected="no grid: 'control' for a signal, 'point' otherwise; a non-signal is stored under 'point' whatever grid was given", found=str(bad), fi=f, sample={"table": str(sorted(table.items(), key=str))[:300]})
    record, want_rec = ctx.prog.__dict__["_subject_to_table"]["record"]
    if isinstance(record, str) or record is None:
        raise AnalysisError("Stage.subject_to: the recorded options could not be read from the simulated call: %s" % (record,))
    wrong = {k: (record.get(k), v) for k, v in want_rec.items() if freeze(record.get(k)) != freeze(v)}
    ctx.check(not wrong, "Stage.subject_to records every placement option under its own name", detail="an option of the declaration is stored under another option's name (include_first <-> include_last: the other end point is skipped)",
              expected="args[name] = the argument called name, for %s" % sorted(want_rec), found=str(wrong)[:200], fi=f)
    auto = ctx.prog.__dict__["_subject_to_table"]["auto"]
    if any(str(v).startswith("<unknown") for v in auto.values()):
        raise AnalysisError("Stage.subject_to(include_last='auto') could not be simulated: %s" % auto)
    ctx.check(auto.get(True) is False and auto.get(False) is True, "Stage.subject_to resolves include_last='auto' when the constraint is declared", detail="the string 'auto' is truthy: every placement site treats it as include_last=True and imposes the constraint at tf with the last interval's control",
              expected="include_last stored as False when the constraint depends on a control, True otherwise", found=str({("depends on u" if k is True else "no control"): v for k, v in auto.items() if k != "bogus"}), fi=f)
    ctx.check(auto.get("bogus") == "<raise>", "Stage.subject_to rejects an include_last that is neither a boolean nor 'auto'", detail="any non-empty string behaves like True", expected="raise", found=str(auto.get("bogus")), fi=f)
    bad = {k: (table.get(k), v) for k, v in want.items() if k == ("point", True) and table.get(k) != v}
    ctx.check(not bad, "Stage.subject_to rejects a signal on grid 'point'", detail="signal on point grid accepted", expected="raise", found=str(bad), fi=f)
    bad = {k: (table.get(k), v) for k, v in want.items() if k[1] and k[0] not in (None, "point", "no_such_grid") and table.get(k) != v}
    ctx.check(not bad, "Stage.subject_to keeps the declared grid of a path constraint", detail="path constraint stored under another grid", expected="stored under the grid given", found=str(bad), fi=f)


INVENTORY = {
    # function qualname -> category  (every NLP constraint site; anything else "restricts the problem")
    "MultipleShooting.add_constraints": {"dynamics": 1, "user": 3},
    "SingleShooting.add_constraints": {"user": 3},
    "DirectCollocation.add_constraints": {"dynamics": 3, "user": 5},
    "SamplingMethod.add_constraints_before": {"user": 1},
    "SamplingMethod.add_constraints_after": {"user": 1},
    "SamplingMethod.add_inf_constraints": {"inf": 1},
    "SamplingMethod.add_coupling_constraints": {"coupling": 1},
    "FreeGrid.bounds_finalize": {"coupling": 1},
    "DirectMethod.transcribe": {"user": 1},
    "DirectMethod.fill_placeholders_T": {"T>=0": 1},
    "SplineMethod.add_constraints_noninf": {"user": 5},
    "SplineMethod.add_constraints_inf": {"user": 2},
    "OptiWrapper.transcribe_placeholders": {"replay": 2},
}


def classify_site(ctx, f, c):
    n = ctx.norm(f)
    sc = ctx.scope(f)
    if f.qualname == "OptiWrapper.transcribe_placeholders":
        return "replay"
    if not c.args:
        return "replay" if ast.unparse(c.func.value) == "Opti" else "unknown"
    a = c.args[0]
    if f.qualname == "SamplingMethod.add_inf_constraints":
        return "inf" if is_call_to(a, "eval_at_control", "self") else "unknown"
    if f.qualname in ("SamplingMethod.add_coupling_constraints", "FreeGrid.bounds_finalize"):
        return "coupling"
    if f.qualname == "DirectMethod.fill_placeholders_T":
        return "T>=0" if n.key(a) == n.key(ast.parse("stage._T>=0", mode="eval").body) else "unknown"
    if isinstance(a, ast.Call) and isinstance(a.func, ast.Attribute) and a.func.attr in EVALUATORS:
        return "user"
    if isinstance(a, ast.Compare) and len(a.ops) == 1 and isinstance(a.ops[0], ast.Eq):
        return "dynamics"
    if isinstance(a, ast.Name):
        lc = loop_context(sc, n, c)
        if any(li.kind == "constraints" for li in lc):
            return "user"
    if isinstance(a, ast.Call) and is_call_to(a, "eval_top"):
        return "user"
    if f.cls is not None and f.cls.name == "SplineMethod" and is_call_to(a, "eval", "self"):
        return "user"
    return "unknown"


@rule("R04.9", min_instances=13, desc="inventory: every site that adds a constraint to the NLP is dynamics, a user placement, grid coupling, the inf certificate or T>=0; nothing else restricts the problem")
def r04_9(ctx):
    prog = ctx.prog
    fams = set(prog.subclasses("DirectMethod")) | set(prog.subclasses("Grid")) | {"OptiWrapper"}
    counts = {}
    for cname in sorted(fams):
        for f in prog.cls(cname).methods.values():
            for c in walk_no_nested(f.node):
                if is_subject_to(c):
                    recv = ast.unparse(c.func.value)
                    if recv == "self" and cname != "OptiWrapper":
                        continue
                    cat = classify_site(ctx, f, c)
                    counts.setdefault(f.qualname, {}).setdefault(cat, 0)
                    counts[f.qualname][cat] += 1
                    if cat == "unknown" or f.qualname not in INVENTORY:
                        ctx.fail("%s: %s" % (f.qualname, ast.unparse(c)[:70]), detail="unclassified constraint site",
                                 expected="a site of the inventory (dynamics / user placement / grid coupling / inf certificate / T>=0)",
                                 found="extra constraint added to the NLP", fi=f, node=c)
    for q, want in sorted(INVENTORY.items()):
        got = counts.get(q, {})
        ctx.check(got == want, "constraint sites of %s" % q, detail="set of constraint sites changed",
                  expected=want, found=got, sample={"sites": got})
    ctx.note("inventory", counts)


def subject_to_scenarios(f):
    """Outcome of OptiWrapper.subject_to per scenario: ('exit'|'raise', number of appends to self.constraints)."""
    leaves = {}
    for n in ast.walk(f.node):
        if isinstance(n, (ast.Compare, ast.Call)):
            t = ast.unparse(n)
            if t.endswith("is None") and t.startswith(f.params[1]):
                leaves[t] = "none"
            elif t.endswith("is not None") and t.startswith(f.params[1]):
                leaves[t] = "notnone"
            elif t.startswith("isinstance(%s" % f.params[1]):
                leaves[t] = "isinst"
            elif t.endswith(".is_constant()"):
                leaves[t] = "const"
            elif t.startswith("np.all(") and "== 1" in t:
                leaves[t] = "allone"
    scen = {"none": dict(none=True, notnone=False, isinst=False, const=False, allone=False),
            "symbolic": dict(none=False, notnone=True, isinst=True, const=False, allone=False),
            "const-true": dict(none=False, notnone=True, isinst=True, const=True, allone=True),
            "const-false": dict(none=False, notnone=True, isinst=True, const=True, allone=False)}
    out = {}
    for name, vals in scen.items():
        env = {t: vals[k] for t, k in leaves.items()}

        class W(Walker):
            def guard(s, test, state):
                return const_guard(test, env)

            def join(s, a, b):
                return max(a, b)

            def transfer(s, node, state):
                for sub in walk_no_nested(node):
                    if is_call_to(sub, "append", "self.constraints"):
                        state += 1
                return state
        exits = W().run(f.node.body, 0)
        out[name] = ("raise", 0) if not exits else ("exit", max(e.state for e in exits))
    return out


def replay_loop(ctx, g):
    """The loop of OptiWrapper.transcribe_placeholders that hands the stored constraints back to Opti.
    Returns (loop, c name, scale name, meta name, pairing ok, text) or None.  Accepted headers:
      for c, scale, meta in zip(res[:n], [c[1] for c in self.constraints], [c[2] for c in self.constraints])
      for i, c in enumerate(res[:n]) / for i in range(n) with c = res[i]   and   _, scale, meta = self.constraints[i]"""
    scg, ng = ctx.scope(g), ctx.norm(g)
    K = lambda t: Norm(None).key(ast.parse(t, mode="eval").body)
    loops = [l for l in walk_no_nested(g.node) if isinstance(l, ast.For) and
             any(isinstance(c, ast.Call) and ast.unparse(c.func) == "Opti.subject_to" and len(c.args) == 2 for c in ast.walk(l))]
    if len(loops) != 1:
        return None
    l = loops[0]
    it = l.iter

    def is_res_prefix(x):
        # res[:n_constr] with res = placeholders([c[0] for c in self.constraints] + ...), n_constr = len(self.constraints)
        return isinstance(x, ast.Subscript) and isinstance(x.slice, ast.Slice) and x.slice.lower is None and x.slice.step is None and x.slice.upper is not None \
            and ng.key(x.slice.upper) == K("len(self.constraints)") and ng.key(x.value).startswith(K("placeholders([c[0] for c in self.constraints])")[:-2])

    def is_res(x):
        return ng.key(x).startswith(K("placeholders([c[0] for c in self.constraints])")[:-2])
    # for c, (orig, scale, meta) in zip(res[:n], self.constraints): the stored table itself rides along, unpacked in place
    if isinstance(it, ast.Call) and ast.unparse(it.func) == "zip" and len(it.args) == 2 and isinstance(l.target, ast.Tuple) and len(l.target.elts) == 2:
        pairs = list(zip(l.target.elts, it.args))
        resp = [(t, a) for t, a in pairs if is_res_prefix(a)]
        tab = [(t, a) for t, a in pairs if ast.unparse(a) == "self.constraints"]
        if len(resp) == 1 and len(tab) == 1 and isinstance(resp[0][0], ast.Name) and isinstance(tab[0][0], ast.Tuple) and len(tab[0][0].elts) == 3 \
                and all(isinstance(e, ast.Name) for e in tab[0][0].elts):
            o, sv, mv = [e.id for e in tab[0][0].elts]
            return l, resp[0][0].id, sv, mv, True, ast.unparse(it)[:120]
    if isinstance(it, ast.Call) and ast.unparse(it.func) == "zip" and len(it.args) >= 3 and isinstance(l.target, ast.Tuple) and len(l.target.elts) == len(it.args) \
            and all(isinstance(e, ast.Name) for e in l.target.elts):
        # the columns are recognised by what they iterate over, whatever their order; further columns of the same
        # table (e.g. the un-substituted expression c[0]) may ride along
        role = {}
        for e, a in zip(l.target.elts, it.args):
            if is_res_prefix(a):
                role.setdefault("c", e.id)
            elif Norm(None).key(a) == K("[c[1] for c in self.constraints]"):
                role.setdefault("scale", e.id)
            elif Norm(None).key(a) == K("[c[2] for c in self.constraints]"):
                role.setdefault("meta", e.id)
            elif Norm(None).key(a) == K("[c[0] for c in self.constraints]"):
                role.setdefault("orig", e.id)
            else:
                role.setdefault("other", e.id)
        ok = all(k in role for k in ("c", "scale", "meta")) and "other" not in role
        if not ok and len(it.args) == 3:
            cv, sv, mv = [e.id for e in l.target.elts]
            return l, cv, sv, mv, False, ast.unparse(it)[:120]
        if not ok:
            return None
        return l, role["c"], role["scale"], role["meta"], ok, ast.unparse(it)[:120]
    idx = cv = None
    ok = True
    if isinstance(it, ast.Call) and ast.unparse(it.func) == "enumerate" and len(it.args) == 1 and isinstance(l.target, ast.Tuple) and len(l.target.elts) == 2 \
            and all(isinstance(e, ast.Name) for e in l.target.elts):
        idx, cv = l.target.elts[0].id, l.target.elts[1].id
        ok = is_res_prefix(it.args[0])
    elif isinstance(it, ast.Call) and ast.unparse(it.func) == "range" and len(it.args) == 1 and isinstance(l.target, ast.Name) and ng.key(it.args[0]) == K("len(self.constraints)"):
        idx = l.target.id
        for st in l.body:
            if isinstance(st, ast.Assign) and len(st.targets) == 1 and isinstance(st.targets[0], ast.Name) and isinstance(st.value, ast.Subscript) \
                    and ast.unparse(st.value.slice) == idx and is_res(st.value.value):
                cv = st.targets[0].id
                break
    if idx is None or cv is None:
        return None
    sv = mv = None
    for st in l.body:
        if not (isinstance(st, ast.Assign) and len(st.targets) == 1):
            continue
        t, v = st.targets[0], st.value
        if isinstance(t, ast.Tuple) and len(t.elts) == 3 and all(isinstance(e, ast.Name) for e in t.elts) and ast.unparse(v) == "self.constraints[%s]" % idx:
            sv, mv = t.elts[1].id, t.elts[2].id
        elif isinstance(t, ast.Name) and ast.unparse(v) == "self.constraints[%s][1]" % idx:
            sv = t.id
        elif isinstance(t, ast.Name) and ast.unparse(v) == "self.constraints[%s][2]" % idx:
            mv = t.id
    if sv is None or mv is None:
        return None
    return l, cv, sv, mv, ok, "for %s in %s: ... self.constraints[%s]" % (ast.unparse(l.target), ast.unparse(it)[:80], idx)



@rule("R04.10", min_instances=7, desc="OptiWrapper stores each constraint once (constant-true dropped, constant-false raises) and replays each stored constraint once, in order")
def r04_10(ctx):
    prog = ctx.prog
    f = prog.own_method("OptiWrapper", "subject_to")
    sc = ctx.scope(f)
    apps = [c for c in walk_no_nested(f.node) if is_call_to(c, "append", "self.constraints")]
    ok = len(apps) == 1 and isinstance(apps[0].args[0], ast.Tuple) and ast.unparse(apps[0].args[0].elts[0]) == f.params[1] and not sc.enclosing_loops(apps[0])
    ctx.check(ok, "OptiWrapper.subject_to stores the expression once", detail="constraint storage", expected="self.constraints.append((expr, scale, meta))",
              found="; ".join(ast.unparse(a) for a in apps), fi=f)
    # outcome table: expr None -> nothing stored; non-constant -> stored once; constant-true -> dropped; constant-false -> raises
    table = subject_to_scenarios(f)
    want = {"none": ("exit", 0), "symbolic": ("exit", 1), "const-true": ("exit", 0), "const-false": ("raise", 0)}
    for sc_name, w in want.items():
        got = table.get(sc_name)
        ctx.check(got == w, "OptiWrapper.subject_to outcome for a %s constraint" % sc_name, detail="constraint stored / dropped / rejected wrongly",
                  expected="%s, %d stored" % w, found=str(got), fi=f, sample={"scenario": sc_name, "outcome": str(got)})
    g = prog.own_method("OptiWrapper", "transcribe_placeholders")
    scg = ctx.scope(g)
    ng = ctx.norm(g)
    rl = replay_loop(ctx, g)
    ctx.check(rl is not None, "transcribe_placeholders replays the stored constraints in one loop", detail="replay loop", expected="for c, scale, meta in zip(res[:n], scales, metas)", found="not recognised" if rl is None else "found", fi=g)
    if rl:
        l, cv, sv, mv, pair_ok, text = rl
        subs = [c for c in ast.walk(l) if isinstance(c, ast.Call) and ast.unparse(c.func) == "Opti.subject_to"]
        ok = len(subs) == 1 and len(subs[0].args) == 2 and ast.unparse(subs[0].args[1]) == cv
        ctx.check(ok, "transcribe_placeholders hands each constraint to Opti exactly once", detail="replay multiplicity", expected="Opti.subject_to(self, c) once per iteration",
                  found="; ".join(ast.unparse(s) for s in subs), fi=g)
        conts = [x for x in ast.walk(l) if isinstance(x, ast.Continue)]
        okc = True
        for x in conts:
            from ..paths import canon_guard
            gs = [canon_guard(t, p)[0].replace(" ", "") for t, p in scg.path_guards(x) if canon_guard(t, p)[1]]     # `if ok: continue` / `if not ok: raise` + continue
            okc = okc and any("is_constant()" in t and "is_one()" in t for t in gs)
        ctx.check(okc and len(conts) <= 1, "transcribe_placeholders skips only constant-true constraints", detail="constraint skipped on replay",
                  expected="continue only under MX(c).is_constant() and MX(c).is_one()", found=str(len(conts)), fi=g)
        # expression, scale and meta come from the same stored constraint, in order
        ctx.check(pair_ok, "transcribe_placeholders pairs expression, scale and meta of the same stored constraint", detail="replay pairing",
                  expected="zip(res[:n_constr], [c[1]...], [c[2]...])", found=text, fi=g)
        reset = [c for c in walk_no_nested(g.node) if isinstance(c, ast.Call) and ast.unparse(c.func) == "Opti.subject_to" and len(c.args) == 1]
        ctx.check(len(reset) == 1 and scg.order[reset[0]] < scg.order[l], "transcribe_placeholders clears Opti's constraints before replay", detail="constraints duplicated on re-run",
                  expected="Opti.subject_to(self) before the loop", found=str(len(reset)), fi=g)


@rule("R04.12", min_instances=12, desc="bounds and sense preserved when a constraint carries a scale (rebuild rule, shared with C14)")
def r04_12(ctx):
    from .c14 import r14_1
    r14_1(ctx)


@rule("R04.13", min_instances=2, desc="declaring or clearing constraints after a solve reaches the next solve (invalidation, shared with C13)")
def r04_13(ctx):
    from .c13 import _is_invalidate
    for name in ("subject_to", "clear_constraints"):
        f = ctx.prog.own_method("Stage", name)
        ok, _ = must_on_all_paths(f.node.body, _is_invalidate)
        ctx.check(ok, "Stage.%s invalidates the cached transcription" % name, detail="constraints of the previous declaration keep restricting (or new ones are ignored by) the next solve",
                  expected="self._set_transcribed(False)", found="missing", fi=f)


@rule("R04.14", min_instances=20, desc="algebraic values handed to the constraint evaluators are those of the addressed point: Z[k] / zk content per method (layout interpreter, shared with C02/C07)")
def r04_14(ctx):
    from .layout_rules import collocation_content
    collocation_content(ctx)


@rule("R04.15", min_instances=3, desc="shooting with a DAE: the algebraic value paired with integrator point n is the value AT point n (start of step n), like the state it is evaluated with")
def r04_15(ctx):
    """discrete_system returns per-step columns: Xi column j and Zi column j are consumed at the same index
    (xk[k*M+j], zk[k*M+j]; Z[0] = Zi[:,0]).  Xi is built from a list that starts with the start state, so column j is
    the state at the START of sub-step j; the algebraic list must be aligned the same way."""
    from .. import algebra as AL
    from ..norm import list_events
    prog = ctx.prog
    f = prog.own_method("SamplingMethod", "discrete_system")
    sc = ctx.scope(f)
    call, ins, outs, ni, no = AL.function_ctor(f)
    out_of = dict(zip(no, outs))
    lists = {}
    for nm in ("Xi", "Zi"):
        o = out_of.get(nm)
        if not (isinstance(o, ast.Call) and ast.unparse(o.func) == "hcat" and o.args and isinstance(o.args[0], ast.Name)):
            raise AnalysisError("discrete_system: output %s is not hcat(<list>)" % nm)
        ev = list_events(sc, o.args[0].id, key=lambda t: ast.unparse(t))
        init = [e for e in ev if e[0] == "set"]
        apps = [e for e in ev if e[0] == "append"]
        n0 = None
        if len(init) == 1:
            try:
                n0 = len(ast.literal_eval(init[0][1])) if init[0][1] == "[]" else len(ast.parse(init[0][1], mode="eval").body.elts)
            except Exception:
                n0 = None
        lists[nm] = (o.args[0].id, n0, [a[1][0] for a in apps])
    okx = lists["Xi"][1] == 1 and len(lists["Xi"][2]) == 1 and lists["Xi"][2][0].endswith("['xf']")
    ctx.check(okx, "discrete_system Xi column j is the state at the start of sub-step j", detail="state columns", expected="X = [X0]; per step X.append(res['xf'])", found=str(lists["Xi"]), fi=f)
    zname, z0, zapps = lists["Zi"]
    aligned = z0 == 1 and len(zapps) == 1
    ctx.check(aligned, "discrete_system Zi column j", detail="algebraic value of the END of sub-step j stored in the column of its START (Z[0] and zk[n] are one integrator step late)",
              expected="a list that starts with the algebraic value at the step start, like X = [X0]", found="%s = %s; per step %s.append(%s)" % (zname, "[]" if z0 == 0 else "[..%s]" % z0, zname, ", ".join(zapps)), fi=f,
              sample={"Zi": "%s starts with %s entries, one %s per step" % (zname, z0, ", ".join(zapps))})
    # the consumers do use the same index for both
    for cname in ("MultipleShooting", "SingleShooting"):
        g = prog.own_method(cname, "add_constraints")
        ext = {}
        for c in walk_no_nested(g.node):
            if is_call_to(c, "extend") and ast.unparse(c.func.value) in ("self.xk", "self.zk") and c.args and isinstance(c.args[0], ast.ListComp):
                ext[ast.unparse(c.func.value)] = re.sub(r"\w+\['[XZ]i'\]", "@", Norm(ctx.scope(g), alias_only=True).key(c.args[0]))
        ctx.check(len(ext) == 2 and ext.get("self.xk") == ext.get("self.zk"), "%s stores state and algebraic columns under the same integrator-point index" % cname, detail="xk / zk indexing differs",
                  expected="xk.extend([Xi[:,i] for i in range(M)]); zk.extend([Zi[:,i] for i in range(M)])", found=str(ext), fi=g)


@rule("R04.16", min_instances=8, desc="include_first / include_last of a path constraint are read by every method that places path constraints (an option stored by subject_to and read by nobody is silently ignored)")
def r04_16(ctx):
    prog = ctx.prog
    for cname in METHODS:
        if not prog.has_cls(cname):
            continue
        root = prog.method(cname, "add_constraints")
        seen, _ = prog.reachable([root], concrete=cname, max_depth=3, stop=lambda f: f.cls is None)
        keys = {}
        places = False
        for f in seen.values():
            if f.cls is None:
                continue
            loops_over_path = any(isinstance(l, (ast.For, ast.comprehension)) and constraint_grids(l.iter) and set(constraint_grids(l.iter)) & {"control", "integrator"} for l in ast.walk(f.node))
            if not loops_over_path:
                continue
            places = True
            for x in ast.walk(f.node):
                if isinstance(x, ast.Subscript) and isinstance(x.slice, ast.Constant) and isinstance(x.slice.value, str) and isinstance(x.value, ast.Name):
                    keys.setdefault(x.slice.value, f)
        if not places:
            raise AnalysisError("%s: no loop over the declared path constraints found" % cname)
        for opt in ("include_first", "include_last"):
            ctx.check(opt in keys, "%s reads %s of the path constraints it places" % (cname, opt),
                      detail="option stored by subject_to and never read: the constraint is imposed at the %s point although the user excluded it" % ("first" if opt == "include_first" else "last"),
                      expected="args['%s'] consulted (skip the point) or a False value rejected" % opt, found="options read: %s" % sorted(k for k in keys if k in ("include_first", "include_last", "scale", "refine", "group_refine")), fi=root,
                      sample={"method": cname, "options_read": sorted(keys)})


@rule("R04.17", min_instances=1, desc="SplineMethod lumps path constraints into one evaluation per group: constraints with different next/prev offsets must not share a group (the offset window of one would cut instances of the other)")
def r04_17(ctx):
    P = ctx.prog
    f = P.own_method("SplineMethod", "add_constraints_noninf")
    sc = ctx.scope(f)
    keys = [d for d in sc.defs.get("key", []) if d.kind == "assign" and sc.enclosing_loops(d.stmt)]
    ok = len(keys) == 1 and isinstance(keys[0].value, ast.Tuple)
    found = ast.unparse(keys[0].value) if keys else "no lump key"
    if ok:
        n = Norm(sc)
        parts = [ast.unparse(e) for e in keys[0].value.elts]
        expanded = " ".join(n.key(e) for e in keys[0].value.elts)
        ok = "_offsets" in expanded
    ctx.check(ok, "SplineMethod.add_constraints_noninf groups constraints by their offsets too", detail="a plain constraint lumped with one that uses next()/prev() loses the instances outside the other's offset window (e.g. the final node)",
              expected="key = (refine, group_refine, include_first, include_last, <offsets used by c>)", found=found, fi=f, sample={"key": found})


@rule("R04.18", min_instances=4, desc="SplineMethod leaves out the first/last point of a path constraint in one place only: the lump's include flags are forwarded to grid_control (which knows the offset window, R07.11) and the columns are not trimmed a second time")
def r04_18(ctx):
    """D37: trimming the columns after grid_control had cut the window of an offset expression dropped two instances
    (include_first=False together with prev(), include_last=False with next())."""
    from .c07 import r07_11
    P = ctx.prog
    f = P.own_method("SplineMethod", "add_constraints_noninf")
    sc = ctx.scope(f)
    calls = [c for c in walk_no_nested(f.node) if is_call_to(c, "grid_control", "self")]
    if len(calls) != 1:
        raise AnalysisError("SplineMethod.add_constraints_noninf: expected one call of self.grid_control, found %d" % len(calls))
    call = calls[0]
    # the loop variable tuple of the lump loop: (refine, group_refine, include_first, include_last, offsets)
    for flag in ("include_first", "include_last"):
        kw = {k.arg: k.value for k in call.keywords}
        v = kw.get(flag)
        ok = v is not None and _lump_component(sc, v, call) == flag
        ctx.check(ok, "SplineMethod.add_constraints_noninf forwards the lump's %s to grid_control" % flag, detail="the point is left out (if at all) without knowledge of the offset window",
                  expected="self.grid_control(.., %s=<%s of the lump key>)" % (flag, flag), found=ast.unparse(call)[:160], fi=f, node=call, sample={"flag": flag, "call": ast.unparse(call)})
    # the values returned by grid_control are not cut again along the columns
    tgt = None
    for st in walk_no_nested(f.node):
        if isinstance(st, ast.Assign) and st.value is call and isinstance(st.targets[0], ast.Tuple) and len(st.targets[0].elts) == 2 and isinstance(st.targets[0].elts[1], ast.Name):
            tgt = st.targets[0].elts[1].id
    if tgt is None:
        raise AnalysisError("SplineMethod.add_constraints_noninf: expected `_, <values> = self.grid_control(..)`")
    recuts = []
    for x in walk_no_nested(f.node):
        if isinstance(x, ast.Subscript) and isinstance(x.value, ast.Name) and x.value.id == tgt and any(isinstance(y, ast.Name) and y.id in ("include_first", "include_last") for y in ast.walk(x.slice)):
            recuts.append(x)
        if isinstance(x, ast.Assign) and isinstance(x.targets[0], ast.Name) and x.targets[0].id == tgt and isinstance(x.value, ast.Subscript) and isinstance(x.value.value, ast.Name) and x.value.value.id == tgt \
                and any(g for g, p in sc.guard_conjuncts(x) if any(isinstance(y, ast.Name) and y.id in ("include_first", "include_last") for y in ast.walk(g))):
            recuts.append(x)
    ctx.check(not recuts, "SplineMethod.add_constraints_noninf does not trim the evaluated instances a second time", detail="with next()/prev() the offset window already lacks that point: a second cut drops one instance too many",
              expected="no include_first/include_last-dependent slicing of `%s` after grid_control" % tgt, found="; ".join(ast.unparse(r)[:80] for r in recuts) or "none", fi=f, node=recuts[0] if recuts else call)
    r07_11(ctx)


def _lump_component(sc, v, at):
    """Name of the lump-key component an expression denotes inside the lump loop: the loop unpacks the key tuple
    (refine, group_refine, include_first, include_last, offsets) whose components were built from args[<name>]."""
    if isinstance(v, ast.Name):
        for d in sc.defs.get(v.id, []):
            if d.kind in ("for", "assign", "unpack") or True:
                st = d.stmt
                tup = None
                if isinstance(st, ast.Assign) and isinstance(st.targets[0], ast.Tuple):
                    tup = st.targets[0]
                elif isinstance(st, ast.For) and isinstance(st.target, ast.Tuple):
                    tup = st.target
                # for (refine, .., include_first, include_last, _), members in lumps.items(): the key tuple is unpacked in the loop header
                if isinstance(st, ast.For) and isinstance(st.target, ast.Tuple) and st.target.elts and isinstance(st.target.elts[0], ast.Tuple) \
                        and v.id in [ast.unparse(e) for e in st.target.elts[0].elts] and ast.unparse(st.iter).endswith(".items()"):
                    tup = st.target.elts[0]
                if tup is None:
                    continue
                names = [ast.unparse(e) for e in tup.elts]
                if v.id not in names:
                    continue
                pos = names.index(v.id)
                # the key tuple
                for kd in sc.defs.get("key", []):
                    if kd.kind == "assign" and isinstance(kd.value, ast.Tuple) and len(kd.value.elts) == len(names):
                        e = kd.value.elts[pos]
                        if isinstance(e, ast.Subscript) and isinstance(e.slice, ast.Constant):
                            return e.slice.value
    if isinstance(v, ast.Subscript) and isinstance(v.slice, ast.Constant) and isinstance(v.slice.value, str):
        return v.slice.value
    # k[2] with k the (not unpacked) key tuple of the lump loop
    if isinstance(v, ast.Subscript) and isinstance(v.slice, ast.Constant) and isinstance(v.slice.value, int) and isinstance(v.value, ast.Name):
        if any(d.kind == "for" or isinstance(d.stmt, ast.For) for d in sc.defs.get(v.value.id, [])):
            for kd in sc.defs.get("key", []):
                if kd.kind == "assign" and isinstance(kd.value, ast.Tuple) and 0 <= v.slice.value < len(kd.value.elts):
                    e = kd.value.elts[v.slice.value]
                    if isinstance(e, ast.Subscript) and isinstance(e.slice, ast.Constant):
                        return e.slice.value
    return None


@rule("R04.19", min_instances=5, desc="a declared placement option is honoured or rejected: refine>1 on a grid='control' constraint (points between the control nodes) is rejected by every sampling method before it imposes the constraint at the nodes only")
def r04_19(ctx):
    """D84: MultipleShooting / SingleShooting / DirectCollocation ignored `refine=` silently: `subject_to(s <= 1, refine=4)` held at the
    N+1 nodes only and the spline reached 2.97 in between (SplineMethod honours the option)."""
    from ..sim import Sim, fresh_obj
    from ..layout import Sym, LayoutUnknown
    P = ctx.prog
    for cname in ("MultipleShooting", "SingleShooting", "DirectCollocation"):
        f = P.own_method(cname, "add_constraints")
        outcome = {}
        for refine in (1, 3):
            imposed = []
            stage = fresh_obj("stage", _constraints={"control": [(Sym("c"), Sym("meta"), {"refine": refine, "include_first": True, "include_last": True, "scale": 1, "group_refine": Sym("g")})],
                                                     "integrator": [], "integrator_roots": [], "inf": [], "point": []})
            hooks = {".subject_to": lambda s_, r, a, k, n, imposed=imposed: imposed.append("subject_to")}
            sim = Sim(P, hooks=hooks)
            sim.self_class = cname
            # only the prelude matters: the run is cut at the first statement the interpreter has no meaning for
            try:
                sim.call(f, [fresh_obj("self", N=1, M=1), stage, Sym("opti")], {})
                outcome[refine] = "completed"
            except LayoutUnknown as e:
                outcome[refine] = "rejected" if str(e).startswith("raise reached") and not imposed else ("continues (%s)" % str(e)[:60])
        ctx.check(outcome[3] == "rejected", "%s.add_constraints rejects refine>1 on a grid='control' constraint" % cname,
                  detail="the constraint is imposed at the control nodes only although points in between were asked for (silently weaker problem)",
                  expected="an exception before any constraint is imposed", found=outcome[3], fi=f)
        ctx.check(outcome[1] != "rejected", "%s.add_constraints accepts refine=1" % cname, detail="plain control-grid constraints rejected", expected="no exception from the refine check", found=outcome[1], fi=f)
