"""C15 -- grid='inf' constraints guarantee satisfaction between grid points.

Decided: the coefficient time-scale and the derivative time-scale are the step length of the
interval being certified (uniform and non-uniform grids alike); every opcode of the expression
re-interpreter produces a value or raises (unsupported expressions are rejected); BSpline
comparison operators relay the matching operator to the coefficients in operand order; the
literal power->Bernstein matrix is C(i,j)/C(4,j); the certificate is emitted for every
integration interval by every method; substitution lists are paired.
Not decided: the mathematics of the convex-hull property (sufficiency/tightness), B-spline
product numerics.
"""
import ast
from fractions import Fraction
from math import comb

from ..core import rule
from ..model import AnalysisError
from ..norm import Norm, expected
from ..poly import Poly
from ..paths import must_on_all_paths, walk_no_nested, Walker, describe_exit
from ..loops import loop_context, loop_var
from ..effects import is_call_to

LEVEL = "other"


def interval_params(ctx, f, n):
    """(k, l): the parameters of add_inf_constraints that select interval and sub-step, read off the
    coefficient selection poly_coeff[k*M + l]."""
    for sub in walk_no_nested(f.node):
        if isinstance(sub, ast.Subscript) and isinstance(sub.value, ast.Attribute) and sub.value.attr == "poly_coeff" \
                and not isinstance(sub.slice, (ast.Slice, ast.Tuple)):
            idx = n.poly(sub.slice)
            params = [p for p in f.params if p in idx.atoms()]
            lin = idx.linear_in(params)
            if lin is None:
                continue
            coefs, rest = lin
            kk = [p for p, c in coefs.items() if c == expected("self.M")]
            ll = [p for p, c in coefs.items() if c == Poly.const(1)]
            if len(kk) == 1 and len(ll) == 1 and rest.is_zero():
                return kk[0], ll[0], sub, idx
            return None, None, sub, idx
    return None, None, None, None


@rule("R15.1", min_instances=4, desc="time scales of the certificate are the step length of interval k: (control_grid[k+1]-control_grid[k])/M, for coefficients and for inf_der alike")
def r15_1(ctx):
    prog = ctx.prog
    f = prog.method("SamplingMethod", "add_inf_constraints")
    n = ctx.norm(f)
    k, l, sub, idx = interval_params(ctx, f, n)
    ctx.check(k is not None, "add_inf_constraints coefficient block", detail="coefficient block is not poly_coeff[k*M+l]",
              expected="poly_coeff[k*self.M + l] with k the interval and l the sub-step parameter",
              found=str(idx) if idx is not None else "no poly_coeff[...] selection", fi=f, node=sub,
              sample={"index": str(idx)})
    if k is None:
        return
    step = expected("(self.control_grid[k+1]-self.control_grid[k])/self.M", k=k)
    # (a) powers tscale**i
    pows = []
    for node in walk_no_nested(f.node):
        if isinstance(node, ast.BinOp) and isinstance(node.op, ast.Pow) and isinstance(node.right, ast.Name):
            sc = ctx.scope(f)
            if any(d.kind == "comp" for d in sc.defs.get(node.right.id, [])):
                pows.append(node)
    ctx.check(len(pows) >= 1, "add_inf_constraints time-scale powers", detail="no tscale**i scaling of the coefficients",
              expected="coefficients scaled by step**i", found="no power expression over a comprehension index", fi=f)
    for pn in pows:
        base = n.poly(pn.left)
        ctx.check(base == step, "add_inf_constraints coefficient time-scale", detail="time-scale is not the step of interval k",
                  expected=step, found=base, fi=f, node=pn, sample={"tscale": str(base)})
    # (b) derivative scaling: <spline>.derivative() * (1/step)
    ders = [c for c in walk_no_nested(f.node) if isinstance(c, ast.Call) and isinstance(c.func, ast.Attribute) and c.func.attr == "derivative"]
    ctx.check(len(ders) >= 1, "add_inf_constraints inf_der substitution", detail="no derivative() of the state spline",
              expected="lookup[e].derivative()*(1/dt)", found="missing", fi=f)
    sc = ctx.scope(f)
    for dn in ders:
        top = dn
        while isinstance(sc.parent.get(top), ast.BinOp) and isinstance(sc.parent[top].op, (ast.Mult, ast.Div)):
            top = sc.parent[top]
        prod = n.poly(top)
        dkey = n.poly(dn).is_single_atom()
        coef = prod.coeff(dkey) if dkey else None
        want = expected("1/((self.control_grid[k+1]-self.control_grid[k])/self.M)", k=k)
        ctx.check(coef is not None and coef == want, "add_inf_constraints derivative time-scale", detail="derivative not divided by the step of interval k",
                  expected="derivative() * %s" % want, found="derivative() * %s" % coef, fi=f, node=top, sample={"factor": str(coef)})
        # derivative of the spline of the expression registered with inf_der: lookup[e] for e in _inf_der.values()
    # (c) the certificate is evaluated for interval k
    ev = [c for c in walk_no_nested(f.node) if is_call_to(c, "eval_at_control", "self")]
    ctx.check(len(ev) >= 1 and all(len(c.args) >= 3 and n.poly(c.args[2]) == Poly.atom(k) for c in ev),
              "add_inf_constraints evaluates remaining symbols at node k", detail="certificate evaluated at another node",
              expected="self.eval_at_control(stage, c_spline, %s)" % k,
              found="; ".join(ast.unparse(c) for c in ev) or "no eval_at_control", fi=f)


@rule("R15.2", min_instances=14, desc="opcode exhaustiveness of reinterpret_expr: every branch assigns its output slot or raises; the default raises")
def r15_2(ctx):
    prog = ctx.prog
    f = prog.function("casadi_helpers", "reinterpret_expr")

    def is_op_test(t):
        return isinstance(t, ast.Compare) and len(t.ops) == 1 and isinstance(t.ops[0], ast.Eq) and \
            any(isinstance(x, ast.Name) and x.id.startswith("OP_") for x in [t.left] + t.comparators)

    def opname(t):
        for x in [t.left] + t.comparators:
            if isinstance(x, ast.Name) and x.id.startswith("OP_"):
                return x.id
        return "?"

    def assigns_slot(nd):
        return isinstance(nd, ast.Assign) and any(isinstance(t, ast.Subscript) and isinstance(t.value, ast.Name) for t in nd.targets)

    branches = []   # (opname or 'default', body, node)
    defaults = []

    def collect(ifn):
        branches.append((opname(ifn.test), ifn.body, ifn))
        if len(ifn.orelse) == 1 and isinstance(ifn.orelse[0], ast.If) and is_op_test(ifn.orelse[0].test):
            collect(ifn.orelse[0])
        elif ifn.orelse:
            # an else that itself starts a nested chain (the CONST / else: if INPUT ... idiom)
            inner = [s for s in ifn.orelse if isinstance(s, ast.If) and is_op_test(s.test)]
            if len(ifn.orelse) == 1 and inner:
                collect(inner[0])
            else:
                defaults.append((ifn.orelse, ifn))
        else:
            defaults.append(([], ifn))

    tops = []
    for node in walk_no_nested(f.node):
        if isinstance(node, ast.If) and is_op_test(node.test):
            sc = ctx.scope(f)
            par = sc.parent.get(node)
            if isinstance(par, ast.If) and node in par.orelse and is_op_test(par.test):
                continue
            tops.append(node)
    if not tops:
        raise AnalysisError("reinterpret_expr: no opcode dispatch chain found")
    for t in tops:
        collect(t)
    for name, body, node in branches:
        ok, bad = must_on_all_paths(body, assigns_slot)
        ctx.check(ok, "reinterpret_expr branch %s" % name, detail="branch produces no value",
                  expected="work[...] / output_val[...] assigned (or raise) on every path", found="; ".join(describe_exit(e) for e in bad[:2]),
                  fi=f, node=node, sample={"op": name})
    ctx.check(len(defaults) >= 1, "reinterpret_expr default branch", detail="no default branch", expected="else: raise", found="none", fi=f)
    for body, node in defaults:
        w = Walker()
        exits = w.run(body, True) if body else [1]
        ctx.check(not exits, "reinterpret_expr default branch", detail="unknown operation is not rejected",
                  expected="raise for an unsupported operation", found="falls through (the work-vector slot keeps a stale value)" if body else "no else branch",
                  fi=f, node=(body[0] if body else node))
    # supported opcode set is recorded (sibling reference for later changes)
    ctx.note("opcodes", [b[0] for b in branches])


CMP = {"__ge__": ast.GtE, "__gt__": ast.Gt, "__le__": ast.LtE, "__lt__": ast.Lt}


@rule("R15.3", min_instances=6, desc="BSpline comparison operators relay the matching operator, in operand order, to the coefficients")
def r15_3(ctx):
    prog = ctx.prog
    mod = prog.modules["rockit/splines/spline.py"]
    prog._consulted.add(mod.relpath)
    if "BSpline" not in mod.classes:
        raise AnalysisError("class BSpline missing in splines/spline.py")
    cls = mod.classes["BSpline"]
    for name, op in CMP.items():
        f = cls.methods.get(name)
        if f is None:
            ctx.fail("BSpline.%s" % name, detail="operator missing", expected="def %s" % name, found="absent")
            continue
        ok = False
        found = ""
        for r in walk_no_nested(f.node):
            if isinstance(r, ast.Return) and r.value is not None:
                found = ast.unparse(r.value)
                v = r.value
                if isinstance(v, ast.Attribute) and v.attr == "coeffs" and is_call_to(v.value, "common", "self") and len(v.value.args) == 2:
                    lam = v.value.args[1]
                    other = v.value.args[0]
                    if isinstance(lam, ast.Lambda) and isinstance(lam.body, ast.Compare) and len(lam.body.ops) == 1 \
                            and isinstance(lam.body.ops[0], op) and len(lam.args.args) == 2 \
                            and isinstance(lam.body.left, ast.Name) and lam.body.left.id == lam.args.args[0].arg \
                            and isinstance(lam.body.comparators[0], ast.Name) and lam.body.comparators[0].id == lam.args.args[1].arg \
                            and isinstance(other, ast.Name) and other.id == f.params[1]:
                        ok = True
        ctx.check(ok, "BSpline.%s" % name, detail="operator not relayed faithfully",
                  expected="self.common(other, lambda a,b: a %s b).coeffs" % {ast.GtE: ">=", ast.Gt: ">", ast.LtE: "<=", ast.Lt: "<"}[op],
                  found=found, fi=f)
    # common(): op(self-side, other-side) in that order on both branches
    f = cls.methods.get("common")
    if f is None:
        raise AnalysisError("BSpline.common missing")
    opname = f.params[2]
    calls = [c for c in walk_no_nested(f.node) if isinstance(c, ast.Call) and isinstance(c.func, ast.Name) and c.func.id == opname]
    ctx.check(len(calls) >= 2, "BSpline.common applies op on both branches", detail="op not applied", expected="two applications of op", found=str(len(calls)), fi=f)
    for c in calls:
        a0 = ast.unparse(c.args[0]) if c.args else ""
        a1 = ast.unparse(c.args[1]) if len(c.args) > 1 else ""
        ok = "self.coeffs" in a0 and "self.coeffs" not in a1 and (f.params[1] in a1)
        ctx.check(ok, "BSpline.common operand order", detail="operands swapped", expected="op(<self coefficients>, <other>)", found=ast.unparse(c), fi=f, node=c)


def literal_matrix(node):
    """DM([[...],[...]]) -> list of rows of Fractions (entries are numeric constant expressions)."""
    if isinstance(node, ast.Call) and node.args:
        node = node.args[0]
    if not isinstance(node, ast.List):
        return None
    nm = Norm(None)
    rows = []
    for r in node.elts:
        if not isinstance(r, ast.List):
            return None
        row = []
        for e in r.elts:
            p = nm.poly(e)
            if not p.is_const():
                return None
            row.append(p.const_value())
        rows.append(row)
    return rows


def folded_matrix(node):
    """Constant folding of a nested comprehension whose only free names are degree (= 4), comb/factorial/min/max/range/abs/float/int
    and its own loop variables; entries are returned as Fractions (floats are snapped to the nearest fraction with denominator <= 1000)."""
    import math
    if not isinstance(node, ast.ListComp):
        return None
    allowed = {"comb": math.comb, "factorial": math.factorial, "min": min, "max": max, "range": range, "abs": abs, "float": float, "int": int,
               "len": len, "degree": 4, "d": 4}
    bound = {t.id for c in ast.walk(node) if isinstance(c, ast.comprehension) for t in ast.walk(c.target) if isinstance(t, ast.Name)}
    for x in ast.walk(node):
        if isinstance(x, ast.Name) and x.id not in allowed and x.id not in bound:
            return None
        if isinstance(x, (ast.Attribute, ast.Lambda, ast.Await, ast.Yield, ast.NamedExpr, ast.Starred)):
            return None
        if isinstance(x, ast.Call) and not (isinstance(x.func, ast.Name) and x.func.id in allowed):
            return None
    try:
        val = eval(compile(ast.Expression(node), "<fold>", "eval"), {"__builtins__": {}}, dict(allowed))
        return [[Fraction(e).limit_denominator(1000) for e in row] for row in val]
    except Exception:
        return None


@rule("R15.4", min_instances=26, desc="the literal power->Bernstein matrix equals C(i,j)/C(4,j) and is applied on the left of the transposed coefficients")
def r15_4(ctx):
    prog = ctx.prog
    f = prog.method("SamplingMethod", "add_inf_constraints")
    mats = []
    for node in walk_no_nested(f.node):
        if isinstance(node, ast.Assign) and isinstance(node.value, ast.Call):
            m = literal_matrix(node.value)
            if m and len(m) >= 2 and all(len(r) == len(m) for r in m):
                mats.append((node, m))
    if not mats:
        # the table may be written as a closed formula (nested comprehension over range(degree+1) of arithmetic in comb/min/max):
        # such a constant expression is folded here for degree = 4 and compared entry by entry like the literal (C15-r12-2)
        for node in walk_no_nested(f.node):
            if isinstance(node, ast.Assign) and isinstance(node.value, ast.Call) and node.value.args:
                m = folded_matrix(node.value.args[0])
                if m and len(m) >= 2 and all(len(r) == len(m) for r in m):
                    mats.append((node, m))
    if not mats:
        raise AnalysisError("add_inf_constraints: no literal or foldable square matrix found")
    node, m = mats[0]
    d = len(m) - 1
    ctx.check(d == 4, "Bernstein matrix size", detail="unexpected degree", expected="5x5 (degree 4)", found="%dx%d" % (len(m), len(m)), fi=f, node=node)
    for i in range(d + 1):
        for j in range(d + 1):
            want = Fraction(comb(i, j), comb(d, j)) if j <= i else Fraction(0)
            ctx.check(m[i][j] == want, "Bernstein matrix entry [%d][%d]" % (i, j), detail="wrong power->Bernstein coefficient",
                      expected=want, found=m[i][j], fi=f, node=node)
    # use: mtimes(Matrix, coeff.T)
    name = node.targets[0].id if isinstance(node.targets[0], ast.Name) else None
    uses = [c for c in walk_no_nested(f.node) if isinstance(c, ast.Call) and ast.unparse(c.func) in ("mtimes", "ca.mtimes")
            and c.args and isinstance(c.args[0], ast.Name) and c.args[0].id == name]
    ok = bool(uses) and all(len(c.args) == 2 and isinstance(c.args[1], ast.Attribute) and c.args[1].attr == "T" for c in uses)
    ctx.check(ok, "Bernstein matrix application", detail="matrix not applied as M @ coeff.T",
              expected="mtimes(%s, coeff.T)" % name, found="; ".join(ast.unparse(c) for c in uses) or "no use", fi=f)
    # the basis is the Bernstein basis of the coefficient degree: knots [0]*(degree+1)+[1]*(degree+1)
    n = ctx.norm(f)
    bb = [c for c in walk_no_nested(f.node) if isinstance(c, ast.Call) and ast.unparse(c.func) == "BSplineBasis"]
    okb = False
    for c in bb:
        if len(c.args) == 2:
            dk = n.poly(c.args[1])
            kn = c.args[0]

            def rep(x, val):
                """multiplicity polynomial of `[val]*m` / `m*[val]`, else None"""
                if isinstance(x, ast.BinOp) and isinstance(x.op, ast.Mult):
                    for lst, m in ((x.left, x.right), (x.right, x.left)):
                        if isinstance(lst, ast.List) and len(lst.elts) == 1 and isinstance(lst.elts[0], ast.Constant) and lst.elts[0].value == val:
                            return n.poly(m)
                return None
            okb = isinstance(kn, ast.BinOp) and isinstance(kn.op, ast.Add) and rep(kn.left, 0) == dk + 1 and rep(kn.right, 1) == dk + 1
            okb = okb and (dk == expected("coeff.shape[1]-1") or "shape[1]" in str(dk))
    ctx.check(okb, "Bernstein basis of the coefficient degree", detail="basis does not match coefficient width",
              expected="BSplineBasis([0]*(degree+1)+[1]*(degree+1), degree) with degree = coeff.shape[1]-1",
              found="; ".join(ast.unparse(c) for c in bb) or "none", fi=f)


@rule("R15.5", min_instances=6, desc="the certificate is emitted for every (interval, sub-step) by every method that accepts grid='inf' in its generic loop")
def r15_5(ctx):
    prog = ctx.prog
    for cname in ("MultipleShooting", "SingleShooting", "DirectCollocation"):
        f = prog.method(cname, "add_constraints")
        n = ctx.norm(f)
        sc = ctx.scope(f)
        calls = [c for c in walk_no_nested(f.node) if is_call_to(c, "add_inf_constraints", "self")]
        ctx.check(len(calls) >= 1, "%s places grid='inf' constraints" % cname, detail="inf constraints never placed",
                  expected="self.add_inf_constraints(stage, opti, c, k, l, meta) in the (k,l) loops", found="no call", fi=f)
        for c in calls:
            lc = loop_context(sc, n, c)
            kinds = [li.kind for li in lc]
            kv, lv = loop_var(lc, "N"), loop_var(lc, "M")
            cons = [li for li in lc if li.kind == "constraints"]
            ok = kv is not None and lv is not None and len(cons) == 1 and cons[0].extra == ["inf"]
            cvar = cons[0].var[0] if cons and isinstance(cons[0].var, tuple) else None
            if ok and len(c.args) >= 5:
                ok = ast.unparse(c.args[2]) == cvar and n.poly(c.args[3]) == Poly.atom(kv) and n.poly(c.args[4]) == Poly.atom(lv)
            # no skipping guard
            guards = [g for g in sc.guards(c)]
            ok = ok and not guards
            skips = [s for s in ast.walk(cons[0].owner) if isinstance(s, (ast.Continue, ast.Break))] if cons else []
            ok = ok and not skips
            ctx.check(ok, "%s inf placement domain" % cname, detail="not every (k,l) certified",
                      expected="for k in range(N): for l in range(M): for c in _constraints['inf']: add_inf_constraints(stage, opti, c, k, l, meta), unconditionally",
                      found="%s inside loops %s under guards %s" % (ast.unparse(c), kinds, [ast.unparse(g[0]) for g in guards]), fi=f, node=c)


@rule("R15.6", min_instances=4, desc="substitution lists of the certificate are built in lock-step (state i <-> spline of state i; derivative symbol <-> scaled derivative of the spline of ITS state; inert symbol <-> its expression) - decided on a simulated add_inf_constraints; a failed placement only drops on IndexError")
def r15_6(ctx):
    from ..sim import Sim, fresh_obj
    from ..layout import Sym, Obj, freeze, short, LayoutUnknown
    prog = ctx.prog
    f = prog.method("SamplingMethod", "add_inf_constraints")
    K = freeze
    x0, x1 = fresh_obj("x0", n=1), fresh_obj("x1", n=2)
    d0, d1, i0 = Sym("der_sym", 0), Sym("der_sym", 1), Sym("inert_sym", 0)
    e0 = Sym("inert_expr", 0)
    stage = fresh_obj("stage", states=[x0, x1], nx=3, _inf_der={K(d0): x1, K(d1): x0}, _inf_inert={K(i0): e0},
                      _method=fresh_obj("method", poly_coeff=[fresh_obj("coeff", shape=(3, 5))]))
    me = fresh_obj("self", M=1, N=2, control_grid=[Sym("t", 0), Sym("t", 1), Sym("t", 2)])
    calls = []

    def h_reinterpret(sim, recv, args, kwargs, n):
        calls.append(args)
        return Sym("c_spline")

    def h_horzsplit(sim, recv, args, kwargs, n):
        if len(args) == 2 and isinstance(args[1], list) and all(isinstance(v, int) for v in args[1]):
            return [Sym("piece", args[1][q], args[1][q + 1]) for q in range(len(args[1]) - 1)]
        return NotImplemented

    def h_cumsum(sim, recv, args, kwargs, n):
        if args and isinstance(args[0], list) and all(isinstance(v, int) for v in args[0]):
            out, tot = [], 0
            for v in args[0]:
                tot += v
                out.append(tot)
            return out
        return NotImplemented
    hooks = {"reinterpret_expr": h_reinterpret, "horzsplit": h_horzsplit, "np.cumsum": h_cumsum, "cumsum": h_cumsum,
             ".nnz": lambda s_, r, a, k, n: r.attrs["n"] if isinstance(r, Obj) and "n" in r.attrs else NotImplemented,
             ".numel": lambda s_, r, a, k, n: r.attrs["n"] if isinstance(r, Obj) and "n" in r.attrs else NotImplemented,
             "BSpline": lambda s_, r, a, k, n: Sym("spline", freeze(a[1]) if len(a) > 1 else None),
             "dict": lambda s_, r, a, k, n: ({freeze(p[0]): p[1] for p in a[0]} if a and isinstance(a[0], list) else (dict(k) if not a else NotImplemented))}
    hooks[".is_scalar"] = lambda s_, r, a, k, n: True
    try:
        Sim(prog, hooks=hooks).call(f, [me, stage, Sym("opti"), Sym("c"), 0, 0, Sym("meta")], {})
    except LayoutUnknown as e:
        raise AnalysisError("add_inf_constraints could not be simulated: %s" % e)
    # D81: a vector-valued constraint must be rejected before any spline is built (its entries would be paired with the Bernstein
    # coefficients of the polynomial: x <= [1,2,3,4,5] certified b_j <= j+1 instead of x(t) <= 1)
    scalar_calls = len(calls)
    hooks[".is_scalar"] = lambda s_, r, a, k, n: False
    outcome = "accepted"
    try:
        Sim(prog, hooks=hooks).call(f, [me, stage, Sym("opti"), Sym("c"), 0, 0, Sym("meta")], {})
    except LayoutUnknown as e:
        if str(e).startswith("raise reached"):
            outcome = "rejected" if len(calls) == scalar_calls else "rejected after the certificate was built"
        else:
            raise AnalysisError("add_inf_constraints (vector-valued constraint) could not be simulated: %s" % e)
    ctx.check(outcome == "rejected", "add_inf_constraints rejects a vector-valued constraint", detail="entries of a vector operand are paired with Bernstein coefficients instead of with time: the bound certified is not the bound declared",
              expected="an exception when MX(c) is not scalar, before reinterpret_expr", found=outcome, fi=f)
    del calls[scalar_calls:]
    if len(calls) != 1 or len(calls[0]) != 3:
        raise AnalysisError("add_inf_constraints: expected one reinterpret_expr(c, from, to) call")
    c, fr, to = calls[0]
    ctx.check(K(c) == K(Sym("c")), "reinterpret_expr receives the declared constraint", detail="another expression is certified", expected="c", found=short(c), fi=f)
    fr = list(fr) if isinstance(fr, (list, tuple)) else None
    to = list(to) if isinstance(to, (list, tuple)) else None
    ok = fr is not None and to is not None and len(fr) == len(to) == 5
    ctx.check(ok, "substitution lists grow in lock-step", detail="from/to lists differ in number of parts", expected="5 symbols and 5 replacements (2 states, 2 derivative symbols, 1 inert symbol)",
              found="%s vs %s" % (len(fr) if fr is not None else None, len(to) if to is not None else None), fi=f)
    if ok:
        pos = {K(v): q for q, v in enumerate(fr)}
        want_syms = [K(x0), K(x1), K(d0), K(d1), K(i0)]
        okp = sorted(map(repr, pos)) == sorted(map(repr, want_syms))

        def contains(t, sub):
            stack = [t]
            while stack:
                y = stack.pop()
                if y == sub:
                    return True
                if isinstance(y, tuple):
                    stack.extend(y)
            return False
        pieces = {K(x0): ("piece", 0, 1), K(x1): ("piece", 1, 3)}
        pairing = []
        if okp:
            for sym, state in ((K(x0), K(x0)), (K(x1), K(x1)), (K(d0), K(x1)), (K(d1), K(x0))):
                t = K(to[pos[sym]])
                mine, other = pieces[state], [v for k_, v in pieces.items() if k_ != state][0]
                good = contains(t, mine) and not contains(t, other) and (sym in (K(x0), K(x1)) or contains(t, "derivative"))
                pairing.append((short(fr[pos[sym]])[:20], good))
            pairing.append(("inert", K(to[pos[K(i0)]]) == K(e0)))
        okp = okp and all(g for _, g in pairing)
        ctx.check(okp, "substitution pairing", detail="symbols and replacements are not paired", expected="state i <-> spline of block i; derivative symbol <-> derivative of the spline of its own state; inert symbol <-> its expression",
                  found=str(pairing), fi=f, sample={"pairing": str(pairing)})
    # try/except discipline
    for t in [x for x in walk_no_nested(f.node) if isinstance(x, ast.Try)]:
        ok = all(h.type is not None and ast.unparse(h.type) == "IndexError" for h in t.handlers) and len(t.body) == 1
        ctx.check(ok, "add_inf_constraints try/except", detail="placement failure swallowed",
                  expected="try: <single subject_to> except IndexError", found="handlers: %s, %d statements" % ([ast.unparse(h.type) if h.type else "bare" for h in t.handlers], len(t.body)), fi=f, node=t)


OPCODE_SEMANTICS = {
    "OP_INPUT": "symbols_to[i[0]]",
    "OP_ADD": "work[i[0]] + work[i[1]]",
    "OP_TWICE": "2 * work[i[0]]",
    "OP_SUB": "work[i[0]] - work[i[1]]",
    "OP_MUL": "work[i[0]] * work[i[1]]",
    "OP_MTIMES": "np.dot(work[i[1]], work[i[2]]) + work[i[0]]",
    "OP_PARAMETER": "f.instruction_MX(k)",
    "OP_SQ": "work[i[0]]**2",
    "OP_LE": "work[i[0]] <= work[i[1]]",
    "OP_LT": "work[i[0]] < work[i[1]]",
    "OP_NEG": "-work[i[0]]",
    "OP_CONSTPOW": "work[i[0]]**work[i[1]]",
}


@rule("R15.7", min_instances=12, desc="each opcode of the re-interpreter computes exactly its CasADi operation on the substituted operands (no truncation, no operand swap)")
def r15_7(ctx):
    prog = ctx.prog
    f = prog.function("casadi_helpers", "reinterpret_expr")
    sc = ctx.scope(f)
    seen = {}
    for node in walk_no_nested(f.node):
        if isinstance(node, ast.If) and isinstance(node.test, ast.Compare) and len(node.test.ops) == 1 and isinstance(node.test.ops[0], ast.Eq):
            names = [x.id for x in [node.test.left] + node.test.comparators if isinstance(x, ast.Name) and x.id.startswith("OP_")]
            if not names:
                continue
            op = names[0]
            asg = [st for st in node.body if isinstance(st, ast.Assign) and isinstance(st.targets[0], ast.Subscript)]
            if op in OPCODE_SEMANTICS:
                want = Norm(None).poly(ast.parse(OPCODE_SEMANTICS[op], mode="eval").body)
                ok = len(asg) == 1 and Norm(None).key(asg[0].targets[0]) == "work[o[0]]" and Norm(None).poly(asg[0].value) == want
                seen[op] = True
                ctx.check(ok, "reinterpret_expr %s" % op, detail="operation altered (an expression outside the supported set is silently reinterpreted as another one)",
                          expected="work[o[0]] = " + OPCODE_SEMANTICS[op], found="; ".join(ast.unparse(a) for a in asg), fi=f, node=node, sample={"op": op})
    for op in OPCODE_SEMANTICS:
        if op not in seen:
            ctx.fail("reinterpret_expr %s" % op, detail="supported operation no longer handled", expected=OPCODE_SEMANTICS[op], found="no branch", fi=f)


@rule("R15.8", min_instances=2, desc="B-spline product (used by the inf certificate for products/powers of states): coefficients are paired row by row; a coefficient MATRIX (vector-valued state) is indexed by rows, not linearly")
def r15_8(ctx):
    """`coeffs[list]` on a CasADi matrix is linear indexing: for a 5 x n coefficient matrix it picks entries of the first column
    only, so s*s of a vector state certified its first component and left the others unconstrained."""
    from ..model import nested_functions
    P = ctx.prog
    f = P.own_method("BSpline", "__mul__")
    helpers = nested_functions(f)
    prods = [st for st in walk_no_nested(f.node) if isinstance(st, ast.Assign) and ast.unparse(st.targets[0]) == "coeffs_product" and isinstance(st.value, ast.BinOp) and isinstance(st.value.op, ast.Mult)]
    cas = [st for st in prods if any(isinstance(p_, ast.Try) and st in p_.body for p_ in ast.walk(f.node))]
    ctx.check(len(cas) == 1, "BSpline.__mul__ multiplies the paired coefficients", detail="structure", expected="coeffs_product = <rows of self.coeffs> * <rows of other.coeffs>", found=str(len(cas)), fi=f)
    for st in cas:
        for side, owner in ((st.value.left, "self"), (st.value.right, "other")):
            ok = False
            sel = side
            if isinstance(sel, ast.Call) and isinstance(sel.func, ast.Name) and sel.func.id in helpers and sel.args and ast.unparse(sel.args[0]) == "%s.coeffs" % owner:
                h = helpers[sel.func.id]
                rets = [r.value for r in walk_no_nested(h.node) if isinstance(r, ast.Return)]
                for r in rets:
                    branches = [r.body, r.orelse] if isinstance(r, ast.IfExp) else [r]
                    ok = any(isinstance(b, ast.Subscript) and isinstance(b.slice, ast.Tuple) and len(b.slice.elts) == 2 and ast.unparse(b.slice.elts[1]) == ":" for b in branches)
            elif isinstance(sel, ast.Subscript) and ast.unparse(sel.value) == "%s.coeffs" % owner:
                ok = isinstance(sel.slice, ast.Tuple) and len(sel.slice.elts) == 2 and ast.unparse(sel.slice.elts[1]) == ":"
            else:
                # the selection written out (or an inlined helper): some branch of the conditional expression selects rows
                leaves, work = [], [sel]
                while work:
                    e = work.pop()
                    if isinstance(e, ast.IfExp):
                        work += [e.body, e.orelse]
                    else:
                        leaves.append(e)
                ok = len(leaves) > 1 and all(isinstance(b, ast.Subscript) and ast.unparse(b.value) == "%s.coeffs" % owner for b in leaves) and \
                    any(isinstance(b.slice, ast.Tuple) and len(b.slice.elts) == 2 and ast.unparse(b.slice.elts[1]) == ":" for b in leaves)
            ctx.check(ok, "BSpline.__mul__ selects coefficient rows of %s" % owner, detail="linear indexing of a coefficient matrix: only the first component of a vector-valued state enters the product (the other components are not certified)",
                      expected="%s.coeffs[idx, :]" % owner, found=ast.unparse(side), fi=f, node=st, sample={"operand": ast.unparse(side)})


@rule("R15.9", min_instances=3, desc="spline objects are values: after construction no method assigns an attribute of self and no in-place operator (__imul__, __iadd__, ...) is defined - the re-interpreter reuses the spline of a state in every sub-expression")
def r15_9(ctx):
    P = ctx.prog
    mods = [m for m in P.modules.values() if m.relpath.endswith("splines/spline.py")]
    if not mods:
        raise AnalysisError("rockit/splines/spline.py not found")
    INPLACE = {"__iadd__", "__isub__", "__imul__", "__itruediv__", "__ipow__", "__imatmul__", "__ifloordiv__", "__imod__"}
    n = 0
    import os
    for m in mods:
        # the raw file: a newly added method would otherwise be treated as a new helper by the normalisation passes
        raw = ast.parse(open(os.path.join(P.root, m.relpath)).read())
        raw_methods = {cd.name: {x.name for x in cd.body if isinstance(x, ast.FunctionDef)} for cd in raw.body if isinstance(cd, ast.ClassDef)}
        for c in m.classes.values():
            chain = set(P.mro(c.name))
            if not ({"Spline", "Basis", "BSplineBasis"} & chain) and c.name not in ("Spline", "BSpline", "BSplineBasis", "Basis"):
                continue
            n += 1
            bad = ["%s.%s is defined" % (c.name, nm) for nm in sorted(raw_methods.get(c.name, set()) & INPLACE)]
            for name, f in c.methods.items():
                if name in ("__init__", "__setstate__"):
                    continue
                for st in walk_no_nested(f.node):
                    tg = []
                    if isinstance(st, ast.Assign):
                        tg = st.targets
                    elif isinstance(st, (ast.AugAssign, ast.AnnAssign)):
                        tg = [st.target]
                    for t in tg:
                        for x in ([t] if not isinstance(t, ast.Tuple) else t.elts):
                            base = x
                            while isinstance(base, ast.Subscript):
                                base = base.value
                            if isinstance(base, ast.Attribute) and isinstance(base.value, ast.Name) and base.value.id == "self":
                                bad.append("%s.%s writes self.%s" % (c.name, name, base.attr))
            ctx.check(not bad, "%s objects are immutable after construction" % c.name, detail="an arithmetic operation changes an operand in place: a state squared once is squared everywhere it is used again (p**2 + p certified as 2*p**2)",
                      expected="attribute writes only in __init__, no in-place operators", found="; ".join(sorted(set(bad))[:4]), fi=c.methods.get("__init__") or next(iter(c.methods.values())), sample={"class": c.name})
    if n == 0:
        raise AnalysisError("no spline classes found in rockit/splines/spline.py")


@rule("R15.10", min_instances=2, desc="the spline class the certificate is built from (BSpline) subtracts in operand order: `c - s` (constant minus state polynomial, reflected operator) is -(s - c), not s - c")
def r15_10(ctx):
    import os
    prog = ctx.prog
    mod = prog.modules["rockit/splines/spline.py"]
    cls = mod.classes.get("BSpline")
    if cls is None:
        raise AnalysisError("class BSpline missing in splines/spline.py")
    raw = ast.parse(open(os.path.join(prog.root, mod.relpath)).read())
    cdef = [c for c in raw.body if isinstance(c, ast.ClassDef) and c.name == "BSpline"][0]
    aliases = {t.id: ast.unparse(st.value) for st in cdef.body if isinstance(st, ast.Assign) for t in st.targets if isinstance(t, ast.Name)}
    K = lambda t: Norm(None).key(ast.parse(t, mode="eval").body)
    for refl, fwd, good in (("__rsub__", "__sub__", ("other + -self", "-self + other", "-(self - other)", "-self.__sub__(other)", "(-self).__add__(other)", "-self.common(other, lambda a, b: a - b)")),):
        if refl in aliases:
            ctx.fail("BSpline.%s computes other - self" % refl, detail="reflected subtraction aliased to %s: `constant - polynomial` is certified as `polynomial - constant` (the negated expression is bounded)" % aliases[refl],
                     expected="def %s(self, other): return other + (-self)" % refl, found="%s = %s" % (refl, aliases[refl]), fi=cls.methods.get(fwd) or next(iter(cls.methods.values())))
            continue
        f = cls.methods.get(refl)
        if f is None:
            # without a reflected operator Python raises TypeError for `constant - spline`: loud, not a wrong certificate
            ctx.ok("BSpline.%s absent: constant - spline raises" % refl)
            continue
        o = f.params[1]
        rets = [r.value for r in walk_no_nested(f.node) if isinstance(r, ast.Return) and r.value is not None]
        keys = {K(g.replace("other", o)) for g in good}
        ok = len(rets) == 1 and Norm(None).key(rets[0]) in keys
        ctx.check(ok, "BSpline.%s computes other - self" % refl, detail="`constant - polynomial` is not the negated `polynomial - constant`", expected="return other + (-self)", found="; ".join(ast.unparse(r) for r in rets), fi=f)
    # the forward operator keeps its operand order
    f = cls.methods.get("__sub__")
    if f is None and "__sub__" not in aliases:
        raise AnalysisError("BSpline.__sub__ missing")
    if f is not None:
        o = f.params[1]
        rets = [r.value for r in walk_no_nested(f.node) if isinstance(r, ast.Return) and r.value is not None]
        good = {K(g.replace("other", o)) for g in ("self + -other", "-other + self", "self.common(other, lambda a, b: a - b)", "self.__add__(-other)")}
        ctx.check(len(rets) == 1 and Norm(None).key(rets[0]) in good, "BSpline.__sub__ computes self - other", detail="operand order of the subtraction", expected="return self + (-other)", found="; ".join(ast.unparse(r) for r in rets), fi=f)


@rule("R15.11", min_instances=1, desc="SplineMethod bounds grid='inf' rows on the B-spline coefficients block by block (one block per coefficient width): a row that combines signals of different width must be rejected (or brought to a common basis) before the blocks are imposed with the row's full bounds")
def r15_11(ctx):
    """D87: `p + v <= 1` with der(p) = v became coeffs(p) <= 1 and coeffs(v) <= 1 separately: max (p+v)(t) = 1.77, solver success."""
    P = ctx.prog
    f = P.own_method("SplineMethod", "add_constraints_inf")
    sc = ctx.scope(f)
    def over_widths(l):
        return isinstance(l, ast.For) and "unique_widths" in ast.unparse(l.iter)
    imposing = [l for l in walk_no_nested(f.node) if over_widths(l) and any(isinstance(c, ast.Call) and isinstance(c.func, ast.Attribute) and c.func.attr == "subject_to" for c in ast.walk(l))]
    if not imposing:
        # no block-wise imposition any more (e.g. degree elevation to a common basis): nothing to guard
        ctx.ok("SplineMethod.add_constraints_inf does not impose 'inf' rows block by block", fi=f)
        return
    l = imposing[0]
    # the row's own bounds enter every block: lb[rows] .. ub[rows] inside the loop
    full_bounds = any(isinstance(c, ast.Call) and isinstance(c.func, ast.Attribute) and c.func.attr == "subject_to" and "lb" in ast.unparse(c) and "ub" in ast.unparse(c) for c in ast.walk(l))
    guards = [st for st in walk_no_nested(f.node) if isinstance(st, (ast.Raise, ast.Assert)) and sc.order[st] < sc.order[l]
              and any("width" in ast.unparse(t) for t, _ in sc.path_guards(st)) or (isinstance(st, ast.Assert) and sc.order[st] < sc.order[l] and "width" in ast.unparse(st.test))]
    ctx.check(bool(guards) or not full_bounds, "SplineMethod.add_constraints_inf rejects a row that combines signals of different coefficient width", detail="each width block is bounded with the row's full bounds and the sum with none: `p + der(p) <= 1` is certified as p <= 1 and der(p) <= 1",
              expected="an exception (or a common basis) before the per-width loop when a row has entries in more than one width", found="per-width loop at line %d without a preceding width check" % l.lineno, fi=f, node=l)
