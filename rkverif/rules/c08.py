"""C08 -- refined sampling and samplers interpolate the discrete solution consistently.

Decided: dense-output algebra of the explicit schemes -- the polynomial starts at the step's start
state, has the ODE right-hand side there as initial slope, and ends at the step's end state
(identity of normal forms), same for the quadrature (R08.1); refined sampling evaluates an ascending
power basis in a local time that restarts at every integrator step of length (t_{k+1}-t_k)/M and
selects block k*M+l (R08.2); collocation stores ascending Lagrange coefficients rescaled by 1/dt^i
of the interval's own step (R08.3); the sampler selects coefficient block, local-time origin and
control with plain (non-equidistant) lookups from one index (R08.4).
Not decided: Lagrange-basis numerics, convergence, exactness beyond start/slope/end.
"""
import ast

from ..core import rule
from ..model import AnalysisError
from ..norm import Norm, expected
from ..poly import Poly
from ..paths import walk_no_nested
from ..loops import loop_context, loop_var, classify_iter
from ..effects import is_call_to
from .. import algebra as AL

LEVEL = "other"


@rule("R08.1", min_instances=10, desc="dense output of rk / expl_euler: c0 = start state, c1 = ODE right-hand side at the step start, sum c_i*DT^i = xf (and the quadrature polynomial ends at qf)")
def r08_1(ctx):
    P = ctx.prog
    for name in ("intg_rk", "intg_expl_euler"):
        f = P.own_method("SamplingMethod", name)
        sm = AL.extract_step_map(ctx, f)
        X, DTk, t0 = sm.inputs.get("x0"), sm.inputs.get("DT"), sm.inputs.get("t0")
        DT = Poly.atom(DTk)
        d = AL.dense_output(sm, "poly_coeff")
        ctx.check(d is not None and len(d) >= 2, "%s stores dense-output coefficients" % name, detail="poly_coeff", expected="hcat([X, f0, ...])", found=str(None if d is None else len(d)), fi=f)
        if not d or len(d) < 2:
            continue
        ctx.check(d[0] == Poly.atom(X), "%s dense output starts at the step's start state" % name, detail="coefficient 0", expected=X, found=str(d[0])[:80], fi=f, sample={"c0": str(d[0])[:60]})
        first = sm.stage_keys[0]
        at = sm.stages[0]
        kw = at.parts["kw"]
        at_start = kw.get("x") == Poly.atom(X) and kw.get("t") == Poly.atom(t0)
        ctx.check(at_start and d[1] == Poly.atom("%s['ode']" % first), "%s dense output has the ODE right-hand side at the step start as initial slope" % name, detail="coefficient 1",
                  expected="f(x=X, t=t0)['ode']", found=str(d[1])[:100], fi=f)
        tot = Poly()
        for i, ci in enumerate(d):
            tot = tot + ci * DT ** i
        xf = sm.outputs["xf"][1]
        ctx.check(tot == xf, "%s dense output ends at the step's end state" % name, detail="polynomial evaluated at DT differs from xf (refined trajectory discontinuous)",
                  expected="sum_i c_i*DT^i == xf", found="difference: %s" % str(tot - xf)[:160], fi=f, sample={"degree": len(d) - 1})
        q = AL.dense_output(sm, "poly_coeff_q")
        if q:
            totq = Poly()
            for i, ci in enumerate(q):
                totq = totq + ci * DT ** (i + 1)
            qf = sm.outputs["qf"][1]
            ctx.check(totq == qf, "%s quadrature dense output ends at qf" % name, detail="quadrature polynomial", expected="sum_i q_i*DT^(i+1) == qf", found="difference: %s" % str(totq - qf)[:160], fi=f)
            ctx.check(q[0] == Poly.atom("%s['quad']" % first), "%s quadrature dense output starts with the integrand at the step start" % name, detail="quadrature coefficient 0", expected="f(...)['quad'] at the step start",
                      found=str(q[0])[:80], fi=f)


@rule("R08.2", min_instances=9, desc="refined sampling (_grid_intg_fine): ascending power basis, local time restarting at every integrator step of length (t_{k+1}-t_k)/M, coefficient block k*M+l, same interval's control")
def r08_2(ctx):
    P = ctx.prog
    f = P.own_method("Stage", "_grid_intg_fine")
    sc = ctx.scope(f)
    n = ctx.norm(f)
    # the main evaluation inside (k, l)
    calls = [c for c in walk_no_nested(f.node) if is_call_to(c, "eval_at_integrator", "stage._method")]
    inner = [c for c in calls if len(sc.enclosing_loops(c)) == 2]
    ctx.check(len(inner) == 1, "_grid_intg_fine evaluates once per integrator step", detail="evaluation loops", expected="one call inside for k: for l:", found=str(len(inner)), fi=f)
    if len(inner) != 1:
        return
    c = inner[0]
    loops = sc.enclosing_loops(c)
    kv, lv = ast.unparse(loops[0][0]), ast.unparse(loops[1][0])
    its = [ast.unparse(l[1]) for l in loops]
    kinds = [li.kind for li in loop_context(sc, n, c)]
    ctx.check(kinds == ["N", "M"], "_grid_intg_fine loops over intervals and integrator steps", detail="loops", expected="for k in range(N): for l in range(M)", found=its, fi=f)
    ctx.check([ast.unparse(a) for a in c.args[2:]] == [kv, lv] and ast.unparse(c.args[0]) == "stage", "_grid_intg_fine substitutes the remaining symbols of step (k,l)", detail="evaluator indices", expected="eval_at_integrator(stage, ..., k, l)",
              found=ast.unparse(c)[:80], fi=f)
    # local aliases of sizes and of the control grid (N, M, time) are expanded; computed locals keep their names
    na = Norm(sc, alias_only=True)
    G, Mx = "stage._method.control_grid", "stage._method.M"
    KA = lambda text: Norm(None).key(ast.parse(text.replace("@G", G).replace("@M", Mx), mode="eval").body)
    def local_def(name, within=None):
        ds = [d for d in sc.defs.get(name, []) if d.kind == "assign" and (within is None or sc.within(d.stmt, within))]
        return ds
    # dt
    dts = local_def("dt", loops[0][2])
    ok = len(dts) == 1 and na.key(dts[0].value) == KA("(@G[%s+1]-@G[%s])/@M" % (kv, kv))
    ctx.check(ok, "_grid_intg_fine step length of interval k", detail="refined local time spans another length", expected="dt = (time[k+1]-time[k])/M", found=ast.unparse(dts[0].value) if dts else None, fi=f,
              sample={"dt": ast.unparse(dts[0].value) if dts else None})
    tm = local_def("time")
    ctx.check(all(ast.unparse(d.value) == "stage._method.control_grid" for d in tm), "_grid_intg_fine uses the control grid", detail="time source", expected="time = stage._method.control_grid", found=ast.unparse(tm[0].value) if tm else None, fi=f)
    tl = local_def("tlocal", loops[0][2])
    ok = len(tl) == 1 and Norm(None).key(tl[0].value) == Norm(None).key(ast.parse("linspace(MX(0), dt, refine + 1)", mode="eval").body)
    ctx.check(ok, "_grid_intg_fine local time restarts at 0 and spans one integrator step", detail="local time", expected="tlocal = linspace(0, dt, refine+1)", found=ast.unparse(tl[0].value) if tl else None, fi=f)
    ts = [d for d in local_def("ts", loops[0][2])]
    ok = len(ts) == 1 and Norm(None).key(ts[0].value) in (Norm(None).key(ast.parse("tlocal[:-1,:]", mode="eval").body), Norm(None).key(ast.parse("tlocal[:-1]", mode="eval").body))
    ctx.check(ok, "_grid_intg_fine samples `refine` local times per step, excluding the step end", detail="local sample times", expected="ts = tlocal[:-1]", found=ast.unparse(ts[0].value) if ts else None, fi=f)
    # coefficient block and power basis
    co = local_def("coeff", loops[1][2])
    ok = len(co) == 1 and isinstance(co[0].value, ast.IfExp) and na.key(co[0].value.orelse) == KA("stage._method.poly_coeff[%s*@M+%s]" % (kv, lv))
    ctx.check(ok, "_grid_intg_fine selects the coefficient block of step (k,l)", detail="coefficients of another step", expected="stage._method.poly_coeff[k*M+l]", found=ast.unparse(co[0].value) if co else None, fi=f,
              sample={"block": ast.unparse(co[0].value) if co else None})
    cq = local_def("coeff_q", loops[1][2])
    ok = len(cq) == 1 and isinstance(cq[0].value, ast.IfExp) and na.key(cq[0].value.orelse) == KA("horzcat(stage._method.xqk[%s*@M+%s], stage._method.poly_coeff_q[%s*@M+%s])" % (kv, lv, kv, lv))
    ctx.check(ok, "_grid_intg_fine quadrature polynomial starts at the quadrature value of the same integrator point", detail="quadrature block", expected="horzcat(xqk[k*M+l], poly_coeff_q[k*M+l])",
              found=ast.unparse(cq[0].value) if cq else None, fi=f)
    tp = local_def("tpower", loops[1][2])
    ok = len(tp) == 1 and isinstance(tp[0].value, ast.IfExp)
    if ok:
        v = tp[0].value.orelse
        ok = Norm(None).key(v) == Norm(None).key(ast.parse("hcat([constpow(ts,i) for i in range(either_coeff.shape[1])]).T", mode="eval").body)
    ctx.check(ok, "_grid_intg_fine uses the ascending power basis of the coefficient width", detail="power basis order or length", expected="[ts**i for i in range(ncols)] (ascending)", found=ast.unparse(tp[0].value) if tp else None, fi=f)
    # expr_f call: local absolute time, state polynomial, this interval's control
    ef = c.args[1] if len(c.args) > 1 else None
    ok = isinstance(ef, ast.Call) and isinstance(ef.func, ast.Name) and len(ef.args) == 8
    if ok:
        a = ef.args
        lt = local_def("local_t", loops[1][2])
        okt = len(lt) == 1 and Norm(None).key(lt[0].value) == Norm(None).key(ast.parse("t0+tlocal[:-1]", mode="eval").body) and ast.unparse(a[0]) == "local_t.T"
        ctx.check(okt, "_grid_intg_fine absolute sample times = running step start + local time", detail="absolute time of the refined samples", expected="local_t = t0 + tlocal[:-1]", found=ast.unparse(lt[0].value) if lt else None, fi=f)
        okx = isinstance(a[1], ast.IfExp) and Norm(None).key(a[1].orelse) == "mtimes(coeff,tpower)"
        ctx.check(okx, "_grid_intg_fine state = coefficients * power basis", detail="state evaluation", expected="mtimes(coeff, tpower)", found=ast.unparse(a[1]), fi=f)
        oku = ast.unparse(a[4]) == "stage._method.U[%s]" % kv
        ctx.check(oku, "_grid_intg_fine uses the control of interval k", detail="control of another interval", expected="stage._method.U[k]", found=ast.unparse(a[4]), fi=f)
    # every call of the expression function passes its arguments in the order of its own signature (t, x, xq, z, u, pv, t0, T)
    efd = [d for d in sc.defs.get("expr_f", []) if d.kind == "assign"]
    okf = len(efd) == 1 and isinstance(efd[0].value, ast.Call) and len(efd[0].value.args) >= 3 and isinstance(efd[0].value.args[1], ast.List)
    if okf:
        sig = [ast.unparse(e) for e in efd[0].value.args[1].elts]
        okf = sig == ["stage.t", "stage.x", "stage.xq", "stage.z", "stage.u", "vertcat(stage.p, stage.v)", "stage.t0", "stage.T"]
        ecalls = [x for x in walk_no_nested(f.node) if isinstance(x, ast.Call) and isinstance(x.func, ast.Name) and x.func.id == "expr_f"]
        for x in ecalls:
            tail = [ast.unparse(a) for a in x.args[-2:]]
            ctx.check(len(x.args) == 8 and tail == ["stage._method.t0", "stage._method.T"], "_grid_intg_fine passes t0 and T in the order of the expression function's signature (line-role %s)" % ("final point" if not sc.enclosing_loops(x) else "steps"),
                      detail="T and t0 exchanged inside the sampled expression", expected="(..., stage._method.t0, stage._method.T)", found=str(tail), fi=f, node=x)
            ctx.check(ast.unparse(x.args[4]).startswith("stage._method.U["), "_grid_intg_fine passes the control in the control slot", detail="argument order", expected="5th argument = U[...]", found=ast.unparse(x.args[4]) if len(x.args) > 4 else "", fi=f, node=x)
    ctx.check(okf, "_grid_intg_fine expression function signature", detail="signature", expected="[t, x, xq, z, u, vertcat(p,v), t0, T]", found=ast.unparse(efd[0].value)[:120] if efd else None, fi=f)
    # running step start: t0 = time[k] at the top of k, advanced by dt once per l
    t0d = [d for d in sc.defs.get("t0", []) if d.kind == "assign" and sc.within(d.stmt, loops[0][2])]
    aug = [d for d in sc.defs.get("t0", []) if d.kind == "aug" and sc.within(d.stmt, loops[1][2])]
    ok = len(t0d) == 1 and na.key(t0d[0].value) == KA("@G[%s]" % kv) and len(aug) == 1 and ast.unparse(aug[0].stmt.value) == "dt" and isinstance(aug[0].stmt.op, ast.Add) and sc.order[aug[0].stmt] > sc.order[c]
    ctx.check(ok, "_grid_intg_fine step start runs through the integrator grid of interval k", detail="step start times", expected="t0 = time[k]; per l: ...; t0 += dt", found="", fi=f)
    tt = [x for x in walk_no_nested(f.node) if is_call_to(x, "append", "total_time")]
    ok = len(tt) == 2 and ast.unparse(tt[0].args[0]) == "local_t" and na.key(tt[1].args[0]) == KA("@G[%s+1]" % kv)
    ctx.check(ok, "_grid_intg_fine returned times: per-step samples then the final node", detail="returned time vector", expected="total_time.append(local_t) per step; finally time[k+1]", found="; ".join(ast.unparse(x) for x in tt), fi=f)


@rule("R08.3", min_instances=5, desc="collocation dense output: ascending Lagrange coefficients, rescaled by 1/dt^i with the interval's own step, one block per integration interval in (k,i) order")
def r08_3(ctx):
    P = ctx.prog
    f = P.own_method("DirectCollocation", "add_constraints")
    sc = ctx.scope(f)
    n = ctx.norm(f)
    # ascending storage: every Lagrange row is appended as hcat(<poly>.coef[::-1]) (local names are free)
    asc = [c for c in walk_no_nested(f.node) if isinstance(c, ast.Call) and isinstance(c.func, ast.Attribute) and c.func.attr == "append" and c.args
           and is_call_to(c.args[0], "hcat") and c.args[0].args and isinstance(c.args[0].args[0], ast.Subscript)
           and isinstance(c.args[0].args[0].value, ast.Attribute) and c.args[0].args[0].value.attr in ("coef", "coeffs", "c")]
    ok = len(asc) == 2 and all(ast.unparse(c.args[0].args[0].slice) == "::-1" for c in asc)
    ctx.check(ok, "Lagrange basis rows stored in ascending powers", detail="coefficient order (numpy poly1d is descending)", expected="rows.append(hcat(p.coef[::-1])) for the state and the algebraic basis",
              found="; ".join(ast.unparse(c) for c in asc), fi=f)
    if asc:
        loops = sc.enclosing_loops(asc[0])
        rb = loops[-1][1] if loops else None
        ok = rb is not None and is_call_to(rb, "range") and Norm(sc).poly(rb.args[-1]) == expected("self.degree+1") and (len(rb.args) == 1 or Norm(sc).poly(rb.args[0]) == Poly.const(0))
        ctx.check(ok, "one Lagrange polynomial per interpolation node (degree+1)", detail="basis size", expected="for j in range(self.degree+1)", found=ast.unparse(rb) if rb is not None else None, fi=f)
    # Lagrange construction: product over r != j of (t - tau_r)/(tau_j - tau_r)
    mul = [st for st in walk_no_nested(f.node) if isinstance(st, ast.AugAssign) and isinstance(st.target, ast.Name) and isinstance(st.op, ast.Mult) and "poly1d" in ast.unparse(st.value)]
    okm = len(mul) >= 1
    for m in mul[:1]:
        loops = sc.enclosing_loops(m)
        okm = len(loops) >= 2
        if okm:
            j, r = ast.unparse(loops[-2][0]), ast.unparse(loops[-1][0])
            v = m.value
            okm = isinstance(v, ast.BinOp) and isinstance(v.op, ast.Div) and is_call_to(v.left, "poly1d") and isinstance(v.left.args[0], ast.List) and len(v.left.args[0].elts) == 2
            if okm:
                one, neg = v.left.args[0].elts
                tnames = [x for x in ast.walk(neg) if isinstance(x, ast.Subscript)]
                T = ast.unparse(tnames[0].value) if tnames else None
                okm = ast.unparse(one) == "1" and Norm(None).poly(neg) == Norm(None).poly(ast.parse("-%s[%s]" % (T, r), mode="eval").body) and \
                    Norm(None).poly(v.right) == Norm(None).poly(ast.parse("%s[%s]-%s[%s]" % (T, j, T, r), mode="eval").body)
                gs = [(Norm(None).key(t), p) for t, p in sc.guards(m)]
                okm = okm and gs == [(Norm(None).key(ast.parse("%s!=%s" % (r, j), mode="eval").body), True)]
    ctx.check(okm, "Lagrange polynomial j: product over r != j of (t - tau_r)/(tau_j - tau_r)", detail="interpolation basis", expected="p *= poly1d([1, -tau_r])/(tau_j - tau_r) for r != j", found="; ".join(ast.unparse(m) for m in mul), fi=f)
    S = [d for d in sc.defs.get("S", []) if d.kind == "assign"]
    ok = len(S) == 1 and Norm(None).key(S[0].value) == Norm(None).key(ast.parse("1/repmat(hcat([dt**i for i in range(self.degree + 1)]), self.degree + 1, 1)", mode="eval").body)
    ctx.check(ok, "time rescaling of the coefficients: column i divided by dt^i", detail="rescaling from normalised to physical local time", expected="S = 1/repmat(hcat([dt**i for i in range(degree+1)]), degree+1, 1)",
              found=ast.unparse(S[0].value) if S else None, fi=f)
    if S:
        from .c02 import resolve_dt, step_of
        lc = loop_context(sc, n, S[0].stmt)
        kv = loop_var(lc, "N")
        dtn = [x for x in ast.walk(S[0].value) if isinstance(x, ast.Name) and x.id == "dt"]
        ok = kv is not None and dtn and n.poly(dtn[0]) == step_of(kv)
        ctx.check(ok, "the rescaling uses the step of the interval being stored", detail="coefficients of interval k scaled with another interval's step", expected="dt = (control_grid[k+1]-control_grid[k])/M of the same k",
                  found=str(n.poly(dtn[0])) if dtn else None, fi=f)
    pc = [c for c in walk_no_nested(f.node) if is_call_to(c, "append", "self.poly_coeff")]
    ok = len(pc) == 1
    if ok:
        lc = loop_context(sc, n, pc[0])
        ok = [li.kind for li in lc] == ["N", "M"] and Norm(None).key(pc[0].args[0]) == Norm(None).key(ast.parse("mtimes(self.Xc[%s][%s], poly*S)" % (lc[0].var, lc[1].var), mode="eval").body)
    ctx.check(ok, "one coefficient block per integration interval, from that interval's helper states", detail="block order / source", expected="self.poly_coeff.append(mtimes(self.Xc[k][i], poly*S)) in (k,i) order",
              found="; ".join(ast.unparse(c) for c in pc), fi=f, sample={"block": ast.unparse(pc[0]) if pc else None})


@rule("R08.4", min_instances=7, desc="sampler: one plain lookup index selects coefficient block and local-time origin; control selected by a plain lookup in the control grid; ascending powers of the local time")
def r08_4(ctx):
    P = ctx.prog
    f = P.own_method("Stage", "sampler")
    sc = ctx.scope(f)

    def d1(name):
        ds = [d for d in sc.defs.get(name, []) if d.kind == "assign"]
        return ds[0].value if len(ds) == 1 else None

    def key(v):
        return Norm(None).key(v) if v is not None else None
    # the whole data flow is expanded from the returned Function, so local names do not matter
    n = ctx.norm(f)
    fc = [c for c in walk_no_nested(f.node) if isinstance(c, ast.Call) and ast.unparse(c.func) == "Function" and len(c.args) >= 3 and ast.unparse(c.args[0]) == "name"]
    ctx.check(len(fc) == 1, "sampler builds one function of (gist, t)", detail="sampler function", expected="Function(name, [self.gist, t], ...)", found=str(len(fc)), fi=f)
    if len(fc) != 1:
        return
    ctx.check(ast.unparse(fc[0].args[1]) == "[self.gist, t]", "sampler inputs are (gist, t)", detail="inputs", expected="[self.gist, t]", found=ast.unparse(fc[0].args[1]), fi=f)
    call = fc[0].args[2]
    ok = isinstance(call, ast.Call) and isinstance(call.func, ast.Attribute) and call.func.attr == "call" and call.args and isinstance(call.args[0], ast.List) and len(call.args[0].elts) == 4
    ctx.check(ok, "sampler evaluates the expressions at (t, x(t), z(t), u(t))", detail="sampler evaluation", expected="expr_f.call([t, x, z, u])", found=ast.unparse(call)[:100], fi=f)
    if not ok:
        return
    et, ex, ez, eu = call.args[0].elts
    TIME = "vcat(self._method.integrator_grid)"
    IDX = "low(%s, t)" % TIME
    S = "self._method.poly_coeff[0].shape[1]"
    want = {
        "time argument": (et, "t", "the query time itself"),
        "state argument": (ex, "mtimes(hcat(self._method.poly_coeff)[:, ({i}*{s}+DM(range({s})).T)], constpow(t-{time}[{i}], range({s})))".format(i=IDX, s=S, time=TIME),
                           "coefficient block and local-time origin selected by one plain (non-equidistant) lookup in the integrator grid; ascending powers"),
        "control argument": (eu, "hcat(self._method.U)[:, low(self._method.control_grid, t)]", "control of the interval containing t, by a plain lookup in the control grid"),
    }
    for nm, (node, text, why) in want.items():
        got = n.key(node)
        w = Norm(None).key(ast.parse(text, mode="eval").body)
        ctx.check(got == w, "sampler %s" % nm, detail=why, expected=w, found=got, fi=f, node=fc[0], sample={nm: got[:160]})
    # algebraic argument: NaN without coefficients, else the same lookup index into the algebraic blocks (their own width)
    SZ = "self._method.poly_coeff_z[0].shape[1]"
    zdefs = [d for d in sc.defs.get(ast.unparse(ez), [])] if isinstance(ez, ast.Name) else []
    zvals = [d.value for d in zdefs if d.kind == "assign" and ast.unparse(d.value) != "nan"]
    wz = Norm(None).key(ast.parse("mtimes(hcat(self._method.poly_coeff_z)[:, {i}*{s}+DM(range({s})).T], constpow(t-{time}[{i}], range({s})))".format(i=IDX, s=SZ, time=TIME), mode="eval").body)
    gotz = n.key(zvals[0]) if len(zvals) == 1 else None
    ctx.check(len(zdefs) == 2 and gotz == wz, "sampler algebraic argument", detail="algebraic coefficient block and local-time origin selected by the same lookup index, block width of the algebraic polynomial; ascending powers",
              expected=wz, found=gotz, fi=f, node=fc[0], sample={"algebraic argument": (gotz or "")[:160]})
    ef = d1("expr_f")
    ok = ef is not None and key(ef) == key(ast.parse("Function('expr', [self.t, self.x, self.z, self.u], exprs)", mode="eval").body)
    ctx.check(ok, "sampler expression function takes (t, x, z, u) in that order", detail="argument order of the expression function", expected="Function('expr', [self.t, self.x, self.z, self.u], exprs)", found=key(ef), fi=f)
    ctx.check("transcribed" in f.decorators, "sampler is @transcribed", detail="decorator", expected="@transcribed", found=str(f.decorators), fi=f)
    g = P.own_method("OcpSolution", "sampler")
    ok = any(isinstance(c, ast.Call) and ast.unparse(c.func) == "functools.partial" and [ast.unparse(a) for a in c.args] == ["s", "self.gist"] for c in walk_no_nested(g.node))
    ctx.check(ok, "sol.sampler binds the solution's gist", detail="numeric sampler", expected="functools.partial(s, self.gist)", found="", fi=g)


@rule("R08.5", min_instances=3, desc="the integrator grid the refined samples and the sampler are anchored on splits each control interval into M equal steps (shared with C06)")
def r08_5(ctx):
    from .c06 import r06_2
    r06_2(ctx)


@rule("R08.6", min_instances=20, desc="what the dense output is anchored on: every integrator sub-step starts at its own time and state (discrete_system chain, shared with C01) and the collocation polynomial's end value closes the step for every scheme (shared with C02)")
def r08_6(ctx):
    from .c01 import r01_1
    from .c02 import r02_5
    r01_1(ctx)
    r02_5(ctx)


@rule("R08.7", min_instances=3, desc="refined sampling rejects what it cannot interpolate: an expression of states / quadrature states / algebraic variables needs the polynomial coefficients of that family, else raise (never NaN)")
def r08_7(ctx):
    P = ctx.prog
    f = P.own_method("Stage", "_grid_intg_fine")
    sc = ctx.scope(f)
    expr = f.params[2]
    fams = {"stage.x": "poly_coeff", "stage.xq": "poly_coeff_q", "stage.z": "poly_coeff_z"}
    seen = {}
    for st in f.node.body:
        if isinstance(st, ast.If) and any(isinstance(x, ast.Raise) for x in ast.walk(st)):
            t = ast.unparse(st.test).replace(" ", "")
            for sym, coeff in fams.items():
                if "depends_on(%s,%s)" % (expr, sym) in t and ("stage._method.%sisNone" % coeff in t or "notstage._method.%s" % coeff in t):
                    seen[sym] = st
    first_use = min([sc.order[c] for c in walk_no_nested(f.node) if is_call_to(c, "eval_at_integrator", "stage._method")] or [10 ** 9])
    for sym, coeff in fams.items():
        ok = sym in seen and sc.order[seen[sym]] < first_use
        ctx.check(ok, "_grid_intg_fine: an expression of %s without %s is rejected" % (sym, coeff), detail="refined samples are NaN (the interpolation polynomial of this family does not exist for the chosen integrator) instead of an error",
                  expected="if depends_on(expr, %s) and stage._method.%s is None (or empty): raise" % (sym, coeff), found="guarded families: %s" % sorted(seen), fi=f, sample={"family": sym, "guarded": sym in seen})


@rule("R08.8", min_instances=8, desc="pack order on the refined-sampling path: the values fed to the expression function's p input are in the order Stage.p + Stage.v declares them")
def r08_8(ctx):
    from .c01 import check_pack_order_fine
    check_pack_order_fine(ctx)


@rule("R08.9", min_instances=10, desc="refined sampling, the parts R08.2 does not look at: the algebraic-variable polynomial inside the (k,l) loop and the closing point after it (end of the last step: last coefficient blocks, last control, final time, final-node parameters)")
def r08_9(ctx):
    P = ctx.prog
    f = P.own_method("Stage", "_grid_intg_fine")
    sc = ctx.scope(f)
    K = lambda t: Norm(None).key(ast.parse(t, mode="eval").body)
    NK = lambda x: Norm(None).key(x)
    calls = [c for c in walk_no_nested(f.node) if is_call_to(c, "eval_at_integrator", "stage._method")]
    inner = [c for c in calls if len(sc.enclosing_loops(c)) == 2]
    outer = [c for c in calls if len(sc.enclosing_loops(c)) == 0]
    if len(inner) != 1 or len(outer) != 1:
        raise AnalysisError("_grid_intg_fine: expected one evaluation inside the (k,l) loops and one closing evaluation, found %d / %d" % (len(inner), len(outer)))
    loops = sc.enclosing_loops(inner[0])
    kv, lv = ast.unparse(loops[0][0]), ast.unparse(loops[1][0])
    kloop, lloop = loops[0][2], loops[1][2]
    POW = "hcat([constpow(ts,i) for i in range(%s.shape[1])]).T"

    def defs_in(name, where):
        return [d for d in sc.defs.get(name, []) if d.kind == "assign" and sc.within(d.stmt, where)]

    def defs_after(name):
        return [d for d in sc.defs.get(name, []) if d.kind == "assign" and not sc.within(d.stmt, kloop) and sc.order[d.stmt] > sc.order[kloop]]

    # (a) algebraic variables inside the loop
    cz = defs_in("coeff_z", lloop)
    ok = len(cz) == 1 and Norm(sc, alias_only=True).key(cz[0].value) == Norm(None).key(ast.parse("stage._method.poly_coeff_z[%s*stage._method.M+%s]" % (kv, lv), mode="eval").body)
    ctx.check(ok, "_grid_intg_fine selects the algebraic coefficient block of step (k,l)", detail="algebraic polynomial of another step", expected="coeff_z = poly_coeff_z[k*M+l]", found=ast.unparse(cz[0].value) if cz else None, fi=f)
    tz = defs_in("tpower_z", lloop)
    ok = len(tz) == 1 and NK(tz[0].value) == K(POW % "coeff_z")
    ctx.check(ok, "_grid_intg_fine algebraic power basis is ascending with the width of coeff_z", detail="power basis of the algebraic polynomial", expected="[ts**i for i in range(coeff_z.shape[1])]", found=ast.unparse(tz[0].value) if tz else None, fi=f)
    zz = defs_in("z", lloop)
    ok = len(zz) == 2 and sorted(NK(d.value) for d in zz) == sorted([K("mtimes(coeff_z,tpower_z)"), K("nan")])
    ctx.check(ok, "_grid_intg_fine algebraic value = coefficients * power basis (NaN only without coefficients)", detail="algebraic evaluation", expected="z = mtimes(coeff_z, tpower_z)", found="; ".join(ast.unparse(d.value) for d in zz), fi=f)
    ef = inner[0].args[1] if len(inner[0].args) > 1 else None
    ok = isinstance(ef, ast.Call) and len(ef.args) == 8 and ast.unparse(ef.args[3]) == "z" and isinstance(ef.args[2], ast.IfExp) and NK(ef.args[2].orelse) == K("mtimes(coeff_q,tpower)")
    ctx.check(ok, "_grid_intg_fine hands z and the quadrature polynomial to their own slots of the expression function", detail="slot order (t, x, xq, z, u, p, t0, T)", expected="expr_f(local_t.T, x, mtimes(coeff_q,tpower), z, ...)",
              found=ast.unparse(ef)[:140] if ef is not None else None, fi=f)
    # (b) closing point
    ts = defs_after("ts")
    ok = len(ts) == 1 and NK(ts[0].value) in (K("tlocal[-1,:]"), K("tlocal[-1]"))
    ctx.check(ok, "_grid_intg_fine closing point: local time = end of the last step", detail="closing sample taken elsewhere in the last step", expected="ts = tlocal[-1,:]", found=ast.unparse(ts[0].value) if ts else None, fi=f)
    tp = defs_after("tpower")
    ok = len(tp) == 1 and isinstance(tp[0].value, ast.IfExp) and NK(tp[0].value.orelse) == K(POW % "either_coeff")
    ctx.check(ok, "_grid_intg_fine closing point: ascending power basis", detail="power basis at the closing point", expected="[ts**i for i in range(ncols)]", found=ast.unparse(tp[0].value) if tp else None, fi=f)
    tz = defs_after("tpower_z")
    ok = len(tz) == 1 and NK(tz[0].value) == K(POW % "coeff_z")
    ctx.check(ok, "_grid_intg_fine closing point: ascending algebraic power basis", detail="algebraic power basis at the closing point", expected="[ts**i for i in range(coeff_z.shape[1])]", found=ast.unparse(tz[0].value) if tz else None, fi=f)
    zz = defs_after("z")
    ok = len(zz) == 2 and sorted(NK(d.value) for d in zz) == sorted([K("mtimes(coeff_z,tpower_z)"), K("nan")])
    ctx.check(ok, "_grid_intg_fine closing point: algebraic value from the last step's polynomial", detail="algebraic evaluation at the closing point", expected="z = mtimes(coeff_z, tpower_z)", found="; ".join(ast.unparse(d.value) for d in zz), fi=f)
    # coeff_z / coeff / coeff_q are not redefined between the loop and the closing evaluation (they are the last step's)
    stale = [n for n in ("coeff_z",) if defs_after(n)]
    ctx.check(not stale, "_grid_intg_fine closing point uses the coefficient block of the last step", detail="coefficients redefined after the loop", expected="coeff_z of step (N-1, M-1)", found=str(stale), fi=f)
    ef = outer[0].args[1] if len(outer[0].args) > 1 else None
    ok = isinstance(ef, ast.Call) and len(ef.args) == 8
    if ok:
        a = ef.args
        na = Norm(sc, alias_only=True)
        G = "stage._method.control_grid"
        ok_t = na.key(a[0]) == Norm(None).key(ast.parse("%s[%s+1]" % (G, kv), mode="eval").body)
        ok_x = isinstance(a[1], ast.IfExp) and NK(a[1].orelse) == K("mtimes(stage._method.poly_coeff[-1],tpower)")
        ok_q = isinstance(a[2], ast.IfExp) and NK(a[2].orelse) == K("mtimes(horzcat(stage._method.xqk[-2],stage._method.poly_coeff_q[-1]),tpower)")
        ok_z = ast.unparse(a[3]) == "z"
        ok_u = ast.unparse(a[4]) == "stage._method.U[-1]"
        pv = defs_after("pv")
        ok_p = ast.unparse(a[5]) == "pv" and len(pv) == 1 and NK(pv[0].value) == K("stage._method.get_p_sys(stage,-1)")
        for okk, what, exp, fnd in ((ok_t, "time", "time[k+1] (k left at N-1: the final time)", a[0]), (ok_x, "state", "mtimes(poly_coeff[-1], tpower)", a[1]), (ok_q, "quadrature", "mtimes(horzcat(xqk[-2], poly_coeff_q[-1]), tpower)", a[2]),
                                    (ok_z, "algebraic", "z", a[3]), (ok_u, "control", "U[-1]", a[4]), (ok_p, "parameters", "pv = get_p_sys(stage, -1)", a[5])):
            ctx.check(okk, "_grid_intg_fine closing point: %s slot" % what, detail="closing sample evaluated with a wrong %s" % what, expected=exp, found=ast.unparse(fnd)[:100], fi=f, node=ef)
        ok = ast.unparse(outer[0].args[0]) == "stage" and [ast.unparse(x) for x in outer[0].args[2:]] == [kv, lv]
    ctx.check(ok, "_grid_intg_fine closing evaluation resolves the remaining symbols at the last step (k,l left by the loops)", detail="closing evaluation", expected="eval_at_integrator(stage, expr_f(...8 args...), k, l)", found=ast.unparse(outer[0])[:100], fi=f)
