"""C16 -- der() is the total time derivative along the declared dynamics.

Decided: the direction (seed) vector pairs positionally with the differentiation variables
(x <-> ode, t <-> 1, signal <-> its derivative symbol) (R16.1); dependence on a control raises on
every path and differentiating a signal past its order raises (R16.2); control(order>=1) is a state
whose derivative is the control of one order less (R16.3); the ODE is evaluated at the identity
point, including time (R16.4).
Not decided: numeric derivative values.
"""
import ast

from ..core import rule
from ..model import AnalysisError
from ..norm import Norm, expected, value_cases
from ..poly import Poly
from ..paths import walk_no_nested, Walker, must_on_all_paths
from ..effects import is_call_to

LEVEL = "other"

IDENTITY = {"x": "self.x", "u": "self.u", "z": "self.z", "p": "vertcat(self.p,self.v)", "t": "self.t"}


def ode_evals(f):
    """Calls evaluating the stage's ODE function inside Stage.der: ode(x=..) or ode.call(dict(x=..), ...)."""
    out = []
    for c in walk_no_nested(f.node):
        if isinstance(c, ast.Call):
            kws = {k.arg for k in c.keywords}
            if {"x"} <= kws and isinstance(c.func, ast.Name) and c.func.id != "dict":
                out.append((c, c.keywords))
            elif isinstance(c.func, ast.Attribute) and c.func.attr == "call" and c.args and is_call_to(c.args[0], "dict"):
                out.append((c, c.args[0].keywords))
            elif isinstance(c.func, ast.Attribute) and c.func.attr == "call" and c.args and isinstance(c.args[0], ast.Dict) \
                    and all(isinstance(k, ast.Constant) and isinstance(k.value, str) for k in c.args[0].keys):
                # canonical form of dict(x=..) is the literal {'x': ..}
                out.append((c, [ast.keyword(arg=k.value, value=v) for k, v in zip(c.args[0].keys, c.args[0].values)]))
    return out


@rule("R16.1", min_instances=5, desc="chain-rule pairing in Stage.der: jtimes(expr, [x, t, signals...], [ode, 1, signal derivatives...]) with both lists built over the same symbols in the same order")
def r16_1(ctx):
    prog = ctx.prog
    f = prog.own_method("Stage", "der")
    sc = ctx.scope(f)
    n = ctx.norm(f)
    expr = f.params[1]
    rets = [r for r in walk_no_nested(f.node) if isinstance(r, ast.Return) and r.value is not None]
    jt = [r for r in rets if is_call_to(r.value, "jtimes") and len(r.value.args) == 3]
    ctx.check(len(jt) == len(rets) and len(jt) >= 2, "Stage.der returns directional derivatives only", detail="result is not a jtimes", expected="return jtimes(expr, variables, seeds) on every path",
              found="%d of %d returns" % (len(jt), len(rets)), fi=f)
    full = []

    def elems(x):
        """flattened entries of a vertcat(...) (or the single expression), local aliases resolved one level"""
        if isinstance(x, ast.Name):
            v = sc.reaching(x.id, x)
            if v is not None:
                x = v
        if is_call_to(x, "vertcat"):
            return list(x.args)
        return [x]

    def seed_kind(e):
        """'ode' / 'quad' for <evaluation of the stage's ODE function>['ode'|'quad'] (possibly through a local), else text"""
        if isinstance(e, ast.Subscript) and isinstance(e.slice, ast.Constant) and e.slice.value in ("ode", "quad", "alg"):
            base = e.value
            if isinstance(base, ast.Name):
                # every definition of the local (through conditional expressions) must be an evaluation of the ODE function
                evals = {id(c_) for c_, _kw in ode_evals(f)}
                leaves = [leaf for _cd, leaf in value_cases(sc, base.id)]
                if leaves and all(id(leaf) in evals for leaf in leaves):
                    return e.slice.value
                return ast.unparse(e)
            if isinstance(base, ast.Call):
                return e.slice.value
        if isinstance(e, ast.Starred):
            return "*"
        return ast.unparse(e)
    for r in jt:
        c = r.value
        ctx.check(ast.unparse(c.args[0]) == expr, "Stage.der differentiates the given expression", detail="another expression differentiated", expected=expr, found=ast.unparse(c.args[0]), fi=f, node=r)
        V, S = elems(c.args[1]), elems(c.args[2])
        pairs = [(ast.unparse(a_) if not isinstance(a_, ast.Starred) else "*", seed_kind(b_)) for a_, b_ in zip(V, S)]
        general = any(p_[0] == "self.t" for p_ in pairs)
        okp = len(V) == len(S) and ("self.x", "ode") in pairs and all(p_ in (("self.x", "ode"), ("self.xq", "quad"), ("self.t", "1"), ("*", "*")) for p_ in pairs)
        ctx.check(okp, "Stage.der (line-role %s) pairs every differentiated variable with its own rate" % ("general" if general else "time-independent"), detail="variables and seeds listed in different orders / seed is not the declared right-hand side",
                  expected="x <-> ode(..)['ode'], xq <-> ode(..)['quad'], t <-> 1, signals <-> their derivative symbols", found=str(pairs), fi=f, node=r, sample={"pairs": str(pairs)})
        # quadrature states are states: an expression of them has a time derivative (their declared integrand)
        ctx.check(("self.xq", "quad") in pairs, "Stage.der (line-role %s) differentiates quadrature states too" % ("general" if general else "time-independent"),
                  detail="der() of an expression of quadrature states silently treats them as constants (der(q) = 0)", expected="self.xq among the variables, paired with the 'quad' output of the ODE function",
                  found=str(pairs), fi=f, node=r)
        if general:
            full.append((r, c.args[1] if is_call_to(c.args[1], "vertcat") else sc.reaching(c.args[1].id, c.args[1]), c.args[2] if is_call_to(c.args[2], "vertcat") else sc.reaching(c.args[2].id, c.args[2])))
        else:
            gs = [(n.key(t), p) for t, p in sc.path_guards(r)]
            # reachable only when expr does not depend on time and has no signals
            want_t = n.key(ast.parse("depends_on(%s, self.t)" % expr, mode="eval").body)
            ok = any(k == want_t and p is False for k, p in gs)
            ctx.check(ok, "Stage.der state-only form is used only for time-independent expressions", detail="partial derivative in time dropped", expected="else-branch of `depends_on(expr, self.t) or signals`",
                      found=str(gs), fi=f, node=r)
    ctx.check(len(full) == 1, "Stage.der has one general (time/signal dependent) form", detail="general form", expected="one jtimes with vertcat lists", found=str(len(full)), fi=f)
    for r, v, s in full:
        ok = v is not None and s is not None and isinstance(v.args[-1], ast.Starred) and isinstance(s.args[-1], ast.Starred)
        if ok:
            a, b = v.args[-1].value, s.args[-1].value
            da = sc.reaching(a.id, a) if isinstance(a, ast.Name) else a
            db = sc.reaching(b.id, b) if isinstance(b, ast.Name) else b
            okp = isinstance(da, ast.ListComp) and isinstance(db, ast.ListComp) and len(da.generators) == 1 and len(db.generators) == 1
            if okp:
                ga, gb = da.generators[0], db.generators[0]
                okp = ast.unparse(ga.iter) == ast.unparse(gb.iter) and [ast.unparse(i) for i in ga.ifs] == [ast.unparse(i) for i in gb.ifs] and ast.unparse(ga.target) == ast.unparse(gb.target)
                e = ast.unparse(ga.target)
                okp = okp and ast.unparse(da.elt) == e and ast.unparse(db.elt) == "self._signals[%s].der" % e and [ast.unparse(i) for i in ga.ifs] == ["%s in self._signals" % e]
                if not okp and isinstance(a, ast.Name):
                    # the derivative list is derived from the symbol list itself: [self._signals[e].der for e in <symbol list>]
                    eb = ast.unparse(gb.target)
                    okp = ast.unparse(gb.iter) == a.id and not gb.ifs and ast.unparse(db.elt) == "self._signals[%s].der" % eb and \
                        ast.unparse(da.elt) == e and [ast.unparse(i) for i in ga.ifs] == ["%s in self._signals" % e]
            ctx.check(okp, "Stage.der signal symbols and their derivative symbols are listed over the same iteration", detail="signal paired with another signal's derivative",
                      expected="[e for e in symbols if e in self._signals] <-> [self._signals[e].der for e in symbols if e in self._signals]",
                      found="%s <-> %s" % (ast.unparse(da) if da is not None else None, ast.unparse(db) if db is not None else None), fi=f, node=r)


@rule("R16.2", min_instances=3, desc="guards: dependence on a control raises before any derivative is returned; a signal cannot be differentiated past its order")
def r16_2(ctx):
    prog = ctx.prog
    f = prog.own_method("Stage", "der")
    expr = f.params[1]

    class W(Walker):
        def __init__(s):
            super().__init__()

        def transfer(s, node, state):
            return state

    # every return is preceded, on every path, by the control-dependence test that raises
    def is_guard(st):
        return isinstance(st, ast.If) and ast.unparse(st.test).replace(" ", "") == "depends_on(%s,self.u)" % expr and any(isinstance(x, ast.Raise) for x in st.body)

    body = f.node.body
    idx = [i for i, st in enumerate(body) if is_guard(st)]
    first_ret = min([i for i, st in enumerate(body) if any(isinstance(x, ast.Return) for x in ast.walk(st))] or [len(body)])
    def is_zguard(st):
        return isinstance(st, ast.If) and ast.unparse(st.test).replace(" ", "") == "depends_on(%s,self.z)" % expr and any(isinstance(x, ast.Raise) for x in st.body)
    zidx = [i for i, st in enumerate(body) if is_zguard(st)]
    ctx.check(bool(zidx) and zidx[0] < first_ret, "Stage.der rejects expressions depending on algebraic variables", detail="algebraic variable treated as constant in time (der(z) = 0)",
              expected="top-level `if depends_on(expr, self.z): raise` before any return", found="guard at statement %s, first return in statement %d" % (zidx, first_ret), fi=f)
    # every symbol of the expression is either differentiated or known to be constant in time: anything else must raise
    sym_guards = []
    for l in body[:first_ret]:
        if isinstance(l, ast.For) and any(isinstance(x, ast.Raise) for x in ast.walk(l)):
            it = ast.unparse(l.iter)
            if it in ("symbols", "ca.symvar(%s)" % expr, "symvar(%s)" % expr):
                tests = " ".join(ast.unparse(i.test) for i in ast.walk(l) if isinstance(i, ast.If))
                sym_guards.append(tests)
    ok_off = any("_offsets" in t for t in sym_guards)
    ok_unknown = any("_meta" in t and "not in" in t for t in sym_guards)
    ctx.check(ok_off, "Stage.der rejects next/prev/offset operands", detail="a shifted operand is treated as a constant in time: der(next(x) - x) = -der(x)",
              expected="for s in symvar(expr): if s in self._offsets: raise", found=str(sym_guards), fi=f)
    ctx.check(ok_unknown, "Stage.der rejects symbols that do not belong to the stage", detail="a foreign symbol (state of another stage) is treated as a constant: der(y) = 0 without an error",
              expected="for s in symvar(expr): if s not in self._meta (nor a placeholder / signal): raise", found=str(sym_guards), fi=f)
    ctx.check(bool(idx) and idx[0] < first_ret, "Stage.der rejects expressions depending on controls on every path", detail="control treated as constant in time on some path",
              expected="top-level `if depends_on(expr, self.u): raise` before any return", found="guard at statement %s, first return in statement %d" % (idx, first_ret), fi=f)
    for cname, fld, cmp in (("AbstractSignal", "order", "self.derivative is None"),):
        g = prog.own_method(cname, "der")
        sc = ctx.scope(g)
        raises = [r for r in walk_no_nested(g.node) if isinstance(r, ast.Raise)]
        ok = len(raises) == 1
        if ok:
            gs = [(ast.unparse(t).replace(" ", ""), p) for t, p in sc.guards(raises[0])]
            ok = ("self.%s==0" % fld, True) in gs and (cmp.replace(" ", ""), True) in [(a.replace(" ", ""), b) for a, b in gs]
        ctx.check(ok, "%s.der raises when no further derivative exists" % cname, detail="derivative of an order-0 signal", expected="raise when order==0 and no derivative was registered",
                  found="; ".join(ast.unparse(t) for r in raises for t, p in sc.guards(r)), fi=g)
        news = [c for c in walk_no_nested(g.node) if isinstance(c, ast.Call) and ast.unparse(c.func) == cname]
        ok = len(news) == 1 and Norm(None).poly(news[0].args[0]) == expected("self.order-1")
        ctx.check(ok, "%s.der creates a signal of one order less" % cname, detail="order of the derivative signal", expected="%s(self.order-1)" % cname, found="; ".join(ast.unparse(c) for c in news), fi=g)


@rule("R16.3", min_instances=4, desc="control(order=k>=1) is a state whose derivative is a control of order k-1 (chain of k integrators down to the piecewise-constant decision)")
def r16_3(ctx):
    prog = ctx.prog
    f = prog.own_method("Stage", "control")
    sc = ctx.scope(f)
    n = ctx.norm(f)
    ifs = [i for i in f.node.body if isinstance(i, ast.If) and ast.unparse(i.test).replace(" ", "") in ("order>=1", "order>0")]
    ctx.check(len(ifs) == 1, "Stage.control handles order>=1 separately", detail="order branch", expected="if order >= 1", found=str(len(ifs)), fi=f)
    if len(ifs) != 1:
        return
    b = ifs[0]
    st = [c for c in ast.walk(b) if is_call_to(c, "state", "self")]
    cc = [c for c in ast.walk(b) if is_call_to(c, "control", "self")]
    sd = [c for c in ast.walk(b) if is_call_to(c, "set_der", "self")]
    rt = [r for r in ast.walk(b) if isinstance(r, ast.Return)]
    ok = len(st) == 1 and len(cc) == 1 and len(sd) == 1 and len(rt) == 1
    ctx.check(ok, "Stage.control(order>=1) = state + lower-order control + set_der", detail="integrator chain", expected="u = state(); h = control(order=order-1); set_der(u, h); return u", found="", fi=f)
    if not ok:
        return
    okw = {k.arg: Norm(None).poly(k.value) for k in cc[0].keywords}
    ctx.check(okw.get("order") == expected("order-1"), "the helper control has one order less", detail="chain length", expected="order=order-1", found=str(okw.get("order")), fi=f, node=cc[0])
    same_shape = [ast.unparse(a) for a in st[0].args[:2]] == ["n_rows", "n_cols"] and str(okw.get("n_rows")) == "n_rows" and str(okw.get("n_cols")) == "n_cols"
    ctx.check(same_shape, "every member of the chain has the declared shape", detail="shape", expected="n_rows x n_cols", found="", fi=f)
    u = sc.stmt_of(st[0]).targets[0].id if isinstance(sc.stmt_of(st[0]), ast.Assign) else None
    h = sc.stmt_of(cc[0]).targets[0].id if isinstance(sc.stmt_of(cc[0]), ast.Assign) else None
    ok = [ast.unparse(a) for a in sd[0].args[:2]] == [u, h] and ast.unparse(rt[0].value) == u and sc.order[sd[0]] > sc.order[cc[0]]
    ctx.check(ok, "der(control of order k) is the control of order k-1", detail="derivative link of the chain", expected="self.set_der(u, helper_u); return u", found=ast.unparse(sd[0]), fi=f, node=sd[0])


@rule("R16.4", min_instances=12, desc="the ODE is evaluated at the identity point (x, u, z, p+v and the stage's own time) in every form of Stage.der")
def r16_4(ctx):
    prog = ctx.prog
    f = prog.own_method("Stage", "der")
    n = ctx.norm(f)
    evs = ode_evals(f)
    ctx.check(len(evs) == 3, "Stage.der evaluates the ODE in each of its three forms", detail="ODE evaluations", expected="3", found=str(len(evs)), fi=f)
    for c, kws in evs:
        got = {k.arg: Norm(None).key(k.value) for k in kws}
        for slot, text in IDENTITY.items():
            ctx.check(got.get(slot) == text, "Stage.der ODE slot %s (line-role %s)" % (slot, "call" if isinstance(c.func, ast.Attribute) else "direct"),
                      detail="right-hand side evaluated away from the current point (a missing t defaults to 0)", expected="%s=%s" % (slot, text), found="%s=%s" % (slot, got.get(slot)), fi=f, node=c,
                      sample={"slot": slot, "value": got.get(slot)})
        fn = c.func.value if isinstance(c.func, ast.Attribute) else c.func
        ctx.check(n.key(fn) == "self._ode()", "Stage.der uses the stage's declared dynamics", detail="another function", expected="self._ode()", found=n.key(fn), fi=f, node=c)


@rule("R16.5", min_instances=4, desc="der() of a B-spline signal: every derivative level divides by the horizon (physical time; shared with C17)")
def r16_5(ctx):
    from .c17 import r17_2
    r17_2(ctx)


@rule("R16.6", min_instances=6, desc="set_der on a concatenation of states hands every state its own rows of the right-hand side (for_all_primitives simulated; shared with C09: R09.11)")
def r16_6(ctx):
    from .c09 import r09_11
    r09_11(ctx)


@rule("R16.7", min_instances=4, desc="der() on a stage made from a template sees the template's model: every table Stage.der consults (states, quadrature states, their right-hand sides, B-spline signals) is carried over by Stage.clone, or the template is rejected")
def r16_7(ctx):
    """D82: clone() did not copy qstates: on the clone der(q) was 0 and `at_tf(der(q)) <= c` became `0 <= c` (dropped silently)."""
    from ..effects import writes_in
    P = ctx.prog
    f = P.own_method("Stage", "clone")
    d = P.own_method("Stage", "der")
    ws = {w.attr for w in writes_in(f.node, recv="ret")}
    consulted = {"states": "self.x", "qstates": "self.xq", "_state_der": "the ODE right-hand sides (self._ode())", "_signals": "self._signals"}
    reads = ast.unparse(d.node)
    if "self.xq" not in reads or "_signals" not in reads:
        raise AnalysisError("Stage.der no longer consults self.xq / self._signals (anchor moved?)")
    for attr, via in consulted.items():
        rejected = any(isinstance(n_, (ast.If, ast.Assert)) and ("self.%s" % attr) in ast.unparse(n_.test) and (isinstance(n_, ast.Assert) or any(isinstance(x, ast.Raise) for x in n_.body))
                       for n_ in walk_no_nested(f.node))
        ctx.check(attr in ws or rejected, "Stage.clone carries over %s (read by der() through %s)" % (attr, via), detail="der() on a stage made from a template silently drops the terms that depend on this table",
                  expected="ret.%s = <copy> in clone(), or an exception when the template's table is not empty" % attr, found="neither copied nor rejected", fi=f)
