"""C07 -- sampling commutes with expression evaluation on every grid.

Decided: position-typed slot tables of the evaluators (R07.1, shared with C04), the grid walkers
enumerate the point set in order and return one time per sampled point (R07.2), Stage.sample /
value substitute placeholders in times and values (R07.3), numeric read-back is sol.value of the
same symbolic map and DM2numpy reshapes along the producer's axes (R07.4), @transcribed on every
query (R07.5).
Not decided: numeric equality; shapes for exotic sparsities.
"""
import ast

from ..core import rule
from ..model import AnalysisError
from ..norm import Norm, expected, list_events
from ..poly import Poly
from ..paths import walk_no_nested
from ..loops import loop_context, classify_iter
from ..effects import is_call_to
from .c04 import check_evaluator_slots
from ..ceval import ceval, Unknown, specialise

LEVEL = "other"


@rule("R07.1", min_instances=40, desc="slot tables of eval_at_control / _eval_at_control / eval_at_integrator / eval_at_integrator_root: every ingredient is the element of the right list at the evaluator's own indices")
def r07_1(ctx):
    check_evaluator_slots(ctx)


def restricted(ctx, f, tname, flag, slice_text):
    """Is the time variable cut by `slice_text` exactly when `flag` is false?"""
    sc = ctx.scope(f)
    for st in walk_no_nested(f.node):
        if isinstance(st, ast.Assign) and isinstance(st.targets[0], ast.Name) and st.targets[0].id == tname and isinstance(st.value, ast.Subscript) \
                and isinstance(st.value.value, ast.Name) and st.value.value.id == tname and ast.unparse(st.value.slice).replace(" ", "") == slice_text:
            gs = [(ast.unparse(t), p) for t, p in sc.guards(st)]
            if gs in ([("not " + flag, True)], [(flag, False)]):
                return True
    return False


def slice_trace(f, tname, env):
    """What the returned time variable is under concrete flags: (text of the last non-slicing definition, [slices applied
    afterwards]).  Statements are followed in order; `if` tests and conditional expressions are decided with ceval under env;
    None when an undecidable branch assigns the variable."""
    base, slices = [None], [[]]

    def assign(v):
        v = specialise(v, env, None)
        if isinstance(v, ast.Subscript):
            inner = assign_inner(v.value)
            if inner:
                slices[0].append(ast.unparse(v.slice).replace(" ", ""))
                return
        base[0], slices[0] = ast.unparse(v), []

    def assign_inner(v):
        """v denotes the variable's previous value (the name itself, or a nested conditional slicing of it)"""
        v = specialise(v, env, None)
        if isinstance(v, ast.Name) and v.id == tname:
            return True
        if isinstance(v, ast.Subscript) and assign_inner(v.value):
            slices[0].append(ast.unparse(v.slice).replace(" ", ""))
            return True
        if base[0] is None or ast.unparse(v) != base[0]:
            # a fresh base expression inside the slicing, e.g. grid[1:] with grid the source
            base[0], slices[0] = ast.unparse(v), []
        return True

    def block(stmts):
        for st in stmts:
            if isinstance(st, ast.Assign) and len(st.targets) == 1 and isinstance(st.targets[0], ast.Name) and st.targets[0].id == tname:
                assign(st.value)
            elif isinstance(st, ast.If):
                try:
                    taken = st.body if ceval(st.test, env, None) else st.orelse
                except Unknown:
                    if any(isinstance(x, ast.Name) and x.id == tname and isinstance(x.ctx, ast.Store) for y in st.body + st.orelse for x in ast.walk(y)):
                        raise
                    continue
                block(taken)
            elif isinstance(st, (ast.For, ast.While, ast.Try, ast.With)):
                if any(isinstance(x, ast.Name) and x.id == tname and isinstance(x.ctx, ast.Store) for x in ast.walk(st)):
                    raise Unknown("assignment in a loop")
    try:
        block(f.node.body)
    except Unknown:
        return None
    return base[0], slices[0]


@rule("R07.2", min_instances=10, desc="grid walkers: nodes/points enumerated in time order with the evaluator of the grid, and exactly one returned time per sampled point (also when the first/last point is left out)")
def r07_2(ctx):
    P = ctx.prog
    f = P.own_method("Stage", "_grid_control")
    sc = ctx.scope(f)
    n = ctx.norm(f)
    # node list
    # the node list is whatever the evaluation loop iterates over
    ev0 = [c for c in walk_no_nested(f.node) if is_call_to(c, "eval_at_control", "stage._method")]
    lname = "ks"
    if len(ev0) == 1 and sc.enclosing_loops(ev0[0]) and isinstance(sc.enclosing_loops(ev0[0])[-1][1], ast.Name):
        lname = sc.enclosing_loops(ev0[0])[-1][1].id
    forms = list_events(sc, lname, key=Norm(None).key)
    want = [("set", Norm(None).key(ast.parse("list(range(1, stage._method.N))", mode="eval").body), []),
            ("prepend", ["0"], [("include_first", True)]),
            ("append", ["-1"], [("include_last", True)])]
    ctx.check(forms == want, "_grid_control node sequence", detail="nodes enumerated out of order or with the wrong end points", expected="[0 if include_first] + 1..N-1 + [-1 if include_last]", found=forms, fi=f,
              sample={"ks": [x[0] for x in forms]})
    ev = [c for c in walk_no_nested(f.node) if is_call_to(c, "eval_at_control", "stage._method")]
    ok = len(ev) == 1
    if ok:
        loops = sc.enclosing_loops(ev[0])
        ok = len(loops) == 1 and ast.unparse(loops[0][1]) == lname and [ast.unparse(a) for a in ev[0].args] == ["stage", f.params[2], ast.unparse(loops[0][0])]
    ctx.check(ok, "_grid_control evaluates the expression at each node of the sequence", detail="evaluation", expected="for k in ks: stage._method.eval_at_control(stage, expr, k)", found="; ".join(ast.unparse(c) for c in ev), fi=f)
    app = [c for c in walk_no_nested(f.node) if is_call_to(c, "append", "sub_expr")]
    ok = len(app) == 1 and bool(ev) and sc.enclosing_loops(app[0]) and sc.enclosing_loops(app[0])[-1][2] is sc.enclosing_loops(ev[0])[-1][2]
    ctx.check(ok, "_grid_control collects one value per node, in order", detail="collection", expected="sub_expr.append(r) once per node", found=str(len(app)), fi=f)
    rets = [r for r in walk_no_nested(f.node) if isinstance(r, ast.Return) and isinstance(r.value, ast.Tuple) and len(r.value.elts) == 2]
    main = [r for r in rets if isinstance(r.value.elts[0], ast.Name)]
    tname = main[0].value.elts[0].id if main else None
    traces = {}
    for first in (True, False):
        for last in (True, False):
            traces[(first, last)] = slice_trace(f, tname, {"include_first": first, "include_last": last}) if tname else None
    ok = all(t is not None and t[0] == "stage._method.control_grid" for t in traces.values())
    ctx.check(ok, "_grid_control times come from the control grid", detail="time source", expected="time = stage._method.control_grid", found=str(traces.get((True, True))), fi=f)
    for flag, sl, pos in (("include_first", "1:", 0), ("include_last", ":-1", 1)):
        okf = True
        for key, t in traces.items():
            want = ([] if key[0] else ["1:"]) + ([] if key[1] else [":-1"])
            if t is None or (sl in t[1]) != (sl in want) or t[1].count(sl) > 1:
                okf = False
        ctx.check(okf, "_grid_control returns one time per sampled node (%s)" % flag, detail="time vector keeps the %s node although its value is left out" % ("first" if flag == "include_first" else "last"),
                  expected="if not %s: time = time[%s]" % (flag, sl), found="time vector not restricted" if not okf else "", fi=f)
    ok_order = all(t is not None and t[1] == ([] if k_[0] else ["1:"]) + ([] if k_[1] else [":-1"]) for k_, t in traces.items())
    ctx.check(ok_order, "_grid_control time vector is cut exactly as the node sequence is", detail="time vector and node sequence differ", expected="[1:] iff not include_first, [:-1] iff not include_last", found=str(traces), fi=f)
    g = P.own_method("Stage", "_grid_integrator")
    scg = ctx.scope(g)
    ng = ctx.norm(g)
    ev = [c for c in walk_no_nested(g.node) if is_call_to(c, "eval_at_integrator", "stage._method")]
    ok = len(ev) == 1
    if ok:
        lc = loop_context(scg, ng, ev[0])
        ok = [li.kind for li in lc] == ["N", "M"] and [ast.unparse(a) for a in ev[0].args] == ["stage", g.params[2], lc[0].var, lc[1].var]
    ctx.check(ok, "_grid_integrator walks (k, l) in order with the integrator evaluator", detail="point enumeration", expected="for k in range(N): for l in range(M): eval_at_integrator(stage, expr, k, l)", found="; ".join(ast.unparse(c) for c in ev), fi=g)
    ta = [c for c in walk_no_nested(g.node) if is_call_to(c, "append", "time")]
    ok = len(ta) == 1
    if ok:
        lc = loop_context(scg, ng, ta[0])
        ok = [li.kind for li in lc] == ["N"] and ast.unparse(ta[0].args[0]) == "stage._method.integrator_grid[%s]" % lc[0].var
    ctx.check(ok, "_grid_integrator times: the integrator grid of each interval, in order", detail="times", expected="time.append(stage._method.integrator_grid[k]) per k", found="; ".join(ast.unparse(c) for c in ta), fi=g)
    fin = [c for c in walk_no_nested(g.node) if is_call_to(c, "eval_at_control", "stage._method")]
    ok = len(fin) == 1 and ast.unparse(fin[0].args[2]) == "-1" and [(ast.unparse(t), p) for t, p in scg.guards(fin[0])] == [("include_last", True)] and not scg.enclosing_loops(fin[0])
    ctx.check(ok, "_grid_integrator appends the final node iff include_last", detail="final point", expected="if include_last: eval_at_control(stage, expr, -1)", found="; ".join(ast.unparse(c) for c in fin), fi=g)
    rets = [r for r in walk_no_nested(g.node) if isinstance(r, ast.Return) and isinstance(r.value, ast.Tuple)]
    tn = None
    if rets:
        e0 = rets[0].value.elts[0]
        tn = e0.id if isinstance(e0, ast.Name) else None
    tr_g = {last: slice_trace(g, tn, {"include_first": True, "include_last": last}) if tn else None for last in (True, False)}
    ok = all(t is not None for t in tr_g.values()) and tr_g[True][1] == [] and tr_g[False][1] == [":-1"] and tr_g[True][0] == tr_g[False][0]
    ctx.check(ok, "_grid_integrator returns one time per sampled point (include_last)", detail="time vector keeps the final point although its value is left out",
              expected="if not include_last: time = time[:-1]", found="time vector not restricted", fi=g)
    h = P.own_method("Stage", "_grid_integrator_roots")
    sch = ctx.scope(h)
    nh = ctx.norm(h)
    ev = [c for c in walk_no_nested(h.node) if is_call_to(c, "eval_at_integrator_root", "stage._method")]
    ok = len(ev) == 1
    if ok:
        loops = sch.enclosing_loops(ev[0])
        kinds = [classify_iter(l[1], nh)[0] for l in loops]
        vars_ = [ast.unparse(l[0]) for l in loops]
        ok = kinds[:2] == ["N", "M"] and len(loops) == 3 and "xr[%s][%s].shape[1]" % (vars_[0], vars_[1]) in ast.unparse(loops[2][1]) and [ast.unparse(a) for a in ev[0].args] == ["stage", h.params[2]] + vars_
    ctx.check(ok, "_grid_integrator_roots walks (k, l, j) in order", detail="root enumeration", expected="k, l, j nested loops", found="; ".join(ast.unparse(c) for c in ev), fi=h)
    # the list of root times is whatever the returned time expression is built from
    rts = [r for r in walk_no_nested(h.node) if isinstance(r, ast.Return) and isinstance(r.value, ast.Tuple) and len(r.value.elts) == 2]
    tl = None
    if rts:
        names = [x.id for x in ast.walk(rts[0].value.elts[0]) if isinstance(x, ast.Name) and any(d.kind == "assign" and isinstance(d.value, ast.List) for d in sch.defs.get(x.id, []))]
        tl = names[0] if names else None
    te = [c for c in walk_no_nested(h.node) if tl is not None and is_call_to(c, "extend", tl)]
    ok = len(te) == 1
    if ok:
        loops = sch.enclosing_loops(te[0])
        ok = len(loops) == 2 and ast.unparse(te[0].args[0]) == "stage._method.tr[%s][%s]" % (ast.unparse(loops[0][0]), ast.unparse(loops[1][0]))
    ctx.check(ok, "_grid_integrator_roots times: tr[k][l] in the same order", detail="root times", expected="tr.extend(stage._method.tr[k][l])", found="; ".join(ast.unparse(c) for c in te), fi=h)
    # every collected value is the evaluator's result for that very point: no value is copied from another point, no point is
    # skipped on a property of the expression (a parametric expression may still differ from interval to interval)
    EVALS = ("eval_at_control", "eval_at_integrator", "eval_at_integrator_root")
    for w, scw in ((f, sc), (g, scg), (h, sch)):
        vlists = set()
        for r in walk_no_nested(w.node):
            if isinstance(r, ast.Return) and isinstance(r.value, ast.Tuple) and len(r.value.elts) == 2:
                for x in ast.walk(r.value.elts[1]):
                    if isinstance(x, ast.Name):
                        nm = x.id
                        ds = [d for d in scw.defs.get(nm, []) if d.kind == "assign"]
                        if any(isinstance(d.value, ast.List) for d in ds):
                            vlists.add(nm)
                        for d in ds:      # res = cat(sub_expr)
                            for y in ast.walk(d.value):
                                if isinstance(y, ast.Name) and any(isinstance(d2.value, ast.List) for d2 in scw.defs.get(y.id, []) if d2.kind == "assign"):
                                    vlists.add(y.id)
        if not vlists:
            raise AnalysisError("%s: collected value list not found" % w.qualname)
        bad = []
        for c in walk_no_nested(w.node):
            if isinstance(c, ast.Call) and isinstance(c.func, ast.Attribute) and isinstance(c.func.value, ast.Name) and c.func.value.id in vlists and c.func.attr in ("append", "extend", "insert"):
                a = c.args[-1] if c.args else None
                src = [a]
                if isinstance(a, ast.Name):
                    src = [d.value for d in scw.defs.get(a.id, []) if d.kind == "assign"]
                good = c.func.attr == "append" and src and all(
                    (isinstance(v, ast.Call) and isinstance(v.func, ast.Attribute) and v.func.attr in EVALS and ast.unparse(v.func.value) == "stage._method") or
                    (isinstance(v, ast.Call) and ast.unparse(v.func) == "DM.nan") for v in src)
                flags = [ast.unparse(t) for t, pol in scw.guards(c)]
                if not good or any(fl not in ("include_first", "include_last") for fl in flags):
                    bad.append(c)
        ctx.check(not bad, "%s collects, for every point, the evaluator's own result for that point" % w.name, detail="a sampled value is copied from another point or its evaluation depends on a property of the expression",
                  expected="%s.append(stage._method.eval_at_*(stage, expr, <indices of the point>)) only, under no condition but include_first/include_last" % sorted(vlists)[0],
                  found="; ".join("%s%s" % (ast.unparse(b)[:70], (" if " + " and ".join(ast.unparse(t) for t, _ in scw.guards(b))) if scw.guards(b) else "") for b in bad), fi=w, node=bad[0] if bad else None)
    # dispatch of grid names: Stage._sample is run by the simulator for every grid name (with and without refine)
    got = sample_dispatch(ctx)
    want = {("control", None): "_grid_control", ("control", 3): "_grid_control", ("integrator", None): "_grid_integrator", ("integrator", 3): "_grid_intg_fine",
            ("integrator_roots", None): "_grid_integrator_roots", ("gist", None): "_grid_gist", ("no_such_grid", None): "<raise>"}
    s = P.own_method("Stage", "_sample")
    ctx.check(got == want, "Stage._sample dispatches each grid name to its walker", detail="grid dispatch", expected=want, found=got, fi=s, sample={"dispatch": str(got)})


def sample_dispatch(ctx):
    """{(grid name, refine): walker called by Stage._sample} from a simulated call (rkverif/sim.py); '<raise>' when rejected."""
    from ..sim import Sim, fresh_obj
    from ..layout import Sym, LayoutUnknown
    P = ctx.prog
    cache = P.__dict__.setdefault("_sample_dispatch", {})
    if "r" in cache:
        return cache["r"]
    f = P.own_method("Stage", "_sample")
    out = {}
    for grid, refine in (("control", None), ("control", 3), ("integrator", None), ("integrator", 3), ("integrator_roots", None), ("gist", None), ("no_such_grid", None)):
        called = []

        def h_callable(sim, target, args, kwargs, n, called=called):
            if isinstance(target, Sym) and target.op == "attr" and str(target.args[-1]).startswith("_grid_"):
                called.append(target.args[-1])
                return (Sym("time"), Sym("res"))
            return NotImplemented
        hooks = {"*callable": h_callable, "self._parse_grid": lambda s_, r, a, k, n: (a[0], True, True), "._parse_grid": lambda s_, r, a, k, n: (a[0], True, True)}
        kw = {} if refine is None else {"refine": refine}
        try:
            Sim(P, hooks=hooks).call(f, [fresh_obj("self"), Sym("expr")], {"grid": grid}, extra_env={f.kwarg: dict(kw)} if f.kwarg else None)
            out[(grid, refine)] = called[0] if len(called) == 1 else "<%d calls>" % len(called)
        except LayoutUnknown as e:
            out[(grid, refine)] = "<raise>" if "raise reached" in str(e) else "<unknown: %s>" % str(e)[:60]
    cache["r"] = out
    return out


@rule("R07.3", min_instances=4, desc="Stage.sample substitutes placeholders in both times and values; Stage.value = placeholders(method.eval(expr))")
def r07_3(ctx):
    P = ctx.prog
    f = P.own_method("Stage", "sample")
    rets = [ast.unparse(r.value) for r in walk_no_nested(f.node) if isinstance(r, ast.Return)]
    ctx.check(rets == ["(placeholders(time), placeholders(res))"], "Stage.sample resolves placeholders in times and values", detail="unresolved placeholders (T, t0, at_tf ...) in the sample", expected="placeholders(time), placeholders(res)", found=rets, fi=f)
    sc = ctx.scope(f)
    d = [x for x in sc.defs.get("placeholders", []) if x.kind == "assign"]
    ok = len(d) == 1 and ast.unparse(d[0].value) == "self.master.placeholders_transcribed"
    ctx.check(ok, "Stage.sample uses the master's transcribed placeholders", detail="placeholder source", expected="self.master.placeholders_transcribed", found=ast.unparse(d[0].value) if d else None, fi=f)
    smp = [c for c in walk_no_nested(f.node) if is_call_to(c, "_sample", "self")]
    ok = len(smp) == 1 and ast.unparse(smp[0].args[0]) == f.params[1] and any(k.arg == "grid" and ast.unparse(k.value) == f.params[2] for k in smp[0].keywords) and any(k.arg is None for k in smp[0].keywords)
    ctx.check(ok, "Stage.sample forwards expression, grid and options unchanged", detail="arguments", expected="self._sample(expr, grid=grid, **kwargs)", found="; ".join(ast.unparse(c) for c in smp), fi=f)
    v = P.own_method("Stage", "value")
    rets = [ast.unparse(r.value) for r in walk_no_nested(v.node) if isinstance(r, ast.Return)]
    ctx.check(rets == ["placeholders(self._method.eval(self, %s))" % v.params[1]], "Stage.value = placeholders(method.eval(expr))", detail="value()", expected="placeholders(self._method.eval(self, expr))", found=rets, fi=v)
    pg = P.own_method("Stage", "_parse_grid")
    # recorded, not judged: suffix handling of the grid string
    ctx.ok("Stage._parse_grid parsed", fi=pg)


@rule("R07.4", min_instances=6, desc="numeric read-back = sol.value of the same symbolic map; DM2numpy reshapes (rows, time, cols) -> (time, rows, cols) minus singleton axes")
def r07_4(ctx):
    P = ctx.prog
    f = P.own_method("OcpSolution", "sample")
    sc = ctx.scope(f)
    smp = [c for c in walk_no_nested(f.node) if is_call_to(c, "sample", "self.stage")]
    ok = len(smp) == 1 and [ast.unparse(a) for a in smp[0].args] == [f.params[1], f.params[2]] and any(k.arg is None for k in smp[0].keywords)
    ctx.check(ok, "OcpSolution.sample samples symbolically through the stage", detail="another map applied for read-back", expected="self.stage.sample(expr, grid, **kwargs)", found="; ".join(ast.unparse(c) for c in smp), fi=f)
    rets = [r for r in walk_no_nested(f.node) if isinstance(r, ast.Return)]
    ok = len(rets) == 1 and Norm(sc).key(rets[0].value) == Norm(None).key(ast.parse("(self.sol.value(time), DM2numpy(self.sol.value(res), MX(%s).shape, time.numel()))" % f.params[1], mode="eval").body)
    ctx.check(ok, "OcpSolution.sample evaluates times and values at the solution and reshapes with the expression's shape and the number of times", detail="read-back",
              expected="sol.value(time), DM2numpy(sol.value(res), MX(expr).shape, time.numel())", found=Norm(sc).key(rets[0].value) if rets else None, fi=f)
    v = P.own_method("OcpSolution", "value")
    rets = [ast.unparse(r.value) for r in walk_no_nested(v.node) if isinstance(r, ast.Return)]
    ctx.check(rets == ["self.sol.value(self.stage.value(%s, *%s))" % (v.params[1], v.vararg)], "OcpSolution.value = sol.value(stage.value(expr))", detail="read-back of values", expected="self.sol.value(self.stage.value(expr, *args))", found=rets, fi=v)
    d = P.function("casadi_helpers", "DM2numpy")
    sd = ctx.scope(d)
    dm, shp, tdim = d.params
    asg = {}
    for st in walk_no_nested(d.node):
        if isinstance(st, ast.Assign) and isinstance(st.targets[0], ast.Name):
            asg.setdefault(st.targets[0].id, []).append(Norm(None).key(st.value))
    want_res = [Norm(None).key(ast.parse(t, mode="eval").body) for t in
                ("np.array(%s).reshape(%s[0], %s, %s[1])" % (dm, shp, tdim, shp), "np.transpose(res,[1,0,2])", "res.reshape(target_shape)")]
    ctx.check(asg.get("res") == want_res, "DM2numpy reshape axes follow the hcat-of-blocks layout", detail="entries of matrix-valued samples permuted",
              expected="reshape(rows, time, cols) -> transpose(1,0,2) -> target shape", found=asg.get("res"), fi=d, sample={"steps": asg.get("res")})
    want_t = Norm(None).key(ast.parse("(%s,)+tuple([e for e in %s if e!=1])" % (tdim, shp), mode="eval").body)
    ctx.check(asg.get("target_shape") == [want_t], "DM2numpy target shape: time first, singleton dimensions removed", detail="result shape", expected="(tdim,) + non-singleton dims", found=asg.get("target_shape"), fi=d)
    cat = P.own_method("Stage", "_grid_control")
    c = [x for x in ctx.scope(cat).defs.get("cat", []) if x.kind == "assign"]
    ok = len(c) == 1 and ast.unparse(c[0].value) == "vcat if transpose else hcat"
    ctx.check(ok, "samples are concatenated horizontally (one block per time)", detail="producer layout", expected="hcat unless transpose", found=ast.unparse(c[0].value) if c else None, fi=cat)


QUERIES = {"Stage": ["sample", "value", "initial_value", "discrete_system", "sampler"], "Ocp": ["gist"]}


@rule("R07.5", min_instances=6, desc="@transcribed on every sampling / value query")
def r07_5(ctx):
    P = ctx.prog
    for cname, names in QUERIES.items():
        for nm in names:
            f = P.own_method(cname, nm)
            ctx.check("transcribed" in f.decorators, "%s is @transcribed" % f.qualname, detail="query answered from an untranscribed problem", expected="@transcribed", found=str(f.decorators), fi=f)


@rule("R07.6", min_instances=4, desc="the sampled time vectors are produced from the grid itself: integrator grid = M equal steps of each control interval, root times = integrator point + step*tau")
def r07_6(ctx):
    from .c06 import r06_2
    from .c02 import r02_4
    r06_2(ctx)
    r02_4(ctx)


@rule("R07.7", min_instances=40, desc="position kinds (layout interpreter, swept over N, M, degree): every list the evaluators index has the length of its kind (NODE N+1, INTERVAL N, IPOINT N*M[+1], ISTEP N*M, ROOT N x M x degree) and is completely filled")
def r07_7(ctx):
    from .layout_rules import kinds_table
    for cname in ("MultipleShooting", "SingleShooting", "DirectCollocation"):
        kinds_table(ctx, cname)


@rule("R07.8", min_instances=20, desc="producers of the sampled quantities: collocation lists (incl. algebraic values at nodes) and the refined-sampling wiring (shared with C02/C08)")
def r07_8(ctx):
    from .layout_rules import collocation_content
    from .c08 import r08_2, r08_9
    from .c02 import r02_10
    collocation_content(ctx)
    r02_10(ctx)
    r08_2(ctx)
    r08_9(ctx)


@rule("R07.9", min_instances=10, desc="placeholder resolution used by every sampled / valued expression: pairing, phase override, fixed point (shared with C05)")
def r07_9(ctx):
    from .c05 import r05_9
    r05_9(ctx)


@rule("R07.10", min_instances=3, desc="grid-name suffix/prefix of sample(): a trailing '-' leaves out the last point, a leading '-' the first point (the flags handed to the grid walkers)")
def r07_10(ctx):
    P = ctx.prog
    f = P.own_method("Stage", "_parse_grid")
    sc = ctx.scope(f)
    g = f.params[0]
    rets = [r for r in walk_no_nested(f.node) if isinstance(r, ast.Return) and isinstance(r.value, ast.Tuple) and len(r.value.elts) == 3]
    ok = len(rets) == 1 and [ast.unparse(e) for e in rets[0].value.elts] == [g, "include_first", "include_last"]
    ctx.check(ok, "_parse_grid returns (grid, include_first, include_last)", detail="result order", expected="return grid, include_first, include_last", found="; ".join(ast.unparse(r.value) for r in rets), fi=f)
    # which flag is cleared under which test
    table = {}
    for st in walk_no_nested(f.node):
        if isinstance(st, ast.Assign) and len(st.targets) == 1 and isinstance(st.targets[0], ast.Name) and st.targets[0].id in ("include_first", "include_last") \
                and isinstance(st.value, ast.Constant) and st.value.value is False:
            for t, p in sc.guards(st):
                if p:
                    table.setdefault(ast.unparse(t).replace('"', "'"), set()).add(st.targets[0].id)
    want = {"%s.startswith('-')" % g: {"include_first"}, "%s.endswith('-')" % g: {"include_last"}}
    ctx.check(table == want, "_parse_grid: leading '-' drops the first point, trailing '-' the last", detail="the wrong end of the sampled grid is left out", expected=str(want), found=str(table), fi=f, sample={"table": str(table)})
    inits = {d.name: ast.unparse(d.value) for nm in ("include_first", "include_last") for d in sc.defs.get(nm, []) if d.kind == "assign" and not sc.guards(d.stmt)}
    ctx.check(inits == {"include_first": "True", "include_last": "True"}, "_parse_grid: both end points are included by default", detail="defaults", expected="True / True", found=str(inits), fi=f)


@rule("R07.11", min_instances=2, desc="SplineMethod.grid_control honours include_first / include_last: times and values are cut together, by one point, unless an offset already removed that point")
def r07_11(ctx):
    P = ctx.prog
    f = P.own_method("SplineMethod", "grid_control")
    sc = ctx.scope(f)
    rets = [r for r in walk_no_nested(f.node) if isinstance(r, ast.Return) and isinstance(r.value, ast.Tuple) and len(r.value.elts) == 2]
    if len(rets) != 1:
        raise AnalysisError("SplineMethod.grid_control: expected one `return <times>, <values>`")
    # an element that is not a plain name cannot have been cut by an assignment: it simply has no cut below
    tn, vn = [e.id if isinstance(e, ast.Name) else "<%s>" % ast.unparse(e) for e in rets[0].value.elts]
    for flag, tsl, vsl, off in (("include_first", "1:", ":,1:", "min_offset"), ("include_last", ":-1", ":,:-1", "max_offset")):
        cuts = {}
        for st in walk_no_nested(f.node):
            if isinstance(st, ast.Assign) and isinstance(st.targets[0], ast.Name) and st.targets[0].id in (tn, vn) and isinstance(st.value, ast.Subscript) \
                    and isinstance(st.value.value, ast.Name) and st.value.value.id == st.targets[0].id:
                gs = [(ast.unparse(t).replace(" ", ""), p) for t, p in sc.guard_conjuncts(st)]
                if (flag, False) in gs:
                    cuts[st.targets[0].id] = (ast.unparse(st.value.slice).replace(" ", "").strip("()"), sorted(g for g in gs if g[0] != flag))
        ok = tn in cuts and vn in cuts and cuts[tn][0] == tsl and cuts[vn][0] == vsl and cuts[tn][1] == cuts[vn][1] and cuts[tn][1] in ([], [("%s==0" % off, True)])
        ctx.check(ok, "SplineMethod.grid_control leaves out the %s point when %s is False" % ("first" if flag == "include_first" else "last", flag),
                  detail="%s ignored by SplineMethod sampling / constraint placement (or times and values cut differently)" % flag,
                  expected="if not %s [and %s==0]: %s = %s[%s]; %s = %s[%s]" % (flag, off, tn, tn, tsl, vn, vn, vsl), found=str(cuts), fi=f, sample={"flag": flag, "cuts": str(cuts)})


@rule("R07.12", min_instances=8, desc="refined sampling evaluates every symbol with its own values: pack order of the expression function's p input (shared with C08)")
def r07_12(ctx):
    from .c01 import check_pack_order_fine
    check_pack_order_fine(ctx)
