"""C03 -- discretised dynamics and integrals converge to the continuous-time model.

Decided: the tableau extracted from intg_rk / intg_expl_euler satisfies the Butcher order
conditions of order 4 / 1 in exact rational arithmetic (a proof that the *encoded* explicit schemes
have their classical order, given R01.1/R01.4: equal sub-steps, correct times); the quadrature uses
the same weights; the CasADi-integrator wrapper and sys_simulator rescale time consistently
(ode*DT, t0+tau*DT, alg unscaled) and pack their parameter vector identically at definition and
call; ocp.integral becomes a quadrature state read at tf.
Not decided: collocation orders 2d-1 / 2d, tolerances of cvodes/idas, numerical agreement of flows.
"""
import ast

from ..core import rule
from ..model import AnalysisError
from ..norm import Norm, expected
from ..poly import Poly
from ..paths import walk_no_nested, const_guard
from ..effects import is_call_to
from .. import algebra as AL

LEVEL = "other"

ORDER = {"intg_rk": 4, "intg_expl_euler": 1}


@rule("R03.1", min_instances=9, desc="Butcher order conditions (exact rationals): rk has order 4, expl_euler order 1")
def r03_1(ctx):
    prog = ctx.prog
    for name, order in ORDER.items():
        f = prog.own_method("SamplingMethod", name)
        sm = AL.extract_step_map(ctx, f)
        A, b, bq, c, probs = AL.tableau(sm)
        for what, exp, got in probs:
            ctx.fail("%s %s" % (name, what), detail="not a Runge-Kutta form", expected=exp, found=got, fi=f)
        if any(x is None for x in c):
            continue
        # the order conditions are derived under the row-sum condition c_i = sum_j a_ij
        for i in range(len(b)):
            ctx.check(sum(A[i]) == c[i], "%s row-sum condition, stage %d" % (name, i + 1), detail="stage time inconsistent with the stage state (order conditions do not apply)",
                      expected="c_%d = sum_j a_%dj = %s" % (i + 1, i + 1, sum(A[i])), found=str(c[i]), fi=f)
        for cname, lhs, rhs in AL.order_conditions(A, b, c, order):
            ctx.check(lhs == rhs, "%s order condition %s" % (name, cname), detail="order condition fails", expected=rhs, found=lhs, fi=f,
                      sample={"scheme": name, "condition": cname, "value": str(lhs)})
        # and not accidentally more than claimed is fine; less is the violation


@rule("R03.2", min_instances=4, desc="quadrature output of the explicit schemes uses the same weights and stage evaluations as the state update")
def r03_2(ctx):
    prog = ctx.prog
    for name in ORDER:
        f = prog.own_method("SamplingMethod", name)
        sm = AL.extract_step_map(ctx, f)
        A, b, bq, c, probs = AL.tableau(sm)
        ctx.check(bq == b, "%s qf = DT*sum b_i quad_i" % name, detail="quadrature weights", expected=[str(x) for x in b], found=[str(x) for x in bq], fi=f)
        ctx.check(sum(bq) == 1, "%s quadrature weights integrate constants exactly" % name, detail="sum of weights", expected="1", found=str(sum(bq)), fi=f)


def dict_literal(fi, name, norm):
    sc = norm.scope
    for d in sc.defs.get(name, []):
        if d.kind == "assign" and isinstance(d.value, ast.Dict):
            return d.value, {k.value: v for k, v in zip(d.value.keys, d.value.values) if isinstance(k, ast.Constant)}
    return None, None


@rule("R03.3", min_instances=10, desc="CasADi-integrator wrapper: unit-interval rescaling (t0+t*DT, ode*DT, quad*DT, alg unscaled) and identical p packing at definition and call")
def r03_3(ctx):
    prog = ctx.prog
    f = prog.own_method("SamplingMethod", "intg_builtin")
    n = ctx.norm(f)
    sc = ctx.scope(f)
    X, U, P, Z = f.params[2:6]
    # the step's symbols are identified by the label they are created with, not by the local name that holds them
    lab = {}
    for nm, ds in sc.defs.items():
        for d in ds:
            if d.kind == "assign" and is_call_to(d.value, "sym") and d.value.args and isinstance(d.value.args[0], ast.Constant) and isinstance(d.value.args[0].value, str):
                lab.setdefault(d.value.args[0].value, nm)
    dnode, data = dict_literal(f, "data", n)
    if data is None:
        raise AnalysisError("intg_builtin: `data = {...}` not found")
    # the integrator's own (normalised) time is the symbol stored under 't' of the DAE, whatever its label
    if "t" not in lab:
        tv = None
        for k_, v_ in zip(dnode.keys, dnode.values) if isinstance(dnode, ast.Dict) else []:
            if isinstance(k_, ast.Constant) and k_.value == "t" and isinstance(v_, ast.Name):
                tv = v_.id
        if tv is not None and any(d.kind == "assign" and is_call_to(d.value, "sym") for d in sc.defs.get(tv, [])):
            lab["t"] = tv
    for role in ("DT", "DT_control", "t", "t0"):
        if role not in lab:
            raise AnalysisError("intg_builtin: no symbol labelled %r" % role)
    DT, DTc, tt, t0 = lab["DT"], lab["DT_control"], lab["t"], lab["t0"]
    fcalls = [c for c in walk_no_nested(f.node) if isinstance(c, ast.Call) and isinstance(c.func, ast.Name) and c.func.id == f.params[1]]
    ctx.check(len(fcalls) == 1, "intg_builtin evaluates the model once", detail="model evaluations", expected="1", found=str(len(fcalls)), fi=f)
    if fcalls:
        kw = {k.arg: n.poly(k.value) for k in fcalls[0].keywords}
        want = {"x": Poly.atom(X), "u": Poly.atom(U), "p": Poly.atom(P), "z": Poly.atom(Z), "t": expected("%s+%s*%s" % (t0, tt, DT))}
        for slot, w in want.items():
            ctx.check(kw.get(slot) == w, "intg_builtin model slot %s" % slot, detail="model evaluated with another quantity", expected=w, found=kw.get(slot), fi=f, node=fcalls[0],
                      sample={"slot": slot, "value": str(kw.get(slot))})
    resn = None
    for d in sc.defs.get("res", []):
        if d.kind == "assign" and d.value in fcalls:
            resn = "res"
    nn = Norm(None)
    want = {"x": X, "z": Z, "t": tt, "ode": "%s*res['ode']" % DT, "quad": "%s*res['quad']" % DT, "alg": "res['alg']", "p": "vertcat(%s, %s, %s, %s, %s)" % (U, DT, DTc, P, t0)}
    for key, text in want.items():
        got = nn.poly(data[key]) if key in data else None
        ctx.check(got == expected(text), "intg_builtin dae['%s']" % key, detail="time rescaling of the integrator problem", expected=expected(text), found=got, fi=f, node=dnode,
                  sample={"key": key, "value": str(got)})
    calls = [c for c in walk_no_nested(f.node) if isinstance(c, ast.Call) and isinstance(c.func, ast.Attribute) and c.func.attr == "call" and c.args and isinstance(c.args[0], ast.Dict)]
    ctx.check(len(calls) == 1, "intg_builtin calls the integrator once", detail="integrator calls", expected="1", found=str(len(calls)), fi=f)
    if calls:
        cd = {k.value: v for k, v in zip(calls[0].args[0].keys, calls[0].args[0].values) if isinstance(k, ast.Constant)}
        ctx.check("p" in cd and "p" in data and nn.poly(cd["p"]) == nn.poly(data["p"]), "intg_builtin p packing at call == at definition", detail="parameter vector packed differently",
                  expected=nn.key(data["p"]) if "p" in data else None, found=nn.key(cd["p"]) if "p" in cd else None, fi=f, node=calls[0])
        ctx.check("x0" in cd and ast.unparse(cd["x0"]) == X, "intg_builtin starts from the step's start state", detail="x0", expected=X, found=ast.unparse(cd["x0"]) if "x0" in cd else None, fi=f)
    # integrator(name, plugin, data, options): default horizon [0,1]
    ic = [c for c in walk_no_nested(f.node) if isinstance(c, ast.Call) and ast.unparse(c.func) == "integrator"]
    ok = len(ic) == 1 and len(ic[0].args) == 4 and ast.unparse(ic[0].args[1]) == "self.intg" and ast.unparse(ic[0].args[2]) == "data"
    ctx.check(ok, "intg_builtin builds the integrator over the unit interval with the chosen plugin", detail="integrator construction", expected="integrator(name, self.intg, data, options)",
              found="; ".join(ast.unparse(c) for c in ic), fi=f)
    call, ins, outs, ni, no = AL.function_ctor(f)
    om = dict(zip(no, [ast.unparse(o) for o in outs]))
    for k in ("xf", "qf", "zf"):
        ctx.check(om.get(k) == "res['%s']" % k, "intg_builtin output %s" % k, detail="output", expected="res['%s']" % k, found=om.get(k), fi=f)


@rule("R03.4", min_instances=10, desc="sys_simulator uses the same unit-interval rescaling and a consistent p packing / signature")
def r03_4(ctx):
    prog = ctx.prog
    f = prog.own_method("Ocp", "sys_simulator")
    sc = ctx.scope(f)
    n = Norm(sc, no_expand=("ode", "alg", "p", "intg", "intg_out"))
    subs = [c for c in walk_no_nested(f.node) if is_call_to(c, "substitute")]
    ok = len(subs) == 1 and len(subs[0].args) == 3 and ast.unparse(subs[0].args[1]) == "[self.t]" and isinstance(subs[0].args[2], ast.List) and n.poly(subs[0].args[2].elts[0]) == expected("t0+tau*dt")
    ctx.check(ok, "sys_simulator time substitution", detail="model time is not t0+tau*dt", expected="substitute([ode,alg],[self.t],[t0+tau*dt])", found="; ".join(ast.unparse(c) for c in subs), fi=f)
    # the dae dictionary: entries of a literal `dae = {...}` and item assignments `dae[key] = value`, later ones overriding earlier ones
    stores = {}
    for st in sorted([x for x in walk_no_nested(f.node) if isinstance(x, ast.Assign)], key=lambda x: sc.order[x]):
        if isinstance(st.targets[0], ast.Name) and st.targets[0].id == "dae" and isinstance(st.value, ast.Dict):
            for k_, v_ in zip(st.value.keys, st.value.values):
                if isinstance(k_, ast.Constant):
                    stores[k_.value] = v_
        if isinstance(st.targets[0], ast.Subscript) and ast.unparse(st.targets[0].value) == "dae" and isinstance(st.targets[0].slice, ast.Constant):
            stores[st.targets[0].slice.value] = st.value
    want = {"x": "self.x", "z": "self.z", "t": "tau", "ode": "dt*ode", "alg": "alg", "p": "vertcat(self.u, t0, dt, p)"}
    for k, text in want.items():
        got = n.poly(stores[k]) if k in stores else None
        ctx.check(got == expected(text), "sys_simulator dae['%s']" % k, detail="time rescaling of the simulator", expected=expected(text), found=got, fi=f, sample={"key": k, "value": str(got)})
    ic = [c for c in walk_no_nested(f.node) if isinstance(c, ast.Call) and ast.unparse(c.func) == "integrator"]
    ok = len(ic) >= 1 and len(ic[0].args) == 6 and [ast.unparse(a) for a in ic[0].args[3:5]] == ["0", "1"]
    ctx.check(ok, "sys_simulator integrates over the unit interval", detail="horizon", expected="integrator('intg', intg, dae, 0, 1, opts)", found="; ".join(ast.unparse(c)[:60] for c in ic), fi=f)
    calls = [c for c in walk_no_nested(f.node) if isinstance(c, ast.Call) and isinstance(c.func, ast.Name) and c.keywords and {"x0", "p"} <= {k.arg for k in c.keywords}]
    ok = len(calls) == 1
    if ok:
        kw = {k.arg: k.value for k in calls[0].keywords}
        pk = n.key(kw["p"])
        direct = isinstance(kw["p"], ast.Subscript) and ast.unparse(kw["p"].value) == "dae" and isinstance(kw["p"].slice, ast.Constant) and kw["p"].slice.value == "p"
        same = "p" in stores and (pk == n.key(stores["p"]) or pk == "dae['p']" or direct)
        ok = ast.unparse(kw["x0"]) == "self.x" and same
        # the algebraic guess offered in the signature must reach the integrator
        _c, _ins, _outs, _ni, _no = AL.function_ctor(f)
        zin = dict(zip(_ni, [ast.unparse(i) for i in _ins])).get("z_initial_guess")
        ctx.check("z0" in kw and zin is not None and ast.unparse(kw["z0"]) == zin, "sys_simulator hands the algebraic guess to the integrator", detail="z_initial_guess accepted but ignored (another DAE branch may be simulated than discrete_system's)",
                  expected="intg(..., z0=z_initial_guess)", found="z0=%s" % (ast.unparse(kw["z0"]) if "z0" in kw else None), fi=f, node=calls[0])
    ctx.check(ok, "sys_simulator call packs p as at definition", detail="p packing", expected="intg(x0=self.x, p=<the vector stored in dae['p']>, z0=...)", found="; ".join(ast.unparse(c) for c in calls), fi=f)
    call, ins, outs, ni, no = AL.function_ctor(f)
    pairs = dict(zip(ni, [ast.unparse(i) for i in ins]))
    want = {"x": "self.x", "u": "self.u", "p": "p", "t0": "t0", "dt": "dt"}
    for k, v in want.items():
        ctx.check(pairs.get(k) == v, "sys_simulator input %s" % k, detail="signature pairing", expected=v, found=pairs.get(k), fi=f)
    om = dict(zip(no, [ast.unparse(o) for o in outs]))
    ctx.check(om.get("xf") == "intg_out['xf']" and om.get("zf") == "intg_out['zf']", "sys_simulator outputs", detail="outputs", expected="xf, zf of the integrator", found=om, fi=f)


@rule("R03.5", min_instances=3, desc="ocp.integral(expr) becomes a quadrature state with derivative expr, read at tf")
def r03_5(ctx):
    check_integral_handler(ctx)


def check_integral_handler(ctx):
    prog = ctx.prog
    f = prog.own_method("DirectMethod", "fill_placeholders_integral")
    sc = ctx.scope(f)
    expr = f.params[3]
    st = [c for c in walk_no_nested(f.node) if is_call_to(c, "state", "stage")]
    ok = len(st) == 1 and any(k.arg == "quad" and isinstance(k.value, ast.Constant) and k.value.value is True for k in st[0].keywords)
    ctx.check(ok, "integral creates a quadrature state", detail="quadrature state", expected="stage.state(quad=True)", found="; ".join(ast.unparse(c) for c in st), fi=f)
    sd = [c for c in walk_no_nested(f.node) if is_call_to(c, "set_der", "stage")]
    ok = len(sd) == 1 and len(sd[0].args) == 2 and ast.unparse(sd[0].args[1]) == expr and isinstance(sd[0].args[0], ast.Name) and st and sc.reaching(sd[0].args[0].id, sd[0].args[0]) is st[0]
    ctx.check(ok, "integral: derivative of the quadrature state is the integrand", detail="integrand", expected="stage.set_der(I, expr)", found="; ".join(ast.unparse(c) for c in sd), fi=f)
    rets = [r for r in walk_no_nested(f.node) if isinstance(r, ast.Return) and r.value is not None]
    ok = len(rets) == 1 and is_call_to(rets[0].value, "at_tf", "stage") and isinstance(rets[0].value.args[0], ast.Name) and st and sc.reaching(rets[0].value.args[0].id, rets[0].value.args[0]) is st[0]
    from ..paths import canon_guard
    gs = [canon_guard(t, p) for r in rets for t, p in sc.path_guards(r)]     # `if phase == 1: ..` and `if phase != 1: return` alike
    ok = ok and gs == [canon_guard("phase == 1", True)]
    ctx.check(ok, "integral: value is the quadrature state at tf (phase 1)", detail="integral value", expected="return stage.at_tf(I) in phase 1", found="; ".join(ast.unparse(r) for r in rets), fi=f)
    g = prog.own_method("Stage", "integral")
    rets = [r for r in walk_no_nested(g.node) if isinstance(r, ast.Return)]
    texts = sorted(ast.unparse(r.value) for r in rets)
    ok = texts == sorted(["self._create_placeholder_expr(%s, 'integral')" % g.params[1], "self._create_placeholder_expr(%s, 'integral_control', refine=refine)" % g.params[1]])
    ctx.check(ok, "Stage.integral species", detail="placeholder species", expected="'integral' for grid='inf', 'integral_control' otherwise", found=texts, fi=g)


@rule("R03.6", min_instances=30, desc="prerequisites of convergence shared with C01/C02: M equal sub-steps with running absolute time, interval wiring, per-interval collocation step and times, continuity through D for every scheme")
def r03_6(ctx):
    from .c01 import r01_1, r01_4
    from .c02 import r02_3, r02_4, r02_5
    r01_1(ctx)
    r01_4(ctx)
    r02_3(ctx)
    r02_4(ctx)
    r02_5(ctx)
    # the collocation quadrature (ocp.integral under DirectCollocation): weights B_j times the step of the same interval
    from .c05 import r05_3
    r05_3(ctx)


@rule("R03.7", min_instances=2, desc="a grid='bspline' signal in the dynamics is a function of time inside the integrator too: the value handed to the M sub-steps of interval k must not be the single sample at t_k")
def r03_7(ctx):
    """Convergence to the continuous model as M grows requires every time-varying input of the right-hand side to be
    evaluated at the stage times.  The shooting path hands `p` (built by get_p_sys) unchanged to all M calls of the step map."""
    P = ctx.prog
    g = P.own_method("SamplingMethod", "get_signals_at")
    rets = [r for r in walk_no_nested(g.node) if isinstance(r, ast.Return) and r.value is not None]
    k = g.params[2]
    per_interval_only = len(rets) == 1 and any(isinstance(x, ast.Subscript) and ast.unparse(x.slice) == k and isinstance(x.value, ast.Attribute) and x.value.attr == "sampled" for x in ast.walk(rets[0].value))
    ctx.check(len(rets) == 1, "get_signals_at has one return", detail="structure", expected="one return", found=str(len(rets)), fi=g)
    f = P.own_method("SamplingMethod", "discrete_system")
    sc = ctx.scope(f)
    calls = [c for c in walk_no_nested(f.node) if isinstance(c, ast.Call) and any(kw.arg == "t0" for kw in c.keywords) and any(kw.arg == "p" for kw in c.keywords) and sc.enclosing_loops(c)]
    const_p = len(calls) == 1 and isinstance([kw.value for kw in calls[0].keywords if kw.arg == "p"][0], ast.Name) and \
        sc.reaching([kw.value for kw in calls[0].keywords if kw.arg == "p"][0].id, calls[0]) is None
    ctx.check(not (per_interval_only and const_p), "shooting: B-spline signals inside the integrator", detail="a grid='bspline' signal in the dynamics is frozen at its value at t_k for all M integrator steps of interval k (zero-order hold): the flow does not converge to the continuous model as M grows",
              expected="the signal evaluated at the stage times of every sub-step (as DirectCollocation does at its collocation times), or such models rejected by the shooting methods",
              found="get_signals_at returns e.sampled[%s]; discrete_system passes the same p to every sub-step" % k, fi=g, sample={"signals": ast.unparse(rets[0].value) if rets else None})

