"""C19 -- to_function reproduces the set_value / set_initial / solve / sample pipeline (narrow claim).

Decided: every argument goes through stage.value and results are passed unchanged under
@transcribed (R19.1); for DirectCollocation the hidden helper arguments and their initialisers are
added pairwise under their own flags, built with matching widths, and the caller's argument list is
not modified (R19.2).
Not decided: agreement with the imperative pipeline (semantics of Opti.to_function).
"""
import ast

from ..core import rule
from ..model import AnalysisError
from ..norm import Norm, expected
from ..poly import Poly
from ..paths import walk_no_nested
from ..loops import loop_context
from ..effects import is_call_to
from .c13 import param_mutations

LEVEL = "other"


@rule("R19.1", min_instances=4, desc="to_function: every argument is mapped through stage.value, results are handed over unchanged, the entry point is @transcribed")
def r19_1(ctx):
    P = ctx.prog
    f = P.own_method("DirectMethod", "to_function")
    rets = [r for r in walk_no_nested(f.node) if isinstance(r, ast.Return) and r.value is not None]
    ok = len(rets) == 1 and is_call_to(rets[0].value, "to_function", "self.opti")
    found = "; ".join(ast.unparse(r.value) for r in rets)
    if ok:
        c = rets[0].value
        name, args, results = f.params[2], f.params[3], f.params[4]
        ok = len(c.args) >= 3 and ast.unparse(c.args[0]) == name and ast.unparse(c.args[2]) == results and \
            Norm(None).key(c.args[1]) == Norm(None).key(ast.parse("[stage.value(a) for a in %s]" % args, mode="eval").body)
    ctx.check(ok, "DirectMethod.to_function maps every argument through stage.value", detail="argument not resolved to the transcribed quantity", expected="self.opti.to_function(name, [stage.value(a) for a in args], results, *margs)",
              found=found, fi=f, sample={"call": found})
    g = P.own_method("Ocp", "to_function")
    ctx.check("transcribed" in g.decorators, "Ocp.to_function is @transcribed", detail="function built from an untranscribed problem", expected="@transcribed", found=str(g.decorators), fi=g)
    rets = [ast.unparse(r.value) for r in walk_no_nested(g.node) if isinstance(r, ast.Return)]
    ctx.check(rets == ["self._method.to_function(self, %s)" % ", ".join(g.params[1:4] + ["*" + g.vararg] if g.vararg else g.params[1:4])], "Ocp.to_function delegates with its arguments unchanged",
              detail="arguments reordered or dropped", expected="self._method.to_function(self, name, args, results, *margs)", found=rets, fi=g)
    v = P.own_method("Stage", "value")
    rets = [ast.unparse(r.value) for r in walk_no_nested(v.node) if isinstance(r, ast.Return)]
    ctx.check(rets == ["placeholders(self._method.eval(self, %s))" % v.params[1]] and "transcribed" in v.decorators, "Stage.value evaluates through the method and the placeholders", detail="value()",
              expected="placeholders(self._method.eval(self, expr))", found=rets, fi=v)


@rule("R19.2", min_instances=9, desc="DirectCollocation.to_function: helper arguments and their initialisers appended pairwise under the same flags, matching widths, caller's list untouched")
def r19_2(ctx):
    P = ctx.prog
    f = P.own_method("DirectCollocation", "to_function")
    sc = ctx.scope(f)
    n = ctx.norm(f)
    args = f.params[3]
    muts = param_mutations(ctx, f, args)
    ctx.check(not muts, "DirectCollocation.to_function works on a copy of the argument list", detail="caller's list modified in place (a second call with the same list misbehaves)",
              expected="args = list(args) before replacing the 'z' marker", found="; ".join(ast.unparse(m) for m in muts[:2]), fi=f, node=(muts[0] if muts else None))
    # flags
    defs = {}
    for nm in ("add_xc", "add_zc"):
        defs[nm] = [d for d in sc.defs.get(nm, []) if d.kind == "assign"]
    last = {nm: (max(ds, key=lambda d: d.order).value if ds else None) for nm, ds in defs.items()}
    kx = Norm(None).key(last["add_xc"]) if last["add_xc"] is not None else None
    wantx = Norm(None).key(ast.parse("depends_on(all_args, states) and not depends_on(all_args, self.Xc_vars)", mode="eval").body)
    ctx.check(kx == wantx, "add_xc: helper states are added iff the sampled states are an argument and the helpers are not", detail="flag for the hidden helper-state argument",
              expected="depends_on(all_args, states) and not depends_on(all_args, self.Xc_vars)", found=kx, fi=f)
    kz = Norm(None).key(last["add_zc"]) if last["add_zc"] is not None else None
    wantz = Norm(None).key(ast.parse("add_zc and not depends_on(all_args, self.Zc_vars_rest)", mode="eval").body)
    ctx.check(kz == wantz, "add_zc: remaining algebraic helpers are added iff 'z' is an argument and they are not", detail="flag for the hidden algebraic-helper argument depends on the wrong condition",
              expected="add_zc and not depends_on(all_args, self.Zc_vars_rest)", found=kz, fi=f, sample={"add_zc": kz})
    zmark = [st for st in walk_no_nested(f.node) if isinstance(st, ast.Assign) and ast.unparse(st.targets[0]) == "add_zc" and ast.unparse(st.value) == "True"]
    ok = len(zmark) == 1 and any("=='z'" in ast.unparse(t).replace(" ", "").replace('"', "'") and p for t, p in sc.guards(zmark[0]))
    ctx.check(ok, "add_zc is raised by the 'z' marker", detail="marker handling", expected="if e == 'z': args[i] = self.Zc_vars_base; add_zc = True", found="", fi=f)
    # pairwise augmentation
    pairs = {}
    for st in walk_no_nested(f.node):
        # canonical form of `L += [x]` is L.append(x)
        if isinstance(st, ast.Call) and isinstance(st.func, ast.Attribute) and st.func.attr == "append" and isinstance(st.func.value, ast.Name) \
                and st.func.value.id in ("inner_args", "call_args") and len(st.args) == 1:
            gs = tuple(ast.unparse(t) for t, p in sc.guards(st) if p)
            pairs.setdefault(gs, {})[st.func.value.id] = (ast.unparse(st.args[0]), sc.order[st])
    want = {("add_xc",): {"inner_args": "self.Xc_vars", "call_args": "self.Xc_vars0"}, ("add_zc",): {"inner_args": "self.Zc_vars_rest", "call_args": "self.Zc0"}}
    for flag, w in want.items():
        got = {k: v[0] for k, v in pairs.get(flag, {}).items()}
        ctx.check(got == w, "under %s the hidden argument and its initialiser are added together" % flag[0], detail="hidden argument without (or with another) initial value",
                  expected=w, found=got, fi=f, sample={"flag": flag[0], "pair": got})
    if all(flag in pairs and len(pairs[flag]) == 2 for flag in want):
        ox = (pairs[("add_xc",)]["inner_args"][1] < pairs[("add_zc",)]["inner_args"][1]) == (pairs[("add_xc",)]["call_args"][1] < pairs[("add_zc",)]["call_args"][1])
        ctx.check(ox, "hidden arguments and initialisers are appended in the same order", detail="initial values given to the wrong hidden argument", expected="same relative order", found="", fi=f)
    rets = [r for r in walk_no_nested(f.node) if isinstance(r, ast.Return) and r.value is not None]
    ok = len(rets) == 1 and is_call_to(rets[0].value, "Function") and Norm(None).key(rets[0].value) == Norm(None).key(ast.parse("Function(name, f_args, f.call(call_args,True,False), *margs)".replace("name", f.params[2]), mode="eval").body)
    ctx.check(ok, "the returned function exposes the user's arguments and calls the inner function with arguments + initialisers", detail="outer function", expected="Function(name, f_args, f.call(call_args, True, False), *margs)",
              found="; ".join(ast.unparse(r.value) for r in rets), fi=f)
    fa = [d for d in sc.defs.get("f_args", []) if d.kind == "assign"]
    ok = len(fa) == 1 and Norm(None).key(fa[0].value) == Norm(None).key(ast.parse("f.mx_in()[:len(%s)]" % args, mode="eval").body)
    ctx.check(ok, "the user's arguments are the first len(args) inputs of the inner function", detail="argument split", expected="f.mx_in()[:len(args)]", found=ast.unparse(fa[0].value) if fa else None, fi=f)
    # producers: widths match pairwise
    g = P.own_method("DirectCollocation", "add_variables")
    ng = ctx.norm(g)
    scg = ctx.scope(g)
    apps = {}
    for L in ("self.Xc_vars", "self.Xc_vars0", "self.Zc_vars_rest", "self.Zc0"):
        a = [c for c in walk_no_nested(g.node) if is_call_to(c, "append", L)]
        apps[L] = a[0] if len(a) == 1 else None
    okp = all(apps.values())
    ctx.check(okp, "helper lists are filled once per integration interval", detail="producers of the hidden arguments", expected="one append each inside (k,i)", found=str({k: bool(v) for k, v in apps.items()}), fi=g)
    if okp:
        def branches(node):
            return (node.test, node.body, node.orelse) if isinstance(node, ast.IfExp) else (None, node, node)
        for a, b, base, wa, wb in (("self.Xc_vars", "self.Xc_vars0", "self.degree", 0, 1), ("self.Zc_vars_rest", "self.Zc0", "self.degree-1", 0, 1)):
            ta, a0, a1 = branches(apps[a].args[0])
            rb = apps[b].args[0]
            ok = is_call_to(rb, "repmat") and len(rb.args) == 3 and isinstance(rb.args[2], ast.IfExp) and ta is not None and ast.unparse(rb.args[2].test) == ast.unparse(ta)
            if ok:
                w0, w1 = ng.poly(rb.args[2].body), ng.poly(rb.args[2].orelse)
                # first branch: helper columns only; second: start column + helper columns
                ok = w0 == expected(base) and w1 == expected(base) + 1 and not is_call_to(a0, "horzcat") and is_call_to(a1, "horzcat") and len(a1.args) == 2
                same_loops = [li.kind for li in loop_context(scg, ng, apps[a])] == [li.kind for li in loop_context(scg, ng, apps[b])] == ["N", "M"]
                ok = ok and same_loops
            ctx.check(ok, "%s and %s have matching widths per integration interval" % (a, b), detail="initialiser width differs from the hidden argument's",
                      expected="%s columns when i==0 else one more, in both lists" % base, found="%s <-> %s" % (ast.unparse(apps[a].args[0]), ast.unparse(apps[b].args[0])), fi=g,
                      sample={"arg": ast.unparse(apps[a].args[0]), "init": ast.unparse(apps[b].args[0])})


@rule("R19.3", min_instances=20, desc="the imperative side of the comparison: set_value / set_initial tables and the FreeTime default guess behave as to_function's arguments do (shared with C09, C10, C11)")
def r19_3(ctx):
    from .c09 import r09_1
    from .c10 import r10_3
    from .c11 import r11_1
    r09_1(ctx)
    r10_3(ctx)
    r11_1(ctx)
    from .c09 import r09_8, r09_11
    r09_8(ctx)     # per-stage parameter values are independent (what stage.value(p) arguments address)
    r09_11(ctx)    # a value for a concatenation of symbols is split by their sizes


def _to_function_closure(P, cname):
    root = P.method(cname, "to_function")
    seen, _ = P.reachable([root], concrete=cname, max_depth=3, stop=lambda f: f.cls is None)
    return root, [f for f in seen.values() if f.cls is not None and f.name == "to_function"]


@rule("R19.4", min_instances=3, desc="guesses that the imperative pipeline derives for hidden decision variables are derived by to_function too: local time-grid variables (from the T/t0 guess) and the helper states of every stage's method")
def r19_4(ctx):
    """The imperative side: Stage.set_initial -> <method>.apply_initial derives the guesses of T_local/t0_local from the T/t0 guess
    (SamplingMethod.apply_initial) and DirectCollocation.set_initial spreads a state guess over the collocation helper states; for a
    multi-stage OCP this happens per stage (R10.11).  to_function must mirror each of them, otherwise f(guess) starts the solver
    elsewhere than set_initial(guess); solve() does (D75, D76: known findings)."""
    P = ctx.prog
    # (a) hidden variables whose guess apply_initial derives
    derived = {}
    for cname in P.subclasses("DirectMethod"):
        f = P.own_method(cname, "apply_initial") if P.cls(cname).methods.get("apply_initial") else None
        if f is None:
            continue
        for st in walk_no_nested(f.node):
            if isinstance(st, ast.Assign) and isinstance(st.targets[0], ast.Subscript) and isinstance(st.targets[0].value, ast.Name):
                key = st.targets[0].slice
                base = key
                while isinstance(base, ast.Subscript):
                    base = base.value
                if isinstance(base, ast.Attribute) and isinstance(base.value, ast.Name) and base.value.id == "self":
                    derived.setdefault((cname, base.attr), f)
    if not derived:
        raise AnalysisError("no derived guesses for hidden variables found in any apply_initial (anchor moved?)")
    for (cname, attr), f in sorted(derived.items()):
        concrete = [c for c in P.subclasses(cname) if c != cname and not P.subclasses(c)[1:]] or [cname]
        missing = []
        for c in concrete:
            root, chain = _to_function_closure(P, c)
            if not any(isinstance(x, ast.Attribute) and x.attr == attr and isinstance(x.value, ast.Name) and x.value.id == "self" for g in chain for x in ast.walk(g.node)):
                missing.append(c)
        ctx.check(not missing, "to_function derives the guess of the hidden variables %s.%s like apply_initial does" % (cname, attr),
                  detail="to_function(.., [ocp.T or ocp.t0], ..) leaves the local time-grid variables at their old guess: f(T_guess) starts elsewhere than set_initial(ocp.T, T_guess); solve()",
                  expected="a to_function in the MRO of every sampling method that feeds self.%s from the T/t0 argument" % attr, found="not referenced by the to_function of: %s" % ", ".join(missing) if missing else "referenced", fi=f,
                  sample={"class": cname, "hidden": attr, "concrete": concrete})
    # (b) the stage tree
    g = P.own_method("Ocp", "to_function")
    d = P.own_method("DirectMethod", "to_function")
    tree = [x for h in (g, d) for x in ast.walk(h.node) if isinstance(x, ast.Attribute) and x.attr in ("iter_stages", "_stages")]
    overriders = [c for c in P.subclasses("DirectMethod") if c != "DirectMethod" and "to_function" in P.cls(c).methods]
    ctx.check(bool(tree) or not overriders, "Ocp.to_function consults the method of every stage", detail="multi-stage OCP: the helper-state initialisers of the stages' methods (%s.to_function) never run: Ocp.to_function delegates to the master's plain DirectMethod only" % "/".join(overriders),
              expected="a walk over iter_stages(include_self=True) letting every stage's method contribute its hidden arguments", found="self._method.to_function(self, ..) only", fi=g,
              sample={"overriders": overriders})


OPTI_WRITERS = ("set_value", "set_initial", "subject_to", "minimize", "add_objective", "clear_objective")


@rule("R19.5", min_instances=2, desc="building the function changes nothing: no function reachable from a to_function writes parameter values, guesses, constraints or the objective of the live problem (arguments not listed keep their CURRENT values)")
def r19_5(ctx):
    P = ctx.prog
    roots = []
    for cname in P.subclasses("DirectMethod"):
        if "to_function" in P.cls(cname).methods:
            roots.append((cname, P.own_method(cname, "to_function")))
    roots.append(("Ocp", P.own_method("Ocp", "to_function")))
    for cname, root in roots:
        concrete = cname if cname != "Ocp" else None
        seen, _ = P.reachable([root], concrete=concrete, max_depth=4, stop=lambda f: f.cls is None and f.module.relpath.endswith("casadi_helpers.py"))
        writers = []
        for g in seen.values():
            if g.name in ("set_parameter", "set_parameters", "apply_initial") and g is not root:
                writers.append((g, "%s (re-applies the stored tables)" % g.qualname))
                continue
            for c in walk_no_nested(g.node):
                if isinstance(c, ast.Call) and isinstance(c.func, ast.Attribute) and c.func.attr in OPTI_WRITERS:
                    recv = ast.unparse(c.func.value)
                    if recv in ("opti", "self.opti", "master.opti", "Opti", "stage.master._method.opti") or recv.endswith(".opti"):
                        writers.append((g, "%s: %s" % (g.qualname, ast.unparse(c)[:60])))
        ctx.check(not writers, "%s.to_function only reads the transcribed problem" % cname, detail="values set after transcription (set_value / set_initial) are overwritten while the function is built: unlisted arguments do not keep their current values",
                  expected="no write to the live Opti problem on any path from to_function", found="; ".join(w for _, w in writers[:3]), fi=root, sample={"reachable": len(seen)})
