"""C19 -- to_function reproduces the set_value / set_initial / solve / sample pipeline (narrow claim).

Decided: every argument goes through stage.value and results are passed unchanged under
@transcribed (R19.1); for DirectCollocation the hidden helper arguments and their initialisers are
added pairwise under their own flags, built with matching widths, and the caller's argument list is
not modified (R19.2).
Not decided: agreement with the imperative pipeline (semantics of Opti.to_function).
"""
import ast

from ..core import rule
from ..model import AnalysisError
from ..norm import Norm, expected
from ..poly import Poly
from ..paths import walk_no_nested
from ..loops import loop_context
from ..effects import is_call_to
from .c13 import param_mutations

LEVEL = "other"


@rule("R19.1", min_instances=4, desc="to_function: every argument is mapped through stage.value, results are handed over unchanged, the entry point is @transcribed")
def r19_1(ctx):
    P = ctx.prog
    f = P.own_method("DirectMethod", "to_function")
    rets = [r for r in walk_no_nested(f.node) if isinstance(r, ast.Return) and r.value is not None]
    ok = len(rets) == 1 and is_call_to(rets[0].value, "to_function", "self.opti")
    found = "; ".join(ast.unparse(r.value) for r in rets)
    if ok:
        c = rets[0].value
        name, args, results = f.params[2], f.params[3], f.params[4]
        ok = len(c.args) >= 3 and ast.unparse(c.args[0]) == name and ast.unparse(c.args[2]) == results and \
            Norm(None).key(c.args[1]) == Norm(None).key(ast.parse("[stage.value(a) for a in %s]" % args, mode="eval").body)
    ctx.check(ok, "DirectMethod.to_function maps every argument through stage.value", detail="argument not resolved to the transcribed quantity", expected="self.opti.to_function(name, [stage.value(a) for a in args], results, *margs)",
              found=found, fi=f, sample={"call": found})
    g = P.own_method("Ocp", "to_function")
    ctx.check("transcribed" in g.decorators, "Ocp.to_function is @transcribed", detail="function built from an untranscribed problem", expected="@transcribed", found=str(g.decorators), fi=g)
    rets = [ast.unparse(r.value) for r in walk_no_nested(g.node) if isinstance(r, ast.Return)]
    ctx.check(rets == ["self._method.to_function(self, %s)" % ", ".join(g.params[1:4] + ["*" + g.vararg] if g.vararg else g.params[1:4])], "Ocp.to_function delegates with its arguments unchanged",
              detail="arguments reordered or dropped", expected="self._method.to_function(self, name, args, results, *margs)", found=rets, fi=g)
    v = P.own_method("Stage", "value")
    rets = [ast.unparse(r.value) for r in walk_no_nested(v.node) if isinstance(r, ast.Return)]
    ctx.check(rets == ["placeholders(self._method.eval(self, %s))" % v.params[1]] and "transcribed" in v.decorators, "Stage.value evaluates through the method and the placeholders", detail="value()",
              expected="placeholders(self._method.eval(self, expr))", found=rets, fi=v)


@rule("R19.2", min_instances=18, desc="DirectCollocation.to_function: helper arguments and their initialisers appended pairwise under the same flags, matching widths, caller's list untouched")
def r19_2(ctx):
    P = ctx.prog
    f = P.own_method("DirectCollocation", "to_function")
    sc = ctx.scope(f)
    n = ctx.norm(f)
    args = f.params[3]
    muts = param_mutations(ctx, f, args)
    ctx.check(not muts, "DirectCollocation.to_function works on a copy of the argument list", detail="caller's list modified in place (a second call with the same list misbehaves)",
              expected="args = list(args) before replacing the 'z' marker", found="; ".join(ast.unparse(m) for m in muts[:2]), fi=f, node=(muts[0] if muts else None))
    # the function is run by the simulator for every combination of (sampled states among the arguments?, helper states among
    # them?, 'z' marker given?, remaining algebraic helpers among them?); what reaches the inner function and what it is called
    # with is compared with the pairs (hidden argument, its initialiser) the property prescribes
    from ..sim import Sim, fresh_obj
    from ..layout import Sym, Obj, freeze, short, LayoutUnknown
    K = freeze
    XC, XC0, ZB, ZR, Z0 = Sym("Xc_vars"), Sym("Xc_vars0"), Sym("Zc_vars_base"), Sym("Zc_vars_rest"), Sym("Zc0")
    STATES = Sym("sampled_states")
    n_cases = 0
    # every combination is run for a stage without and with algebraic states: the hidden helper *states* are needed for
    # a pure ODE as much as for a DAE (seeded change C19-r11-2 made add_xc depend on stage.nz)
    for has_states, has_xc, zmark, has_zr, nz in [(a, b, c, d, e) for a in (True, False) for b in (False, True) for c in (True, False) for d in (False, True) for e in (0, 2)]:
        if True:
            if True:
                if True:
                    user = [Sym("arg", 0)] + (["z"] if zmark else []) + [Sym("arg", 1)]
                    rec = {}
                    me = fresh_obj("self", Xc_vars=XC, Xc_vars0=XC0, Zc_vars_base=ZB, Zc_vars_rest=ZR, Zc0=Z0)
                    stage = fresh_obj("stage", x=Sym("x"), nz=nz, nx=3, nu=1, np=1)

                    def h_depends(sim, recv, a, k, n, has_states=has_states, has_xc=has_xc, has_zr=has_zr):
                        t = K(a[1])
                        if t == K(STATES):
                            return has_states
                        if t == K(XC):
                            return has_xc
                        if t == K(ZR):
                            return has_zr
                        return NotImplemented

                    def h_inner(sim, recv, a, k, n, rec=rec):
                        rec["inner_args"] = list(a[3]) if isinstance(a[3], (list, tuple)) else a[3]
                        rec["inner_margs"] = list(a[5:])
                        nin = len(rec["inner_args"]) if isinstance(rec["inner_args"], list) else 0
                        rec["mx_in"] = [Sym("in", q) for q in range(nin)]
                        return fresh_obj("inner_f", _mx=rec["mx_in"])

                    def h_call(sim, recv, a, k, n, rec=rec):
                        if isinstance(recv, Obj) and recv.name == "inner_f":
                            rec["call_args"] = list(a[0]) if isinstance(a[0], (list, tuple)) else a[0]
                            return Sym("inner_results")
                        return NotImplemented

                    def h_function(sim, recv, a, k, n, rec=rec):
                        rec["outer"] = a
                        return Sym("outer_f")
                    hooks = {"depends_on": h_depends, "SamplingMethod.to_function": h_inner, "DirectMethod.to_function": h_inner, ".call": h_call, "Function": h_function,
                             ".mx_in": lambda s_, r, a, k, n: list(r.attrs["_mx"]) if isinstance(r, Obj) and "_mx" in r.attrs else NotImplemented,
                             ".sample": lambda s_, r, a, k, n: (Sym("time"), STATES),
                             "vvcat": lambda s_, r, a, k, n: Sym("vvcat", K(a[0])), "np.all": lambda s_, r, a, k, n: all(a[0]) if isinstance(a[0], list) else NotImplemented}
                    names = ["n0"] + (["nz"] if zmark else []) + ["n1"]
                    try:
                        sim = Sim(P, hooks=hooks, truth={})
                        sim.call(f, [me, stage, "fname", list(user), Sym("results")], {}, extra_env={f.vararg: [list(names)]} if f.vararg else None)
                    except LayoutUnknown as e:
                        raise AnalysisError("DirectCollocation.to_function could not be simulated: %s" % e)
                    add_xc = has_states and not has_xc
                    add_zc = zmark and not has_zr
                    base = [K(ZB) if x == "z" else K(x) for x in user]
                    want_inner = base + ([K(XC)] if add_xc else []) + ([K(ZR)] if add_zc else [])
                    got_inner = [K(x) for x in rec.get("inner_args", [])] if isinstance(rec.get("inner_args"), list) else None
                    mx = rec.get("mx_in", [])
                    want_call = [K(x) for x in mx[:len(user)]] + ([K(XC0)] if add_xc else []) + ([K(Z0)] if add_zc else [])
                    got_call = [K(x) for x in rec.get("call_args", [])] if isinstance(rec.get("call_args"), list) else None
                    label = "states %s, helpers %s, 'z' %s, rest %s" % tuple("given" if b else "absent" for b in (has_states, has_xc, zmark, has_zr))
                    label += ", nz=%d" % nz
                    okc = got_inner == want_inner and got_call == want_call
                    ctx.check(okc, "to_function (%s): hidden arguments and their initialisers" % label, detail="hidden argument without (or with another) initial value, or added under the wrong condition",
                              expected="inner arguments = user's (+Xc_vars if states given and helpers absent) (+Zc_vars_rest if 'z' given and rest absent); called with the user's inputs + Xc_vars0 / Zc0 in the same order",
                              found="inner %s / call %s" % (short(rec.get("inner_args"))[:90], short(rec.get("call_args"))[:90]), fi=f, sample={"case": label})
                    out = rec.get("outer")
                    oko = out is not None and len(out) >= 3 and out[0] == "fname" and [K(x) for x in out[1]] == [K(x) for x in mx[:len(user)]] and K(out[2]) == K(Sym("inner_results"))
                    ctx.check(oko, "to_function (%s): the returned function exposes exactly the user's arguments" % label, detail="outer function", expected="Function(name, first len(args) inputs of the inner function, inner(call_args), ...)",
                              found=short(out)[:120] if out is not None else None, fi=f)
                    im = rec.get("inner_margs", [])
                    want_names = names + (["Xc_vars"] if add_xc else []) + (["Zc_vars_rest"] if add_zc else [])
                    okn = bool(im) and isinstance(im[0], list) and len(im[0]) == len(want_inner) and im[0][:len(names)] == names
                    ctx.check(okn, "to_function (%s): input names of the inner function cover the hidden arguments" % label, detail="name list shorter/longer than the argument list", expected=want_names, found=im[0] if im else None, fi=f)
                    ctx.check(user == [Sym("arg", 0)] + (["z"] if zmark else []) + [Sym("arg", 1)], "to_function (%s): caller's list untouched" % label, detail="caller's argument list modified in place", expected="unchanged", found=short(user), fi=f)
                    n_cases += 1
    # producers: widths match pairwise
    g = P.own_method("DirectCollocation", "add_variables")
    ng = ctx.norm(g)
    scg = ctx.scope(g)
    apps = {}
    for L in ("self.Xc_vars", "self.Xc_vars0", "self.Zc_vars_rest", "self.Zc0"):
        a = [c for c in walk_no_nested(g.node) if is_call_to(c, "append", L)]
        apps[L] = a[0] if len(a) == 1 else None
    okp = all(apps.values())
    ctx.check(okp, "helper lists are filled once per integration interval", detail="producers of the hidden arguments", expected="one append each inside (k,i)", found=str({k: bool(v) for k, v in apps.items()}), fi=g)
    if okp:
        def branches(node):
            return (node.test, node.body, node.orelse) if isinstance(node, ast.IfExp) else (None, node, node)
        for a, b, base, wa, wb in (("self.Xc_vars", "self.Xc_vars0", "self.degree", 0, 1), ("self.Zc_vars_rest", "self.Zc0", "self.degree-1", 0, 1)):
            ta, a0, a1 = branches(apps[a].args[0])
            rb = apps[b].args[0]
            ok = is_call_to(rb, "repmat") and len(rb.args) == 3 and isinstance(rb.args[2], ast.IfExp) and ta is not None and ast.unparse(rb.args[2].test) == ast.unparse(ta)
            if ok:
                w0, w1 = ng.poly(rb.args[2].body), ng.poly(rb.args[2].orelse)
                # first branch: helper columns only; second: start column + helper columns
                ok = w0 == expected(base) and w1 == expected(base) + 1 and not is_call_to(a0, "horzcat") and is_call_to(a1, "horzcat") and len(a1.args) == 2
                same_loops = [li.kind for li in loop_context(scg, ng, apps[a])] == [li.kind for li in loop_context(scg, ng, apps[b])] == ["N", "M"]
                ok = ok and same_loops
            ctx.check(ok, "%s and %s have matching widths per integration interval" % (a, b), detail="initialiser width differs from the hidden argument's",
                      expected="%s columns when i==0 else one more, in both lists" % base, found="%s <-> %s" % (ast.unparse(apps[a].args[0]), ast.unparse(apps[b].args[0])), fi=g,
                      sample={"arg": ast.unparse(apps[a].args[0]), "init": ast.unparse(apps[b].args[0])})


@rule("R19.3", min_instances=20, desc="the imperative side of the comparison: set_value / set_initial tables and the FreeTime default guess behave as to_function's arguments do (shared with C09, C10, C11)")
def r19_3(ctx):
    from .c09 import r09_1
    from .c10 import r10_3
    from .c11 import r11_1
    r09_1(ctx)
    r10_3(ctx)
    r11_1(ctx)
    from .c09 import r09_8, r09_11
    r09_8(ctx)     # per-stage parameter values are independent (what stage.value(p) arguments address)
    r09_11(ctx)    # a value for a concatenation of symbols is split by their sizes


def _to_function_closure(P, cname):
    root = P.method(cname, "to_function")
    seen, _ = P.reachable([root], concrete=cname, max_depth=3, stop=lambda f: f.cls is None)
    return root, [f for f in seen.values() if f.cls is not None and f.name == "to_function"]


@rule("R19.4", min_instances=3, desc="guesses that the imperative pipeline derives for hidden decision variables are derived by to_function too: local time-grid variables (from the T/t0 guess) and the helper states of every stage's method")
def r19_4(ctx):
    """The imperative side: Stage.set_initial -> <method>.apply_initial derives the guesses of T_local/t0_local from the T/t0 guess
    (SamplingMethod.apply_initial) and DirectCollocation.set_initial spreads a state guess over the collocation helper states; for a
    multi-stage OCP this happens per stage (R10.11).  to_function must mirror each of them, otherwise f(guess) starts the solver
    elsewhere than set_initial(guess); solve() does (D75, D76: known findings)."""
    P = ctx.prog
    # (a) hidden variables whose guess apply_initial derives
    derived = {}
    for cname in P.subclasses("DirectMethod"):
        f = P.own_method(cname, "apply_initial") if P.cls(cname).methods.get("apply_initial") else None
        if f is None:
            continue
        for st in walk_no_nested(f.node):
            if isinstance(st, ast.Assign) and isinstance(st.targets[0], ast.Subscript) and isinstance(st.targets[0].value, ast.Name):
                key = st.targets[0].slice
                base = key
                while isinstance(base, ast.Subscript):
                    base = base.value
                if isinstance(base, ast.Attribute) and isinstance(base.value, ast.Name) and base.value.id == "self":
                    derived.setdefault((cname, base.attr), f)
    if not derived:
        raise AnalysisError("no derived guesses for hidden variables found in any apply_initial (anchor moved?)")
    for (cname, attr), f in sorted(derived.items()):
        concrete = [c for c in P.subclasses(cname) if c != cname and not P.subclasses(c)[1:]] or [cname]
        missing = []
        for c in concrete:
            root, chain = _to_function_closure(P, c)
            if not any(isinstance(x, ast.Attribute) and x.attr == attr and isinstance(x.value, ast.Name) and x.value.id == "self" for g in chain for x in ast.walk(g.node)):
                missing.append(c)
        ctx.check(not missing, "to_function derives the guess of the hidden variables %s.%s like apply_initial does" % (cname, attr),
                  detail="to_function(.., [ocp.T or ocp.t0], ..) leaves the local time-grid variables at their old guess: f(T_guess) starts elsewhere than set_initial(ocp.T, T_guess); solve()",
                  expected="a to_function in the MRO of every sampling method that feeds self.%s from the T/t0 argument" % attr, found="not referenced by the to_function of: %s" % ", ".join(missing) if missing else "referenced", fi=f,
                  sample={"class": cname, "hidden": attr, "concrete": concrete})
    # (b) the stage tree
    g = P.own_method("Ocp", "to_function")
    d = P.own_method("DirectMethod", "to_function")
    tree = [x for h in (g, d) for x in ast.walk(h.node) if isinstance(x, ast.Attribute) and x.attr in ("iter_stages", "_stages")]
    overriders = [c for c in P.subclasses("DirectMethod") if c != "DirectMethod" and "to_function" in P.cls(c).methods]
    ctx.check(bool(tree) or not overriders, "Ocp.to_function consults the method of every stage", detail="multi-stage OCP: the helper-state initialisers of the stages' methods (%s.to_function) never run: Ocp.to_function delegates to the master's plain DirectMethod only" % "/".join(overriders),
              expected="a walk over iter_stages(include_self=True) letting every stage's method contribute its hidden arguments", found="self._method.to_function(self, ..) only", fi=g,
              sample={"overriders": overriders})


    # (c) guesses declared as expressions (set_initial(x, ocp.t), set_initial(u, 1/p)): the imperative pipeline evaluates the guess table of
    # every stage anew on each set_initial (Stage.set_initial -> apply_initial -> <method>.set_initial reads stage._initial), so they follow
    # the T/t0/parameter values given later; to_function must replay that table with its arguments substituted (D80)
    readers = ["%s.%s" % (c, m.name) for c in P.subclasses("DirectMethod") for m in P.cls(c).methods.values() if m.name != "to_function"
               and any(is_call_to(x, "apply_initial") and any(isinstance(a, ast.Attribute) and a.attr == "_initial" for a in x.args) for x in walk_no_nested(m.node))]
    evaluators = [c for c in P.subclasses("DirectMethod") if P.cls(c).methods.get("set_initial") and any(is_call_to(x, "value") and len(x.args) == 2 for x in ast.walk(P.cls(c).methods["set_initial"].node))]
    if not readers or not evaluators:
        raise AnalysisError("the imperative evaluation of the guess table (apply_initial(stage, opti, stage._initial); opti.debug.value(expr, opti_initial)) was not found (anchor moved?)")
    for c in sorted(c for c in P.subclasses("DirectMethod") if not P.subclasses(c)[1:]):
        root, chain = _to_function_closure(P, c)
        replays = any(isinstance(x, ast.Attribute) and x.attr in ("_initial", "initial") and not (isinstance(x.value, ast.Attribute) and x.value.attr == "opti") and ast.unparse(x.value) in ("stage", "s", "self", "stage._augmented", "ocp")
                      and x.attr == "_initial" for g in chain for x in ast.walk(g.node))
        ctx.check(replays, "to_function of %s re-evaluates the guesses declared as expressions" % c,
                  detail="set_initial(x, ocp.t) / set_initial(u, 1/p): f(p, T) starts from the guess evaluated with the values current when the function was made, set_value; set_initial; solve() re-evaluates it",
                  expected="the guess table (stage._initial) replayed symbolically in the function, like %s.set_initial evaluates it (%s)" % (evaluators[0], readers[0]), found="stage._initial is not consulted by any to_function of the class", fi=root,
                  sample={"class": c})


OPTI_WRITERS = ("set_value", "set_initial", "subject_to", "minimize", "add_objective", "clear_objective")


@rule("R19.5", min_instances=2, desc="building the function changes nothing: no function reachable from a to_function writes parameter values, guesses, constraints or the objective of the live problem (arguments not listed keep their CURRENT values)")
def r19_5(ctx):
    P = ctx.prog
    roots = []
    for cname in P.subclasses("DirectMethod"):
        if "to_function" in P.cls(cname).methods:
            roots.append((cname, P.own_method(cname, "to_function")))
    roots.append(("Ocp", P.own_method("Ocp", "to_function")))
    for cname, root in roots:
        concrete = cname if cname != "Ocp" else None
        seen, _ = P.reachable([root], concrete=concrete, max_depth=4, stop=lambda f: f.cls is None and f.module.relpath.endswith("casadi_helpers.py"))
        writers = []
        for g in seen.values():
            if g.name in ("set_parameter", "set_parameters", "apply_initial") and g is not root:
                writers.append((g, "%s (re-applies the stored tables)" % g.qualname))
                continue
            for c in walk_no_nested(g.node):
                if isinstance(c, ast.Call) and isinstance(c.func, ast.Attribute) and c.func.attr in OPTI_WRITERS:
                    recv = ast.unparse(c.func.value)
                    if recv in ("opti", "self.opti", "master.opti", "Opti", "stage.master._method.opti") or recv.endswith(".opti"):
                        writers.append((g, "%s: %s" % (g.qualname, ast.unparse(c)[:60])))
        ctx.check(not writers, "%s.to_function only reads the transcribed problem" % cname, detail="values set after transcription (set_value / set_initial) are overwritten while the function is built: unlisted arguments do not keep their current values",
                  expected="no write to the live Opti problem on any path from to_function", found="; ".join(w for _, w in writers[:3]), fi=root, sample={"reachable": len(seen)})
