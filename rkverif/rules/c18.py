"""C18 -- saving and loading an OCP preserves the problem (narrow claim).

Decided: save un-transcribes before pickling inside the pickle context, load unpickles inside the
unpickle context (R18.1); both contexts install and remove the same hook on the same class list
(R18.2), which covers the CasADi classes stored on pickled objects (R18.3); the hash containers wrap
on write, unwrap on read, copy to their own class and never cache a process-specific hash (R18.4);
a value set after transcription reaches the pickled specification (R18.5 = R09.4); un-transcribing
only clears transcription state, never specification or configuration (R18.6).
Not decided: equality of the reloaded NLP with the original's.
"""
import ast

from ..core import rule
from ..model import AnalysisError
from ..norm import Norm
from ..paths import walk_no_nested, Walker
from ..layout import short
from ..effects import is_call_to, writes_in
from .c13 import check_set_value_write_through, spec_attrs

LEVEL = "other"


@rule("R18.1", min_instances=4, desc="save: _untranscribe() then pickle.dump inside rockit_pickle_context(); load: pickle.load inside rockit_unpickle_context()")
def r18_1(ctx):
    P = ctx.prog
    f = P.own_method("Ocp", "save")
    sc = ctx.scope(f)
    un = [c for c in walk_no_nested(f.node) if is_call_to(c, "_untranscribe", "self")]
    dumps = [c for c in walk_no_nested(f.node) if is_call_to(c, "dump", "pickle")]
    ok = len(un) == 1 and len(dumps) == 1 and sc.order[un[0]] < sc.order[dumps[0]] and not sc.guards(un[0])
    ctx.check(ok, "Ocp.save un-transcribes before pickling", detail="Opti object (not serialisable) or stale transcription pickled", expected="self._untranscribe(); pickle.dump(...)", found="", fi=f)
    # every call of save writes the file: no early return, no condition around the dump (what is on disk is the current declaration)
    early = [r for r in walk_no_nested(f.node) if isinstance(r, ast.Return)]
    cond = [ast.unparse(t) for d in dumps for t, pol in sc.guards(d)]
    ctx.check(not early and not cond and bool(dumps), "Ocp.save writes the file on every call", detail="a save is skipped: values or guesses set since the last save (set_value / set_initial do not invalidate anything) are not in the file that load() reads",
              expected="unconditional pickle.dump", found="; ".join(["return at line %d" % r.lineno for r in early] + ["dump under: " + c for c in cond]), fi=f)
    withs = [w for w in walk_no_nested(f.node) if isinstance(w, ast.With) and any(is_call_to(i.context_expr, "rockit_pickle_context") for i in w.items)]
    ok = len(withs) == 1 and bool(dumps) and sc.within(dumps[0], withs[0])
    ctx.check(ok, "Ocp.save pickles inside rockit_pickle_context()", detail="CasADi objects pickled without the serialisation hook", expected="with rockit_pickle_context(): pickle.dump(self, ...)", found="", fi=f)
    ok = bool(dumps) and ast.unparse(dumps[0].args[0]) == "self"
    ctx.check(ok, "Ocp.save pickles the OCP itself", detail="another object saved", expected="pickle.dump(self, file)", found=ast.unparse(dumps[0]) if dumps else None, fi=f)
    g = P.own_method("Ocp", "load")
    scg = ctx.scope(g)
    loads = [c for c in walk_no_nested(g.node) if is_call_to(c, "load", "pickle")]
    withs = [w for w in walk_no_nested(g.node) if isinstance(w, ast.With) and any(is_call_to(i.context_expr, "rockit_unpickle_context") for i in w.items)]
    ok = len(loads) == 1 and len(withs) == 1 and scg.within(loads[0], withs[0])
    ctx.check(ok, "Ocp.load unpickles inside rockit_unpickle_context()", detail="CasADi objects restored without the deserialisation hook", expected="with rockit_unpickle_context(): return pickle.load(...)", found="", fi=g)


@rule("R18.2", min_instances=6, desc="both pickle contexts install their hook on every class of ca_classes and remove the same hook from the same classes")
def r18_2(ctx):
    P = ctx.prog
    for name, hook in (("rockit_pickle_context", "__getstate__"), ("rockit_unpickle_context", "__setstate__")):
        f = P.function("casadi_helpers", name)
        sc = ctx.scope(f)
        sets = [c for c in walk_no_nested(f.node) if is_call_to(c, "setattr")]
        dels = [c for c in walk_no_nested(f.node) if is_call_to(c, "delattr")]
        ys = [y for y in walk_no_nested(f.node) if isinstance(y, ast.Yield)]
        ok = len(sets) == 1 and len(dels) == 1 and len(ys) == 1
        ctx.check(ok, "%s: one install, one yield, one removal" % name, detail="context structure", expected="setattr loop; yield; delattr loop", found="%d/%d/%d" % (len(sets), len(ys), len(dels)), fi=f)
        if not ok:
            continue
        def loop_iter(c):
            ls = sc.enclosing_loops(c)
            return ast.unparse(ls[-1][1]) if ls else None
        ok = loop_iter(sets[0]) == "ca_classes" and loop_iter(dels[0]) == "ca_classes"
        ctx.check(ok, "%s: hook installed on and removed from the same class list" % name, detail="class lists differ", expected="for c in ca_classes (both)", found="%s / %s" % (loop_iter(sets[0]), loop_iter(dels[0])), fi=f)
        a = [ast.unparse(x) for x in sets[0].args]
        b = [ast.unparse(x) for x in dels[0].args]
        ok = len(a) == 3 and len(b) == 2 and a[1] == repr(hook) and b[1] == repr(hook) and a[2] == hook
        ctx.check(ok, "%s: installs and removes %s" % (name, hook), detail="hook name mismatch (hook left installed or wrong hook)", expected="setattr(c, '%s', %s) ... delattr(c, '%s')" % (hook, hook, hook), found="%s / %s" % (a, b), fi=f)
        ok = sc.order[sets[0]] < sc.order[ys[0]] < sc.order[dels[0]]
        ctx.check(ok, "%s: install before yield, remove after" % name, detail="order", expected="install; yield; remove", found="", fi=f)


@rule("R18.3", min_instances=2, desc="ca_classes covers the CasADi classes whose instances are stored on pickled OCPs; Opti is refused explicitly")
def r18_3(ctx):
    P = ctx.prog
    m = P.module("casadi_helpers")
    lst = None
    for st in m.tree.body:
        if isinstance(st, ast.Assign) and ast.unparse(st.targets[0]) == "ca_classes" and isinstance(st.value, ast.List):
            lst = [ast.unparse(e).split(".")[-1] for e in st.value.elts]
    if lst is None:
        raise AnalysisError("casadi_helpers.ca_classes not found")
    need = {"MX", "DM", "Sparsity", "Function", "Opti"}
    ctx.check(need <= set(lst), "ca_classes contains MX, DM, Sparsity, Function, Opti", detail="a stored CasADi class is pickled without hook", expected=sorted(need), found=lst, sample={"ca_classes": lst})
    f = P.function("casadi_helpers", "rockit_pickle_context")
    from ..model import nested_functions
    gs = nested_functions(f).get("__getstate__")
    ok = gs is not None and any(isinstance(i, ast.If) and "Opti" in ast.unparse(i.test) and any(isinstance(x, ast.Raise) for x in i.body) for i in walk_no_nested(gs.node))
    ctx.check(ok, "pickling an Opti object raises", detail="transcribed problem silently pickled", expected="if isinstance(self, cs.Opti): raise", found="", fi=f)


WRAP_CLASSES = ["HashDict", "HashDefaultDict", "HashOrderedDict"]


@rule("R18.4", min_instances=12, desc="hash containers: keys wrapped on write and on lookup, unwrapped on iteration, copies keep their class; HashWrap hashes its argument at call time")
def r18_4(ctx):
    P = ctx.prog
    m = P.module("casadi_helpers")
    for cname in WRAP_CLASSES:
        if cname not in m.classes:
            raise AnalysisError("class %s missing" % cname)
        c = m.classes[cname]
        for meth in ("__getitem__", "__setitem__"):
            f = c.methods.get(meth)
            ok = f is not None and any(is_call_to(x, "HashWrap") and ast.unparse(x.args[0]) == f.params[1] for x in walk_no_nested(f.node))
            ctx.check(ok, "%s.%s wraps the key" % (cname, meth), detail="symbol key stored/looked up by identity hash", expected="HashWrap(k)", found="", fi=f)
        f = c.methods.get("__copy__")
        ok = f is not None and any(isinstance(x, ast.Call) and ast.unparse(x.func) == cname for x in walk_no_nested(f.node))
        ctx.check(ok, "%s.__copy__ returns a %s" % (cname, cname), detail="copy degrades to a plain dict (clones lose symbol lookup)", expected="r = %s(...)" % cname, found="", fi=f)
        it = c.methods.get("__iter__") or (c.methods.get(c.aliases.get("__iter__")) if c.aliases.get("__iter__") else None)
        ok = it is not None and any(isinstance(x, ast.Attribute) and x.attr == "arg" for x in walk_no_nested(it.node))
        ctx.check(ok, "%s iteration unwraps the keys" % cname, detail="wrapped keys leak to users", expected="yield k.arg", found="", fi=it)
    w = m.classes.get("HashWrap")
    if w is None:
        raise AnalysisError("class HashWrap missing")
    h = w.methods.get("__hash__")
    rets = [ast.unparse(r.value) for r in walk_no_nested(h.node) if isinstance(r, ast.Return)] if h else []
    ctx.check(rets == ["hash(self.arg)"], "HashWrap.__hash__ hashes the wrapped object at call time", detail="cached hash goes stale across pickling (membership tests fail on a loaded OCP)",
              expected="return hash(self.arg)", found=rets, fi=h, sample={"hash": rets})
    init = w.methods.get("__init__")
    ws = sorted({x.attr for x in writes_in(init.node)}) if init else []
    ctx.check(ws == ["arg"], "HashWrap stores only the wrapped object", detail="process-specific derived state is pickled", expected="self.arg only", found=ws, fi=init)
    hl = m.classes.get("HashList")
    ok = hl is not None and "append" in hl.methods and any(is_call_to(x, "add", "self._stored") for x in walk_no_nested(hl.methods["append"].node)) and \
        "__contains__" in hl.methods and "__copy__" in hl.methods and any(isinstance(x, ast.Call) and ast.unparse(x.func) == "HashList" for x in walk_no_nested(hl.methods["__copy__"].node))
    ctx.check(ok, "HashList keeps its membership set in step with the list and copies to a HashList", detail="membership index", expected="append -> _stored.add(HashWrap(item)); __copy__ -> HashList", found="", fi=(hl.methods.get("append") if hl else None))


@rule("R18.5", min_instances=1, desc="a value set after transcription reaches the pickled specification (write-through of Stage.set_value)")
def r18_5(ctx):
    check_set_value_write_through(ctx)


@rule("R18.6", min_instances=8, desc="un-transcribing (what save does to the original) clears transcription state only: no specification attribute of a stage and no configuration attribute of a method is written")
def r18_6(ctx):
    P = ctx.prog
    spec = spec_attrs(P) | {"_method"}
    for cname, name in (("Ocp", "_untranscribe"), ("Stage", "_untranscribe_recurse"), ("Stage", "_placeholders_untranscribe_recurse")):
        f = P.own_method(cname, name)
        bad = [w for w in writes_in(f.node) if w.attr in spec]
        ctx.check(not bad, "%s writes no specification attribute" % f.qualname, detail="saving damages the declared problem", expected="only transcription flags", found="; ".join(w.attr for w in bad), fi=f)
    # configuration of method objects: constructor arguments and solver settings
    for cname in P.subclasses("DirectMethod"):
        init = P.resolve(cname, "__init__")
        # configuration = what the user chose: attributes the constructors derive from their arguments, and what the user-facing
        # setters of the method object (Ocp.solver -> method.solver, Ocp.callback -> method.callback) record.  Attributes a constructor
        # merely initialises to a constant are state, whether clean() resets them or not.
        cfg = set()
        c = cname
        for k in P.mro(cname):
            i = k.methods.get("__init__")
            if i is not None:
                prm = set(i.params[1:]) | ({i.kwarg} if i.kwarg else set())
                for w in writes_in(i.node):
                    if w.kind == "assign" and isinstance(w.node, ast.Assign) and any(isinstance(x, ast.Name) and x.id in prm for x in ast.walk(w.node.value)):
                        cfg.add(w.attr)
            for setter in ("solver", "callback"):
                g = k.methods.get(setter)
                if g is not None:
                    cfg |= {w.attr for w in writes_in(g.node)}
        cleaned = set()
        work = [P.method(cname, "clean")]
        seen = set()
        while work:
            g = work.pop()
            if g.qualname in seen:
                continue
            seen.add(g.qualname)
            cleaned |= {w.attr for w in writes_in(g.node)}
            for n in walk_no_nested(g.node):
                if isinstance(n, ast.Call) and isinstance(n.func, ast.Attribute) and n.func.attr == "clean" and ast.unparse(n.func.value) in P.classes:
                    h = P.resolve(ast.unparse(n.func.value), "clean")
                    if h:
                        work.append(h)
        both = sorted(cfg & cleaned)
        ctx.check(not both, "%s.clean() leaves the configuration alone" % cname, detail="un-transcribing resets a constructor argument / solver setting",
                  expected="clean() assigns transcription state only", found="also assigned in __init__: %s" % both, fi=P.method(cname, "clean"), sample={"config": sorted(cfg)})
    f = P.own_method("DirectMethod", "main_untranscribe")
    ws = sorted({w.attr for w in writes_in(f.node)})
    ctx.check(ws == ["opti"], "DirectMethod.main_untranscribe drops only the Opti instance", detail="main method un-transcription", expected="self.opti = None", found=ws, fi=f)


@rule("R18.7", min_instances=8, desc="what is pickled is complete and fresh: guesses given after transcription are recorded in the declaration (shared with C10); each save/load uses its own serializer")
def r18_7(ctx):
    from .c10 import r10_5
    from .c13 import r13_8
    r10_5(ctx)
    r13_8(ctx)   # applying guesses / values to a live transcription never edits the declared tables that save() pickles
    P = ctx.prog
    for name, cls in (("rockit_pickle_context", "StringSerializer"), ("rockit_unpickle_context", "StringSerializer")):
        f = P.function("casadi_helpers", name)
        ctx.check(not f.params and not f.node.args.defaults and not f.node.args.kw_defaults, "%s takes no (default) arguments" % name, detail="serializer state shared between saves (a second save in the same process writes an unreadable file)",
                  expected="no parameters; a fresh serializer per call", found="parameters: %s" % f.params, fi=f)
        made = [st for st in f.node.body if isinstance(st, ast.Assign) and isinstance(st.value, ast.Call) and ast.unparse(st.value.func).endswith(cls) and not st.value.args]
        ctx.check(len(made) == 1, "%s creates its serializer on every call" % name, detail="serializer reuse", expected="string_serializer = cs.StringSerializer() in the body", found=str(len(made)), fi=f)


@rule("R18.8", min_instances=5, desc="un-transcribing lets go of everything that cannot be pickled, in every stage: Ocp._untranscribe runs the phase-0/1/2 recursers and the placeholder recurser whenever it withdraws the flag, and the recursers reach every method's untranscribe/clean")
def r18_8(ctx):
    P = ctx.prog
    f = P.own_method("Ocp", "_untranscribe")
    sc = ctx.scope(f)
    flag = [c for c in walk_no_nested(f.node) if is_call_to(c, "_set_transcribed") and c.args and ast.unparse(c.args[0]) == "False"]
    if len(flag) != 1:
        raise AnalysisError("Ocp._untranscribe: expected one withdrawal of the transcribed flag, found %d" % len(flag))
    fg = sorted((ast.unparse(t), pol) for t, pol in sc.guards(flag[0]))
    want = [("_untranscribe_recurse", "phase=0"), ("_placeholders_untranscribe_recurse", "1"), ("_untranscribe_recurse", "phase=1"), ("_untranscribe_recurse", "phase=2")]
    for name, arg in want:
        cs = [c for c in walk_no_nested(f.node) if is_call_to(c, name, "self") and [ast.unparse(a) for a in c.args] + ["%s=%s" % (k.arg, ast.unparse(k.value)) for k in c.keywords] == [arg]]
        ok = len(cs) == 1 and sorted((ast.unparse(t), pol) for t, pol in sc.guards(cs[0])) == fg
        ctx.check(ok, "Ocp._untranscribe runs %s(%s) whenever it withdraws the flag" % (name, arg), detail="a stage's method keeps its Opti-bound objects (advanced view, constraint inspector, ...): save() raises or pickles a stale transcription",
                  expected="self.%s(%s) under the same condition as the flag withdrawal (%s)" % (name, arg, " and ".join(t for t, _ in fg) or "none"),
                  found="; ".join("%s if %s" % (ast.unparse(c), " and ".join(ast.unparse(t) for t, _ in sc.guards(c)) or "always") for c in cs) or "not called", fi=f)
    # the recursers visit the stage itself and every sub-stage
    g = P.own_method("Stage", "_untranscribe_recurse")
    own = [c for c in walk_no_nested(g.node) if isinstance(c, ast.Call) and isinstance(c.func, ast.Attribute) and c.func.attr in ("untranscribe", "main_untranscribe") and ast.unparse(c.func.value) == "self._method"]
    rec = [c for c in walk_no_nested(g.node) if isinstance(c, ast.Call) and isinstance(c.func, ast.Attribute) and c.func.attr == "_untranscribe_recurse"]
    scg = ctx.scope(g)
    ok = len(own) >= 1 and len(rec) == 1 and scg.enclosing_loops(rec[0]) and ast.unparse(scg.enclosing_loops(rec[0])[-1][1]) == "self._stages"
    ctx.check(ok, "Stage._untranscribe_recurse un-transcribes its own method and recurses into every sub-stage", detail="sub-stage methods keep their transcription", expected="self._method.untranscribe(self, ...); for s in self._stages: s._untranscribe_recurse(...)",
              found="own: %s; recursion: %s" % ([ast.unparse(c)[:50] for c in own], [ast.unparse(c)[:50] for c in rec]), fi=g)


def _opti_bound_attrs(P, cname):
    """attributes of a method class that are assigned an Opti-bound object (refused by the pickle hook) by any method of its MRO"""
    holders = set()
    for k in P.classes.values():
        i = k.methods.get("__init__")
        if i is not None and any(isinstance(st, ast.Assign) and isinstance(st.value, ast.Call) and ast.unparse(st.value.func).split(".")[-1] in ("Opti", "OptiWrapper") for st in walk_no_nested(i.node)):
            holders.add(k.name)
    out = {}
    for k in P.mro(cname):
        for m in k.methods.values():
            for st in walk_no_nested(m.node):
                if not (isinstance(st, ast.Assign) and len(st.targets) == 1 and isinstance(st.targets[0], ast.Attribute) and ast.unparse(st.targets[0].value) == "self"):
                    continue
                v = st.value
                bound = (isinstance(v, ast.Attribute) and v.attr == "advanced") or \
                        (isinstance(v, ast.Call) and ast.unparse(v.func).split(".")[-1] in ({"Opti", "OptiWrapper"} | holders))
                if bound:
                    out.setdefault(st.targets[0].attr, (m, st))
    return out


@rule("R18.9", min_instances=5, desc="every attribute of a method object that holds an Opti-bound object while transcribed (the Opti wrapper, an advanced view, a constraint inspector) is None again after un-transcription (simulated untranscribe + main_untranscribe), whatever form clean() is written in")
def r18_9(ctx):
    from ..sim import Sim, fresh_obj
    from ..layout import Sym, LayoutUnknown
    P = ctx.prog
    total = 0
    for cname in sorted(P.subclasses("DirectMethod")):
        attrs = _opti_bound_attrs(P, cname)
        if not attrs:
            continue
        me = fresh_obj("self", **{a: Sym("live_" + a) for a in attrs})
        try:
            for name in ("untranscribe", "main_untranscribe"):
                g = P.resolve(cname, name)
                if g is None:
                    raise AnalysisError("%s.%s missing" % (cname, name))
                sim = Sim(P, hooks={"HashOrderedDict": lambda s_, r, a, k, n: {}, "HashDict": lambda s_, r, a, k, n: {}, "HashList": lambda s_, r, a, k, n: [], "OrderedDict": lambda s_, r, a, k, n: {}})
                sim.self_class = cname
                sim.call(g, [me, Sym("stage")], {})
        except LayoutUnknown as e:
            raise AnalysisError("%s un-transcription could not be simulated: %s" % (cname, e))
        for a, (m, st) in sorted(attrs.items()):
            total += 1
            v = me.attrs.get(a)
            ctx.check(v is None, "%s: self.%s is released by un-transcription" % (cname, a), detail="an Opti-bound object survives un-transcription: Ocp.save() raises 'Opti cannot be serialized' after a transcription with this method",
                      expected="self.%s is None after untranscribe()/main_untranscribe()" % a, found="still %s (assigned in %s: %s)" % (short(v) if v is not None else None, m.qualname, ast.unparse(st)[:80]), fi=P.resolve(cname, "clean") or m)
    if total < 5:
        raise AnalysisError("R18.9: only %d Opti-bound attributes found (expected >= 5)" % total)


@rule("R18.10", min_instances=2, desc="save releases the transcription state whatever the history: simulated Ocp.save with the transcribed flag set and with the flag withdrawn by a later declaration (the method objects still hold the Opti then) runs the phase-0/1/2 un-transcription of every stage before pickle.dump")
def r18_10(ctx):
    from ..sim import Sim, fresh_obj
    from ..layout import Sym, LayoutUnknown
    P = ctx.prog
    f = P.own_method("Ocp", "save")
    # an eager design (the invalidation itself releases the state) would make the flag a faithful witness: accepted
    inval = P.own_method("Stage", "_set_transcribed")
    eager = any(q.split(".")[-1] in ("main_untranscribe", "_untranscribe_recurse") for q in P.reachable([inval])[0])
    for flag in (True, False):
        log = []
        hooks = {"._untranscribe_recurse": lambda s, r, a, k, n: log.append(("recurse", freeze_kw(a, k))),
                 "._placeholders_untranscribe_recurse": lambda s, r, a, k, n: log.append(("placeholders", freeze_kw(a, k))),
                 "pickle.dump": lambda s, r, a, k, n: log.append(("dump", None)), ".dump": lambda s, r, a, k, n: log.append(("dump", None)), "dump": lambda s, r, a, k, n: log.append(("dump", None)),
                 "open": lambda s, r, a, k, n: Sym("file"), "._set_transcribed": lambda s, r, a, k, n: None, ".clear": lambda s, r, a, k, n: None}
        me = fresh_obj("self", is_transcribed=flag, _is_transcribed=flag, _var_is_transcribed=flag)
        me.attrs["_original"] = me
        me.attrs["master"] = me
        sim = Sim(P, hooks=hooks)
        sim.self_class = "Ocp"
        try:
            sim.call(f, [me, "file.rockit"], {})
        except LayoutUnknown as e:
            raise AnalysisError("Ocp.save could not be simulated: %s" % e)
        if ("dump", None) not in log:
            raise AnalysisError("Ocp.save: no pickle.dump reached in the simulation")
        before = log[:log.index(("dump", None))]
        phases = sorted(v for k, v in before if k == "recurse")
        ok = phases == ["0", "1", "2"] or (not flag and eager)
        ctx.check(ok, "Ocp.save %s: every stage is un-transcribed (phases 0, 1, 2) before the dump" % ("of a transcribed OCP" if flag else "after a declaration invalidated the transcription"),
                  detail="the flag is withdrawn by any declaration after a solve but the method objects keep their Opti: save() raises 'Opti cannot be serialized' (history: solve, subject_to, save)",
                  expected="_untranscribe_recurse(phase=0), (phase=1), (phase=2) before pickle.dump, whatever the flag says", found="before the dump: %s" % (["%s(%s)" % kv for kv in before] or "nothing"), fi=P.own_method("Ocp", "_untranscribe"))


def freeze_kw(a, k):
    vals = list(a) + [v for _, v in sorted(k.items())]
    return ",".join(str(v) for v in vals)
