"""C01 -- shooting transcription encodes exactly the chosen integration scheme.

Decided: M sub-steps per interval wired state-to-state with the running absolute time and the
interval's own control/parameters (R01.1), agreeing step-map signatures (R01.2), a consistent
explicit Butcher tableau with absolute stage times (R01.3), interval wiring of the F call in
MultipleShooting/SingleShooting (R01.4), gap closing / recursion against the call of the same
interval (R01.5), per-interval selection with one k (R01.6), pack order of the p vector (R01.7),
content/position agreement of the stored intermediate lists (R01.8, layout engine).
Not decided: that CasADi evaluates the graph as written; values of residuals.
"""
import ast

from ..core import rule
from ..model import AnalysisError
from ..norm import Norm, expected, value_cases
from ..poly import Poly
from ..paths import walk_no_nested
from ..loops import loop_context, loop_var, classify_iter
from ..effects import is_call_to
from .. import algebra as AL

LEVEL = "other"

STEP_IN = ["x0", "u", "t0", "DT", "DT_control", "p", "z0"]
STEP_OUT = ["xf", "poly_coeff", "qf", "poly_coeff_q", "zf", "poly_coeff_z"]


def find_keyword_calls(fi, needed):
    return [c for c in walk_no_nested(fi.node) if isinstance(c, ast.Call) and needed <= {kw.arg for kw in c.keywords}]


@rule("R01.1", min_instances=16, desc="sub-stepping in discrete_system: one step-map call per j in range(M), chained state-to-state, running absolute time advanced by DT=T/M, interval data unchanged")
def r01_1(ctx):
    prog = ctx.prog
    f = prog.own_method("SamplingMethod", "discrete_system")
    sc = ctx.scope(f)
    n = ctx.norm(f)
    calls = find_keyword_calls(f, {"x0", "DT"})
    ctx.check(len(calls) == 1, "discrete_system step-map call", detail="number of step-map calls", expected="exactly one intg(x0=..., u=..., t0=..., DT=..., DT_control=..., p=..., z0=...)",
              found="%d" % len(calls), fi=f)
    if len(calls) != 1:
        return
    c = calls[0]
    lc = loop_context(sc, n, c)
    ctx.check([li.kind for li in lc] == ["M"] and not sc.guards(c), "discrete_system sub-step loop", detail="not one call per j in range(M)",
              expected="for j in range(self.M): intg(...)", found=str([li.kind for li in lc]), fi=f, node=c)
    if [li.kind for li in lc] != ["M"]:
        return
    loop = lc[0].owner
    ctor, ins, outs, names_in, names_out = AL.function_ctor(f)
    in_of = dict(zip(names_in, [ast.unparse(e) for e in ins]))
    ctx.check(names_in == ["x0", "u", "T", "t0", "p", "z0"], "discrete_system input names", detail="signature of F", expected=["x0", "u", "T", "t0", "p", "z0"], found=names_in, fi=f)
    kw = {k.arg: k.value for k in c.keywords}
    ctx.check(set(kw) == set(STEP_IN), "discrete_system passes every step-map input", detail="step-map inputs", expected=sorted(STEP_IN), found=sorted(kw), fi=f, node=c)
    res_name = None
    st = sc.stmt_of(c)
    if isinstance(st, ast.Assign) and isinstance(st.targets[0], ast.Name):
        res_name = st.targets[0].id

    def is_res(node, key):
        return isinstance(node, ast.Subscript) and isinstance(node.value, ast.Name) and node.value.id == res_name and \
            isinstance(node.slice, ast.Constant) and node.slice.value == key

    # x0 <- last element of the state list; the list starts as [X0] and grows by this call's xf
    x0 = kw.get("x0")
    ok = isinstance(x0, ast.Subscript) and isinstance(x0.value, ast.Name) and n.poly(x0.slice) == Poly.const(-1)
    XL = x0.value.id if ok else None
    if ok:
        inits = [d for d in sc.defs.get(XL, []) if d.kind == "assign"]
        ok = len(inits) == 1 and isinstance(inits[0].value, ast.List) and len(inits[0].value.elts) == 1 and \
            ast.unparse(inits[0].value.elts[0]) == in_of.get("x0") and not sc.enclosing_loops(inits[0].stmt)
        apps = [a for a in walk_no_nested(f.node) if is_call_to(a, "append", XL)]
        ok = ok and len(apps) == 1 and sc.within(apps[0], loop) and len(sc.enclosing_loops(apps[0])) == 1 and is_res(apps[0].args[0], "xf") \
            and sc.order[apps[0]] > sc.order[c] and not sc.guards(apps[0])
    ctx.check(ok, "discrete_system state chaining", detail="sub-steps not chained state-to-state from the interval's start state",
              expected="X=[X0]; per step: res=intg(x0=X[-1],...); X.append(res['xf'])", found="x0=%s" % (ast.unparse(x0) if x0 is not None else None), fi=f, node=c,
              sample={"x0": ast.unparse(x0) if x0 is not None else None})
    # DT = T/M, DT_control = T
    Tsym = in_of.get("T")
    ctx.check(kw.get("DT") is not None and n.poly(kw["DT"]) == expected("T/self.M", T=Tsym), "discrete_system DT", detail="integrator step is not the interval length over M",
              expected="%s/self.M" % Tsym, found=n.key(kw["DT"]) if kw.get("DT") is not None else None, fi=f, node=c, sample={"DT": n.key(kw["DT"]) if kw.get("DT") is not None else None})
    ctx.check(kw.get("DT_control") is not None and n.poly(kw["DT_control"]) == Poly.atom(Tsym), "discrete_system DT_control", detail="DT_control is not the control-interval length",
              expected=Tsym, found=n.key(kw["DT_control"]) if kw.get("DT_control") is not None else None, fi=f, node=c)
    # u, p unchanged over the sub-steps
    for slot in ("u", "p"):
        ctx.check(kw.get(slot) is not None and ast.unparse(kw[slot]) == in_of.get(slot), "discrete_system %s" % slot, detail="interval's %s not passed unchanged to every sub-step" % slot,
                  expected=in_of.get(slot), found=ast.unparse(kw[slot]) if kw.get(slot) is not None else None, fi=f, node=c)
    # t0 <- running time: starts at the interval start, advanced by DT exactly once per step, after the call
    t0 = kw.get("t0")
    ok = isinstance(t0, ast.Name)
    if ok:
        ds = sc.defs.get(t0.id, [])
        inits = [d for d in ds if d.kind == "assign"]
        augs = [d for d in ds if d.kind == "aug"]
        ok = len(inits) == 1 and ast.unparse(inits[0].value) == in_of.get("t0") and not sc.enclosing_loops(inits[0].stmt) and len(ds) == len(inits) + len(augs)
        ok = ok and len(augs) == 1 and isinstance(augs[0].stmt.op, ast.Add) and sc.within(augs[0].stmt, loop) and len(sc.enclosing_loops(augs[0].stmt)) == 1 \
            and not sc.guards(augs[0].stmt) and sc.order[augs[0].stmt] > sc.order[c] and n.poly(augs[0].stmt.value) == expected("T/self.M", T=Tsym)
    ctx.check(ok, "discrete_system running time", detail="sub-step start time is not t0 + j*DT",
              expected="t=t0; per step: intg(t0=t, ...); t += DT", found="t0=%s" % (ast.unparse(t0) if t0 is not None else None), fi=f, node=c)
    # z0 chaining
    z0 = kw.get("z0")
    ok = isinstance(z0, ast.Name)
    if ok:
        ds = [d for d in sc.defs.get(z0.id, [])]
        ok = len(ds) == 2 and all(d.kind == "assign" for d in ds) and ast.unparse(ds[0].value) == in_of.get("z0") and is_res(ds[1].value, "zf") and sc.within(ds[1].stmt, loop)
    ctx.check(ok, "discrete_system algebraic guess chaining", detail="z0 of a sub-step", expected="Z0 then previous zf", found=ast.unparse(z0) if z0 is not None else None, fi=f, node=c)
    # quadrature accumulation and outputs
    out_of = dict(zip(names_out, outs))
    q = out_of.get("qf")
    okq = isinstance(q, ast.Name)
    QL = None
    if okq:
        ds = sc.defs.get(q.id, [])
        acc = [d for d in ds if d.kind == "assign" and sc.within(d.stmt, loop)]
        init = [d for d in ds if d.kind == "assign" and not sc.within(d.stmt, loop)]
        okq = len(acc) == 1 and len(init) == 1 and "zeros" in ast.unparse(init[0].value)
        if okq:
            p = Norm(None).poly(acc[0].value)
            okq = p == Poly.atom(q.id) + Poly.atom("%s['qf']" % res_name)
            Qi = out_of.get("Qi")
            if isinstance(Qi, ast.Call) and Qi.args and isinstance(Qi.args[0], ast.Name):
                QL = Qi.args[0].id
                apps = [a for a in walk_no_nested(f.node) if is_call_to(a, "append", QL)]
                okq = okq and len(apps) == 1 and ast.unparse(apps[0].args[0]) == q.id and sc.order[apps[0]] > sc.order[acc[0].stmt] and sc.within(apps[0], loop)
            else:
                okq = False
    ctx.check(okq, "discrete_system quadrature accumulation", detail="qf is not the sum of the M sub-step quadratures (Qi column j = after j+1 steps)",
              expected="quad = quad + res['qf']; Q.append(quad) once per step", found=ast.unparse(q) if q is not None else None, fi=f)
    want_out = {"xf": "%s[-1]" % XL, "Xi": "hcat(%s)" % XL, "qf": ast.unparse(q) if q is not None else "", "Qi": "hcat(%s)" % QL}
    for nm, text in want_out.items():
        got = ast.unparse(out_of[nm]) if nm in out_of else None
        ctx.check(got == text, "discrete_system output %s" % nm, detail="output is not the propagated quantity", expected=text, found=got, fi=f)
    # coefficient lists: one append of the step's own output per step
    for nm in ("poly_coeff", "poly_coeff_q", "poly_coeff_z", "Zi"):
        o = out_of.get(nm)
        ok = isinstance(o, ast.Call) and ast.unparse(o.func) == "hcat" and o.args and isinstance(o.args[0], ast.Name)
        if ok:
            L = o.args[0].id
            apps = [a for a in walk_no_nested(f.node) if is_call_to(a, "append", L)]
            key = {"Zi": "zf"}.get(nm, nm)
            ok = len(apps) == 1 and is_res(apps[0].args[0], key) and sc.within(apps[0], loop) and not sc.guards(apps[0])
        ctx.check(ok, "discrete_system output %s" % nm, detail="per-step output not collected once per step in order", expected="hcat of one res['..'] per step", found=ast.unparse(o) if o is not None else None, fi=f)
    # which step map: discrete model, built-in explicit scheme, CasADi integrator (canonical form: one conditional expression)
    sel = [d for d in sc.defs.get(ast.unparse(c.func), []) if d.kind == "assign"] if isinstance(c.func, ast.Name) else []
    table = []

    def flat(v, conds):
        if isinstance(v, ast.IfExp):
            flat(v.body, conds + [(ast.unparse(v.test), True)])
            flat(v.orelse, conds + [(ast.unparse(v.test), False)])
        else:
            table.append((conds, ast.unparse(v)))
    for d in sel:
        gs = [(ast.unparse(t), p) for t, p in sc.guards(d.stmt)]
        flat(d.value, gs)
    x0n = in_of.get("x0", "X0")
    want = [([("stage._state_next", True)], "stage._diffeq()"),
            ([("stage._state_next", False), ("hasattr(self, 'intg_' + self.intg)", True)], "getattr(self, 'intg_' + self.intg)(stage._ode(), %s, U, P, Z)" % x0n),
            ([("stage._state_next", False), ("hasattr(self, 'intg_' + self.intg)", False)], "self.intg_builtin(stage._ode(), %s, U, P, Z)" % x0n)]
    ctx.check(table == want, "discrete_system step-map selection", detail="step-map dispatch", expected="set_next model -> _diffeq; intg_<name> if defined; else CasADi integrator",
              found=str(table)[:300], fi=f, sample={"dispatch": [t[1] for t in table]})


def ctor_pairs(ctx, fi):
    call, ins, outs, names_in, names_out = AL.function_ctor(fi)
    return dict(zip(names_in, ins)), dict(zip(names_out, outs)), names_in, names_out


@rule("R01.2", min_instances=30, desc="step-map signatures: rk, expl_euler, builtin and the discrete-time model expose the same named inputs/outputs, each name bound to the symbol it denotes")
def r01_2(ctx):
    prog = ctx.prog
    for name in ("intg_rk", "intg_expl_euler", "intg_builtin"):
        f = prog.own_method("SamplingMethod", name)
        sc = ctx.scope(f)
        ins, outs, ni, no = ctor_pairs(ctx, f)
        ctx.check(sorted(ni) == sorted(STEP_IN) and len(ni) == len(STEP_IN), "%s input names" % name, detail="step-map inputs", expected=STEP_IN, found=ni, fi=f)
        ctx.check(no == STEP_OUT, "%s output names" % name, detail="step-map outputs", expected=STEP_OUT, found=no, fi=f)
        X, U, P = f.params[2], f.params[3], f.params[4]
        want = {"x0": X, "u": U, "p": P}
        for nm, par in want.items():
            ctx.check(nm in ins and ast.unparse(ins[nm]) == par, "%s input %s" % (name, nm), detail="name bound to another symbol", expected=par,
                      found=ast.unparse(ins[nm]) if nm in ins else None, fi=f)
        for nm in ("t0", "DT", "DT_control"):
            e = ins.get(nm)
            ok = isinstance(e, ast.Name)
            if ok:
                ds = [d for d in sc.defs.get(e.id, []) if d.kind == "assign"]
                ok = len(ds) == 1 and is_call_to(ds[0].value, "sym") and ds[0].value.args and isinstance(ds[0].value.args[0], ast.Constant) and ds[0].value.args[0].value == nm
            ctx.check(ok, "%s input %s" % (name, nm), detail="name bound to another symbol", expected="MX.sym('%s')" % nm, found=ast.unparse(e) if e is not None else None, fi=f)
    g = prog.own_method("Stage", "_diffeq")
    ins, outs, ni, no = ctor_pairs(ctx, g)
    ng = ctx.norm(g)
    ctx.check(sorted(ni) == sorted(STEP_IN) and len(ni) == len(STEP_IN), "_diffeq input names", detail="step-map inputs", expected=STEP_IN, found=ni, fi=g)
    ctx.check(no == STEP_OUT, "_diffeq output names", detail="step-map outputs", expected=STEP_OUT, found=no, fi=g)
    want = {"x0": "self.x", "u": "self.u", "p": "vertcat(self.p,self.v)", "DT": "self.DT", "DT_control": "self.DT_control"}
    for nm, text in want.items():
        got = Norm(None).key(ins[nm]) if nm in ins else None
        ctx.check(got == text, "_diffeq input %s" % nm, detail="the discrete-time model sees another quantity under this name", expected=text, found=got, fi=g,
                  sample={"name": nm, "symbol": got})
    # t0: self.t, or a fresh dummy when the model does not depend on time
    e = ins.get("t0")
    ok = isinstance(e, ast.Name)
    if ok:
        sc = ctx.scope(g)
        # canonical form: t = <dummy> if not depends_on(<model>, self.t) else self.t
        cases = value_cases(sc, e.id, key=ng.key)
        ok = len(cases) == 2
        for conds, leaf in cases:
            pos = len(conds) == 1 and "depends_on" in conds[0][0] and "self.t" in conds[0][0]
            if not pos:
                ok = False
                continue
            independent = (conds[0][0].startswith("not(") and conds[0][1]) or (not conds[0][0].startswith("not(") and not conds[0][1])
            if independent:
                ok = ok and "MX.sym" in ast.unparse(leaf)
            else:
                ok = ok and ast.unparse(leaf) == "self.t"
    ctx.check(ok, "_diffeq input t0", detail="absolute time of the step", expected="self.t (a dummy symbol only when the model does not depend on time)", found=ast.unparse(e) if e is not None else None, fi=g)
    sc = ctx.scope(g)

    def resolve_value(node):
        """follow plain name aliases to the defining expression"""
        for _ in range(6):
            if isinstance(node, ast.Name):
                ds = [d for d in sc.defs.get(node.id, []) if d.kind == "assign"]
                if not ds:
                    return node
                node = max(ds, key=lambda d: d.order).value
            else:
                return node
        return node

    seen_lists = []
    for nm, fam in (("xf", "self.states"), ("qf", "self.qstates")):
        e = resolve_value(outs.get(nm))
        ok = isinstance(e, ast.Call) and ast.unparse(e.func) in ("veccat", "vvcat", "vcat") and e.args
        lst = None
        if ok:
            a0 = e.args[0].value if isinstance(e.args[0], ast.Starred) else e.args[0]
            lst = a0.id if isinstance(a0, ast.Name) else None
            ok = lst is not None
        loop_ok = False
        if ok:
            # the list is filled in a loop over the matching state family with the update declared for that very state
            for l in walk_no_nested(g.node):
                if isinstance(l, ast.For) and ast.unparse(l.iter) == fam and isinstance(l.target, ast.Name):
                    apps = [a for a in ast.walk(l) if is_call_to(a, "append", lst)]
                    if len(apps) == 1 and ast.unparse(apps[0].args[0]) == "self._state_next[%s]" % l.target.id:
                        # and this loop is the last one filling the list before the output is formed
                        loop_ok = True
                        seen_lists.append((nm, sc.order[l]))
        ctx.check(ok and loop_ok, "_diffeq output %s" % nm, detail="output is not the stack of the updates declared for %s" % fam,
                  expected="veccat(*[self._state_next[k] for k in %s])" % fam, found=ast.unparse(e)[:80] if e is not None else None, fi=g)
    ctx.check(len(seen_lists) == 2 and seen_lists[0][1] < seen_lists[1][1], "_diffeq stacks states then quadrature states", detail="update packing order", expected="states first", found=str([x[0] for x in seen_lists]), fi=g)
    # the consumer reads only names the step maps provide
    d = prog.own_method("SamplingMethod", "discrete_system")
    used = set()
    scd = ctx.scope(d)
    res_names = set()
    for c in find_keyword_calls(d, {"x0", "DT"}):
        st = scd.stmt_of(c)
        if isinstance(st, ast.Assign) and isinstance(st.targets[0], ast.Name):
            res_names.add(st.targets[0].id)
    for sub in walk_no_nested(d.node):
        if isinstance(sub, ast.Subscript) and isinstance(sub.value, ast.Name) and sub.value.id in res_names and isinstance(sub.slice, ast.Constant):
            used.add(sub.slice.value)
    ctx.check(used <= set(STEP_OUT) and "xf" in used and "qf" in used, "discrete_system reads only provided outputs", detail="output names", expected="subset of %s" % STEP_OUT, found=sorted(used), fi=d)


@rule("R01.3", min_instances=12, desc="tableau consistency of the explicit schemes: stage states X+DT*sum a_ij k_j, absolute stage times t0+c_i*DT with c_i = sum_j a_ij, interval data unchanged, xf = X+DT*sum b_i k_i with sum b_i = 1")
def r01_3(ctx):
    prog = ctx.prog
    for name in ("intg_rk", "intg_expl_euler"):
        f = prog.own_method("SamplingMethod", name)
        sm = AL.extract_step_map(ctx, f)
        A, b, bq, c, probs = AL.tableau(sm)
        s = len(b)
        ctx.check(s >= 1, "%s has stage evaluations" % name, detail="no ODE evaluation", expected=">=1 call of f", found=str(s), fi=f)
        for what, exp, got in probs:
            ctx.fail("%s %s" % (name, what), detail="not a Runge-Kutta form", expected=exp, found=got, fi=f)
        for i in range(s):
            explicit = all(A[i][j] == 0 for j in range(i, s))
            ctx.check(explicit, "%s stage %d is explicit" % (name, i + 1), detail="stage depends on itself or a later stage", expected="a_ij = 0 for j>=i", found=str(A[i]), fi=f)
            if c[i] is not None:
                ctx.check(sum(A[i]) == c[i], "%s stage %d time/state consistency" % (name, i + 1), detail="stage evaluated at a time inconsistent with its state",
                          expected="c_%d = sum_j a_%dj = %s" % (i + 1, i + 1, sum(A[i])), found="c_%d = %s" % (i + 1, c[i]), fi=f,
                          sample={"stage": i + 1, "a": [str(x) for x in A[i]], "c": str(c[i])})
        ctx.check(sum(b) == 1, "%s weights sum to one" % name, detail="consistency", expected="sum b_i = 1", found=str(sum(b)), fi=f, sample={"b": [str(x) for x in b]})
        ctx.check(bq == b, "%s quadrature uses the same weights and stages" % name, detail="quadrature rule differs from the state rule", expected=[str(x) for x in b], found=[str(x) for x in bq], fi=f)
        ctx.note("tableau_" + name, {"A": [[str(x) for x in r] for r in A], "b": [str(x) for x in b], "c": [str(x) for x in c]})


def f_calls(ctx, cname):
    prog = ctx.prog
    f = prog.method(cname, "add_constraints")
    sc = ctx.scope(f)
    n = ctx.norm(f)
    calls = find_keyword_calls(f, {"x0", "T"})
    return f, sc, n, calls


@rule("R01.4", min_instances=14, desc="interval wiring: F is called once per control interval with that interval's start state, control, start time, length, parameters")
def r01_4(ctx):
    for cname in ("MultipleShooting", "SingleShooting"):
        f, sc, n, calls = f_calls(ctx, cname)
        ctx.check(len(calls) == 1, "%s calls the discretised system once per interval" % cname, detail="number of F calls", expected="one F(x0=..,u=..,t0=..,T=..,p=..,z0=..)", found=str(len(calls)), fi=f)
        if len(calls) != 1:
            continue
        c = calls[0]
        lc = loop_context(sc, n, c)
        kv = loop_var(lc, "N")
        ctx.check([li.kind for li in lc] == ["N"] and not sc.guards(c), "%s F call loop" % cname, detail="not once per k in range(N)", expected="for k in range(self.N)", found=str([li.kind for li in lc]), fi=f, node=c)
        if kv is None:
            continue
        fkey = n.key(c.func)
        ctx.check(fkey == "self.discrete_system(stage)", "%s F is the stage's discretised system" % cname, detail="another function propagates the state", expected="self.discrete_system(stage)", found=fkey, fi=f, node=c)
        want = {"x0": "self.X[k]", "u": "self.U[k]", "t0": "self.control_grid[k]", "T": "self.control_grid[k+1]-self.control_grid[k]", "p": "self.get_p_sys(stage,k)"}
        got = {kw.arg: n.poly(kw.value) for kw in c.keywords}
        for slot, text in want.items():
            w = expected(text, k=kv)
            ctx.check(got.get(slot) == w, "%s F slot %s" % (cname, slot), detail="interval %s taken from elsewhere" % slot, expected=w, found=got.get(slot), fi=f, node=c,
                      sample={"slot": slot, "value": str(got.get(slot))})
        z = got.get("z0")
        okz = z in (expected("self.Z0[k]", k=kv), expected("self.Z0[0]"))
        ctx.check(okz, "%s F slot z0" % cname, detail="algebraic guess of another interval", expected="self.Z0[k] (SingleShooting: self.Z0[0])", found=z, fi=f, node=c)
        ctx.check(set(got) == {"x0", "u", "t0", "T", "p", "z0"}, "%s F slots" % cname, detail="slot set", expected="x0,u,t0,T,p,z0", found=sorted(got), fi=f, node=c)


@rule("R01.5", min_instances=4, desc="gap closing (MultipleShooting) / state recursion (SingleShooting): node k+1 is tied to the propagation started at node k")
def r01_5(ctx):
    # MultipleShooting: subject_to(X[k+1] == FFs[k]['xf']) with FFs[k] the call of interval k
    f, sc, n, calls = f_calls(ctx, "MultipleShooting")
    subs = [c for c in walk_no_nested(f.node) if is_call_to(c, "subject_to") and c.args and isinstance(c.args[0], ast.Compare)
            and len(c.args[0].ops) == 1 and isinstance(c.args[0].ops[0], ast.Eq)]
    ctx.check(len(subs) == 1, "MultipleShooting gap-closing constraint", detail="number of dynamic constraints", expected="one subject_to(X[k+1] == FF['xf']) per interval", found=str(len(subs)), fi=f)
    if len(subs) == 1 and len(calls) == 1:
        s = subs[0]
        lc = loop_context(sc, n, s)
        kv = loop_var(lc, "N")
        ok = [li.kind for li in lc] == ["N"] and not sc.guards(s)
        ctx.check(ok, "MultipleShooting gap closing for every interval", detail="some intervals are not closed", expected="for k in range(self.N), unconditional", found=str([li.kind for li in lc]), fi=f, node=s)
        if kv is not None:
            cmp = s.args[0]
            sides = [cmp.left, cmp.comparators[0]]
            xs = [x for x in sides if n.poly(x) == expected("self.X[k+1]", k=kv)]
            other = [x for x in sides if x not in xs]
            ctx.check(len(xs) == 1 and len(other) == 1, "MultipleShooting gap closing left side", detail="node state", expected="self.X[k+1]", found=n.key(cmp), fi=f, node=s)
            if len(other) == 1:
                o = other[0]
                ok = isinstance(o, ast.Subscript) and isinstance(o.slice, ast.Constant) and o.slice.value == "xf"
                src = None
                if ok:
                    # resolve FF -> FFs[k] -> the F call appended in the k-th iteration of the first loop
                    base = o.value
                    if isinstance(base, ast.Name):
                        v = sc.reaching(base.id, base)
                        base = v if v is not None else base
                    if isinstance(base, ast.Subscript) and isinstance(base.value, ast.Name):
                        L = base.value.id
                        idx_ok = n.poly(base.slice) == Poly.atom(kv)
                        apps = [a for a in walk_no_nested(f.node) if is_call_to(a, "append", L)]
                        init = [d for d in sc.defs.get(L, []) if d.kind == "assign"]
                        if len(apps) == 1 and len(init) == 1 and isinstance(init[0].value, ast.List) and not init[0].value.elts:
                            lca = loop_context(sc, n, apps[0])
                            if [li.kind for li in lca] == ["N"] and not sc.guards(apps[0]):
                                a = apps[0].args[0]
                                v = sc.reaching(a.id, a) if isinstance(a, ast.Name) else a
                                src = v
                                ok = idx_ok and v is calls[0] and sc.within(calls[0], lca[0].owner)
                            else:
                                ok = False
                        else:
                            ok = False
                    elif base is calls[0]:
                        ok = sc.within(s, loop_context(sc, n, calls[0])[0].owner)
                    else:
                        ok = False
                ctx.check(ok, "MultipleShooting gap closing right side", detail="node k+1 tied to the propagation of another interval",
                          expected="xf of the F call started at X[k] (FFs[k])", found=n.key(o), fi=f, node=s, sample={"rhs": n.key(o)})
            ctx.check(any(kw.arg == "scale" for kw in s.keywords), "MultipleShooting gap closing carries the state scale", detail="scale", expected="scale=", found="none", fi=f, node=s)
    # SingleShooting: X[k+1] = FF['xf'] in the same iteration
    f, sc, n, calls = f_calls(ctx, "SingleShooting")
    stores = [st for st in walk_no_nested(f.node) if isinstance(st, ast.Assign) and any(isinstance(t, ast.Subscript) and ast.unparse(t.value) == "self.X" for t in st.targets)]
    ctx.check(len(stores) == 1, "SingleShooting state recursion", detail="writers of self.X[...]", expected="one X[k+1] = FF['xf']", found=str(len(stores)), fi=f)
    if len(stores) == 1 and len(calls) == 1:
        st = stores[0]
        lc = loop_context(sc, n, st)
        kv = loop_var(lc, "N")
        tgt = st.targets[0]
        ok = kv is not None and n.poly(tgt.slice) == Poly.atom(kv) + 1 and not sc.guards(st)
        v = st.value
        ok = ok and isinstance(v, ast.Subscript) and isinstance(v.slice, ast.Constant) and v.slice.value == "xf"
        if ok:
            base = v.value
            if isinstance(base, ast.Name):
                base = sc.reaching(base.id, base) or base
            ok = base is calls[0] and sc.within(st, loop_context(sc, n, calls[0])[0].owner)
        ctx.check(ok, "SingleShooting state recursion X[k+1] = F(X[k],...)['xf']", detail="reported states are not the recursion from the initial state",
                  expected="self.X[k+1] = FF['xf'] with FF the call of the same k", found=ast.unparse(st), fi=f, node=st)
    # SingleShooting creates a decision variable only for X[0]
    g = ctx.prog.method("SingleShooting", "add_variables")
    apps = [a for a in walk_no_nested(g.node) if is_call_to(a, "append", "self.X")]
    scg = ctx.scope(g)
    free = [a for a in apps if "opti.variable" in ast.unparse(a.args[0])]
    ok = len(free) == 1 and not scg.enclosing_loops(free[0]) and all(ast.unparse(a.args[0]) == "None" for a in apps if a is not free[0])
    ctx.check(ok, "SingleShooting: only the initial state is a decision variable", detail="extra state variables", expected="X=[variable, None, ..., None]",
              found="; ".join(ast.unparse(a.args[0])[:40] for a in apps), fi=g)


HELPER_KIND = {"get_p_control_at": "P:control", "get_p_control_plus_at": "P:control+", "get_v_control_at": "V:control",
               "get_v_control_plus_at": "V:control+", "get_signals_at": "signals"}


def get_p_sys_sequence(ctx):
    prog = ctx.prog
    f = prog.own_method("SamplingMethod", "get_p_sys")
    sc = ctx.scope(f)
    k = f.params[2]
    lists = [d for d in sc.defs.get("args", []) if d.kind == "assign"]
    if len(lists) != 1 or not isinstance(lists[0].value, ast.List):
        raise AnalysisError("get_p_sys: `args = [...]` list not found")
    seq, nodes = [], []
    items = list(lists[0].value.elts)
    for a in walk_no_nested(f.node):
        if is_call_to(a, "append", "args"):
            items.append(a.args[0])
    # signals handed to the packer together with the stacked list: return self.pack_p_sys(stage, vcat(args), self.get_signals_at(stage, k))
    for r in walk_no_nested(f.node):
        if isinstance(r, ast.Return) and is_call_to(r.value, "pack_p_sys", "self") and len(r.value.args) == 3:
            items.append(r.value.args[2])
    for e in items:
        t = ast.unparse(e)
        if t in ("vvcat(self.P)", "veccat(*self.P)"):
            seq.append("P:")
        elif t == "self.V":
            seq.append("V:")
        elif isinstance(e, ast.Call) and isinstance(e.func, ast.Attribute) and e.func.attr in HELPER_KIND:
            seq.append(HELPER_KIND[e.func.attr])
        else:
            seq.append("?" + t)
        nodes.append(e)
    return f, k, seq, nodes


def stage_pack_sequence(ctx):
    prog = ctx.prog
    out = []
    for prop, fam in (("p", "P"), ("v", "V")):
        g = prog.own_method("Stage", prop)
        cont = "parameters" if fam == "P" else "variables"
        keys = None
        for st in walk_no_nested(g.node):
            if isinstance(st, ast.Assign):
                ks = []
                ok = True
                def flat(e):
                    if isinstance(e, ast.BinOp) and isinstance(e.op, ast.Add):
                        flat(e.left); flat(e.right)
                    elif isinstance(e, ast.Subscript) and ast.unparse(e.value) == "self." + cont and isinstance(e.slice, ast.Constant):
                        ks.append(e.slice.value)
                    else:
                        ks.append(None)
                flat(st.value)
                if ks and all(k is not None for k in ks):
                    keys = ks
                    continue
                # [e for g in ('', 'control', ...) for e in self.<cont>[g]]: explicit key order
                v = st.value
                if isinstance(v, ast.ListComp) and len(v.generators) == 2 and isinstance(v.elt, ast.Name) and isinstance(v.generators[1].target, ast.Name) and v.generators[1].target.id == v.elt.id:
                    g0, g1 = v.generators
                    if isinstance(g0.iter, (ast.Tuple, ast.List)) and all(isinstance(e, ast.Constant) for e in g0.iter.elts) and isinstance(g0.target, ast.Name) \
                            and ast.unparse(g1.iter) == "self.%s[%s]" % (cont, g0.target.id) and not g0.ifs and not g1.ifs:
                        keys = [e.value for e in g0.iter.elts]
                        continue
                # iteration over the dictionary itself: the order is the order in which the kinds were first declared
                if any(isinstance(c, ast.comprehension) and ast.unparse(c.iter) in ("self.%s.items()" % cont, "self.%s.values()" % cont, "self.%s.keys()" % cont, "self.%s" % cont) for c in ast.walk(v)) or \
                        any(isinstance(c, ast.For) and ast.unparse(c.iter).startswith("self.%s" % cont) for c in walk_no_nested(g.node)):
                    keys = ["<order of first declaration>"]
        if keys is None:
            raise AnalysisError("Stage.%s: concatenation of self.%s[...] not found" % (prop, cont))
        out += ["%s:%s" % (fam, k) for k in keys]
    return out


def lcs(a, b):
    m = [[0] * (len(b) + 1) for _ in range(len(a) + 1)]
    for i in range(len(a)):
        for j in range(len(b)):
            m[i + 1][j + 1] = m[i][j] + 1 if a[i] == b[j] else max(m[i][j + 1], m[i + 1][j])
    out, i, j = [], len(a), len(b)
    while i and j:
        if a[i - 1] == b[j - 1]:
            out.append(a[i - 1]); i -= 1; j -= 1
        elif m[i - 1][j] >= m[i][j - 1]:
            i -= 1
        else:
            j -= 1
    return out[::-1]


def check_packer(ctx):
    """SamplingMethod.pack_p_sys(stage, pv, signals), when present, is the one place that merges the stacked parameters/variables
    with the sampled signals.  It is *run* by the simulator (rkverif/sim.py) on a stage with parameters of every kind (sizes 2, 1, 3
    and a B-spline parameter of size 2), variables, and four signals registered in the order variable(1), parameter(2),
    variable(3), parameter(1); pv and signals are matrices known by their row labels.  The packed rows must come out in the layout of
    vertcat(stage.p, stage.v): parameters, parameter signals, variables, variable signals - whatever statement form computes it.
    Returns True when the packer exists (and was checked), False when the code still appends the signals at the end."""
    P = ctx.prog
    if "pack_p_sys" not in P.cls("SamplingMethod").methods:
        return False
    from ..sim import Sim, RowMat, h_vertcat, fresh_obj
    from ..layout import Sym, Obj, LayoutUnknown
    f = P.own_method("SamplingMethod", "pack_p_sys")
    want_kinds = [k_.split(":", 1)[1] for k_ in stage_pack_sequence(ctx) if k_.startswith("P:") and k_ != "P:bspline"]

    def par(n):
        return fresh_obj("par", n=n)
    scenarios = []
    for sig_order in ([("v", 1), ("p", 2), ("v", 3), ("p", 1)], [("v", 2), ("v", 1)], [("p", 1), ("v", 1)], [("p", 2)], [("p", 1), ("p", 3)], [("v", 1)], []):
        sizes = {"": [2], "control": [1], "control+": [3, 1], "bspline": [s_ for k_, s_ in sig_order if k_ == "p"]}
        n_p = sum(sum(v) for g, v in sizes.items() if g in want_kinds)
        nv = 4
        pv = RowMat(["P%d" % i for i in range(n_p)] + ["V%d" % i for i in range(nv)])
        sig_rows, sigs = [], {}
        for idx, (kind, size) in enumerate(sig_order):
            sigs[("sig", idx)] = fresh_obj("sig%d" % idx, parametric=(kind == "p"), coeff=fresh_obj("coeff", shape=(size, 7)), sampled=Sym("sampled", idx))
            sig_rows += ["S%d%s%d" % (idx, kind, r) for r in range(size)]
        stage = fresh_obj("stage", parameters={g: [par(n) for n in v] for g, v in sizes.items()}, variables={"": [par(4)], "control": [], "control+": [], "bspline": [par(s_) for k_, s_ in sig_order if k_ == "v"]})
        me = fresh_obj("self", signals=sigs)
        want = [r for r in pv if r.startswith("P")] + [r for r in sig_rows if "p" in r[2:3]] + [r for r in pv if r.startswith("V")] + [r for r in sig_rows if "v" in r[2:3]]
        scenarios.append((sig_order, me, stage, pv, RowMat(sig_rows), want))
    hooks = {"vertcat": h_vertcat, "ca.vertcat": h_vertcat, "vcat": lambda s_, r, a, k, n: h_vertcat(s_, r, a[0] if a and isinstance(a[0], list) and not isinstance(a[0], RowMat) else a, k, n),
             ".numel": lambda s_, r, a, k, n: r.attrs["n"] if isinstance(r, Obj) and "n" in r.attrs else NotImplemented,
             ".nnz": lambda s_, r, a, k, n: r.attrs["n"] if isinstance(r, Obj) and "n" in r.attrs else NotImplemented,
             ".size1": lambda s_, r, a, k, n: r.attrs["shape"][0] if isinstance(r, Obj) and "shape" in r.attrs else NotImplemented}
    bad = []
    for sig_order, me, stage, pv, sg, want in scenarios:
        try:
            out = Sim(P, hooks=hooks).call(f, [me, stage, pv, sg], {})
        except LayoutUnknown as e:
            raise AnalysisError("pack_p_sys could not be simulated: %s" % e)
        got = list(out) if isinstance(out, RowMat) else None
        ctx.check(got == want, "pack_p_sys lays the rows out as vertcat(stage.p, stage.v) expects (signals registered as %s)" % ("".join(k for k, _ in sig_order) or "none"),
                  detail="a parameter / variable / B-spline signal row lands in the slot of another symbol", expected=want, found=got if got is not None else str(out)[:120], fi=f, sample={"signals": str(sig_order)})
    return True


def simulate_get_p_sys(ctx):
    """get_p_sys(stage, k) of SamplingMethod run by the simulator (rkverif/sim.py) with every kind of parameter and variable present
    (two global parameters, one per-interval, one per-interval-with-final-node, a B-spline parameter, the same for variables),
    all lists holding row-labelled matrices.  The result must list, in the order of vertcat(stage.p, stage.v), the rows of the
    global symbols and the rows of interval k (and of no other interval) of the per-interval ones.  Returns {k: (got, want)}."""
    from ..sim import Sim, RowMat, h_vertcat, fresh_obj
    from ..layout import Sym, Obj, LayoutUnknown
    P = ctx.prog
    cache = P.__dict__.setdefault("_get_p_sys_sim", {})
    if "r" in cache:
        return cache["r"]
    f = P.own_method("SamplingMethod", "get_p_sys")
    N = 3
    def rows(tag, n):
        return RowMat(["%s.%d" % (tag, i) for i in range(n)])
    Pg = [rows("P0", 2), rows("P1", 1)]
    Pc = [[rows("Pc0@%d" % k, 2) for k in range(N)]]
    Pp = [[rows("Pp0@%d" % k, 1) for k in range(N + 1)]]
    V = RowMat(list(rows("V0", 1)) + list(rows("V1", 2)))
    Vc = [[rows("Vc0@%d" % k, 1) for k in range(N)]]
    Vp = [[rows("Vp0@%d" % k, 2) for k in range(N + 1)]]
    sigs = {("s", 0): fresh_obj("sigV", parametric=False, coeff=fresh_obj("c", shape=(1, 5)), sampled=[rows("Sv@%d" % k, 1) for k in range(N + 1)]),
            ("s", 1): fresh_obj("sigP", parametric=True, coeff=fresh_obj("c", shape=(2, 5)), sampled=[rows("Sp@%d" % k, 2) for k in range(N + 1)])}
    def par(n):
        return fresh_obj("par", n=n)
    stage = fresh_obj("stage", parameters={"": [par(2), par(1)], "control": [par(2)], "control+": [par(1)], "bspline": [par(2)]},
                      variables={"": [par(1), par(2)], "control": [par(1)], "control+": [par(2)], "bspline": [par(1)]})

    def cat(sim, recv, a, k, n):
        items = a[0] if len(a) == 1 and isinstance(a[0], list) and not isinstance(a[0], RowMat) else a
        if all(isinstance(x, RowMat) for x in items):
            out = RowMat()
            for x in items:
                out.extend(x)
            return out
        return NotImplemented
    hooks = {"vertcat": cat, "ca.vertcat": cat, "vcat": cat, "vvcat": cat, "veccat": cat, "ca.vcat": cat,
             ".numel": lambda s_, r, a, k, n: r.attrs["n"] if isinstance(r, Obj) and "n" in r.attrs else NotImplemented,
             ".nnz": lambda s_, r, a, k, n: r.attrs["n"] if isinstance(r, Obj) and "n" in r.attrs else NotImplemented}
    out = {}
    for k in (0, 1, N - 1):
        me = fresh_obj("self", N=N, P=list(Pg), P_control=[list(x) for x in Pc], P_control_plus=[list(x) for x in Pp], V=V, V_control=[list(x) for x in Vc], V_control_plus=[list(x) for x in Vp], signals=dict(sigs))
        sim = Sim(P, hooks=hooks)
        sim.self_class = "SamplingMethod"
        try:
            got = sim.call(f, [me, stage, k], {})
        except LayoutUnknown as e:
            got = "<not simulated: %s>" % e
        want = list(Pg[0]) + list(Pg[1]) + list(Pc[0][k]) + list(Pp[0][k]) + list(sigs[("s", 1)].attrs["sampled"][k]) + list(V) + list(Vc[0][k]) + list(Vp[0][k]) + list(sigs[("s", 0)].attrs["sampled"][k])
        out[k] = (list(got) if isinstance(got, RowMat) else got, want)
    cache["r"] = out
    return out


def check_pack_order(ctx):
    """R01.7 / R02.7 / R09.5 / R17.4: order of kinds supplied as `p` vs order expected by the ODE function."""
    fsim = ctx.prog.own_method("SamplingMethod", "get_p_sys")
    if "pack_p_sys" in ctx.prog.cls("SamplingMethod").methods:
        simres = simulate_get_p_sys(ctx)
        for k_, (got_, want_) in sorted(simres.items()):
            if isinstance(got_, str):
                raise AnalysisError("get_p_sys could not be simulated: %s" % got_)
            ctx.check(got_ == want_, "get_p_sys(stage, %d) hands the system functions every symbol in its own slot, per-interval symbols with the values of interval %d" % (k_, k_),
                      detail="a parameter / variable row of another symbol or another interval lands in this slot", expected=want_, found=got_, fi=fsim, sample={"k": k_})
        try:
            get_p_sys_sequence(ctx)
        except AnalysisError:
            # the statement form is not the one the syntactic extractor reads: the simulation above has decided
            check_signal_order(ctx)
            check_packer(ctx)
            return fsim, fsim.params[2], [], []
    check_signal_order(ctx)
    f, k, seq, nodes = get_p_sys_sequence(ctx)
    want = stage_pack_sequence(ctx)
    packed = check_packer(ctx)
    via_packer = packed and any(isinstance(r, ast.Return) and is_call_to(r.value, "pack_p_sys", "self") for r in walk_no_nested(f.node))
    # without a packer: signals are appended at the end, bspline variables first (add_variables_V runs before add_parameter_signals), then bspline parameters
    supplied = []
    plain = [s for s in seq if s != "signals"]
    if via_packer and "signals" in seq:
        firstv = next((i for i, s in enumerate(plain) if s.startswith("V:")), len(plain))
        supplied = plain[:firstv] + ["P:bspline"] + plain[firstv:] + ["V:bspline"]
    else:
        for s in seq:
            if s == "signals":
                supplied += ["V:bspline", "P:bspline"]
            else:
                supplied.append(s)
    ctx.note("pack_supplied", supplied)
    ctx.note("pack_expected", want)
    common = lcs(supplied, want)
    displaced = [x for x in want if x not in common] + [x for x in supplied if x not in common and x not in want]
    for kind in want:
        ctx.check(kind not in displaced, "get_p_sys~Stage.p+Stage.v", detail="kind=%s" % kind,
                  expected="order of the ODE's p input: %s" % want, found="order supplied by get_p_sys: %s" % supplied, fi=f,
                  sample={"kind": kind})
    for s in supplied:
        if s not in want:
            ctx.fail("get_p_sys~Stage.p+Stage.v", detail="kind=%s" % s, expected=want, found=supplied, fi=f)
    # DirectCollocation merges get_p_sys(.., include_signals=False) with the signals sampled at the collocation times itself
    P = ctx.prog
    dc = P.own_method("DirectCollocation", "add_constraints")
    scd = ctx.scope(dc)
    merges = []
    for c in walk_no_nested(dc.node):
        if isinstance(c, ast.Call) and any("signals_sampled[" in ast.unparse(a) for a in c.args) and (is_call_to(c, "vertcat") or is_call_to(c, "vcat") or is_call_to(c, "pack_p_sys", "self")):
            merges.append(c)
    if len(merges) != 1:
        raise AnalysisError("DirectCollocation.add_constraints: expected one merge of get_p_sys(...) with signals_sampled[...], found %d" % len(merges))
    m = merges[0]
    base = [x for x in seq if x != "signals"]
    if packed and is_call_to(m, "pack_p_sys", "self") and len(m.args) == 3 and ast.unparse(m.args[0]) == "stage" and ast.unparse(m.args[2]).startswith("signals_sampled["):
        firstv = next((i for i, x in enumerate(base) if x.startswith("V:")), len(base))
        sup_dc = base[:firstv] + ["P:bspline"] + base[firstv:] + ["V:bspline"]
    else:
        sup_dc = base + ["V:bspline", "P:bspline"]
    common = lcs(sup_dc, want)
    displaced = [x for x in want if x not in common]
    for kind in want:
        ctx.check(kind not in displaced, "DirectCollocation.add_constraints~Stage.p+Stage.v", detail="kind=%s" % kind,
                  expected="order of the ODE's p input: %s" % want, found="order supplied at the collocation times: %s" % sup_dc, fi=dc, node=m, sample={"kind": kind})
    return f, k, seq, nodes


@rule("R01.6", min_instances=3, desc="per-interval selection in get_p_sys: every per-interval list is addressed with the same k; global P and V are not indexed")
def r01_6(ctx):
    try:
        f, k, seq, nodes = get_p_sys_sequence(ctx)
    except AnalysisError:
        if "pack_p_sys" not in ctx.prog.cls("SamplingMethod").methods:
            raise
        # another statement form: the simulated calls at k = 0, 1, N-1 decide the per-interval selection
        fsim = ctx.prog.own_method("SamplingMethod", "get_p_sys")
        for k_, (got_, want_) in sorted(simulate_get_p_sys(ctx).items()):
            if isinstance(got_, str):
                raise AnalysisError("get_p_sys could not be simulated: %s" % got_)
            ctx.check(got_ == want_, "get_p_sys element selection at k=%d" % k_, detail="per-interval data of another interval", expected=want_, found=got_, fi=fsim)
        return
    for s, e in zip(seq, nodes):
        if s in ("P:", "V:"):
            ctx.ok("get_p_sys global %s" % s, fi=f)
            continue
        ok = isinstance(e, ast.Call) and len(e.args) == 2 and ast.unparse(e.args[1]) == k and ast.unparse(e.args[0]) == f.params[1]
        ctx.check(ok and not s.startswith("?"), "get_p_sys element %s" % s, detail="per-interval data of another interval", expected="self.<helper>(stage, %s)" % k, found=ast.unparse(e), fi=f, node=e)
    rets = [r for r in walk_no_nested(f.node) if isinstance(r, ast.Return) and r.value is not None]
    STACK = ("vcat(args)", "vvcat(args)", "veccat(*args)")
    def ok_ret(v):
        if ast.unparse(v) in STACK:
            return True
        return is_call_to(v, "pack_p_sys", "self") and len(v.args) == 3 and ast.unparse(v.args[0]) == f.params[1] and ast.unparse(v.args[1]) in STACK
    ctx.check(1 <= len(rets) <= 2 and all(ok_ret(r.value) for r in rets), "get_p_sys stacks the pieces in list order", detail="packing", expected="vcat(args) [handed to pack_p_sys together with the signals]",
              found="; ".join(ast.unparse(r.value) for r in rets), fi=f)


@rule("R01.7", min_instances=8, desc="pack order: the kinds get_p_sys supplies as the ODE's p input are in the order Stage.p + Stage.v declares them")
def r01_7(ctx):
    check_pack_order(ctx)


@rule("R01.8", min_instances=30, desc="content/position agreement (layout interpreter, swept over N, M): xk[k*M+i] is the state after i steps in interval k, poly_coeff[k*M+i] its dense-output block, xqk/Q the running quadratures; list lengths match their position kinds")
def r01_8(ctx):
    from .layout_rules import shooting_content, kinds_table
    for cname in ("MultipleShooting", "SingleShooting"):
        shooting_content(ctx, cname)
        kinds_table(ctx, cname)


def check_signal_order(ctx):
    """The three places that hand sampled B-spline signals to a model / expression function stack them in registration order
    (the order of the signals table, which is what get_p_sys, Stage.p and Stage.v are laid out for): each walks
    <method>.signals.values() itself, takes one block per signal from that signal's own sample, and stacks the blocks in store order."""
    P = ctx.prog
    sites = [(P.own_method("Stage", "_grid_intg_fine"), "stage._method.signals.values()"), (P.own_method("DirectCollocation", "add_constraints"), "self.signals.values()")]
    for f, it in sites:
        sc = ctx.scope(f)
        # the stacking site: vertcat(*[e[i] for e in STORE]) names the store of per-signal blocks
        stores = set()
        stack = []
        for c in walk_no_nested(f.node):
            if isinstance(c, ast.Call) and ast.unparse(c.func) in ("ca.vertcat", "vertcat", "ca.vcat", "vcat") and c.args:
                a = c.args[0].value if isinstance(c.args[0], ast.Starred) else c.args[0]
                if isinstance(a, ast.ListComp) and len(a.generators) == 1 and isinstance(a.generators[0].iter, ast.Name) and isinstance(a.elt, ast.Subscript) \
                        and isinstance(a.elt.value, ast.Name) and isinstance(a.generators[0].target, ast.Name) and a.elt.value.id == a.generators[0].target.id:
                    nm = a.generators[0].iter.id
                    if any(d.kind == "assign" and isinstance(d.value, (ast.List, ast.ListComp)) for d in sc.defs.get(nm, [])):
                        stores.add(nm)
                        stack.append(c)
        if len(stores) != 1:
            raise AnalysisError("%s: store of sampled signals not found" % f.qualname)
        store = stores.pop()

        def from_own_sample(v, lv):
            return any(isinstance(x, ast.Call) and isinstance(x.func, ast.Attribute) and x.func.attr == "sample" and ast.unparse(x.func.value) == lv for x in ast.walk(v))
        fills = []
        for d in sc.defs.get(store, []):
            if d.kind == "assign" and isinstance(d.value, ast.ListComp):
                gs = d.value.generators
                ok = len(gs) == 1 and ast.unparse(gs[0].iter) == it and not gs[0].ifs and from_own_sample(d.value.elt, ast.unparse(gs[0].target))
                fills.append((ok, d.stmt, ast.unparse(d.value)[:90]))
            elif d.kind == "assign" and isinstance(d.value, ast.List) and d.value.elts:
                fills.append((False, d.stmt, ast.unparse(d.value)[:90]))
        for c in walk_no_nested(f.node):
            if isinstance(c, ast.Call) and isinstance(c.func, ast.Attribute) and isinstance(c.func.value, ast.Name) and c.func.value.id == store and c.func.attr in ("append", "extend", "insert"):
                loops = sc.enclosing_loops(c)
                ok = c.func.attr == "append" and len(loops) == 1 and ast.unparse(loops[0][1]) == it
                if ok:
                    lv = ast.unparse(loops[0][0])
                    a = c.args[0]
                    srcs = [a]
                    if isinstance(a, ast.Name):
                        srcs = [d.value for d in sc.defs.get(a.id, []) if d.kind == "assign" and sc.within(d.stmt, loops[0][2])]
                    ok = bool(srcs) and all(from_own_sample(v, lv) for v in srcs)
                fills.append((ok, c, "%s in %s" % (ast.unparse(c)[:60], "; ".join("for %s in %s" % (ast.unparse(l[0]), ast.unparse(l[1])[:50]) for l in loops) or "no loop")))
        if not fills:
            raise AnalysisError("%s: the store of sampled signals is never filled" % f.qualname)
        for ok, node, text in fills:
            ctx.check(ok, "%s stores one sampled block per signal, in registration order" % f.name, detail="sampled signals reordered (or taken from another signal): the p input of the function they are fed to is laid out in registration order",
                      expected="one block per e in %s, built from e.sample(...), in that order" % it, found=text, fi=f, node=node)
        ctx.check(bool(stack), "%s stacks the blocks of one sample position in store order" % f.name, detail="stacking order of the sampled signals", expected="vertcat(*[e[i] for e in <store>])", found="; ".join(ast.unparse(c)[:70] for c in stack), fi=f)
    g = P.own_method("SamplingMethod", "get_signals_at")
    rets = [r for r in walk_no_nested(g.node) if isinstance(r, ast.Return) and r.value is not None]
    ok = len(rets) == 1 and any(isinstance(x, ast.comprehension) and ast.unparse(x.iter) == "self.signals.values()" for x in ast.walk(rets[0].value)) and \
        Norm(None).key(rets[0].value) in (Norm(None).key(ast.parse("veccat(*[e.sampled[%s] for e in self.signals.values()])" % g.params[2], mode="eval").body),
                                          Norm(None).key(ast.parse("vvcat([e.sampled[%s] for e in self.signals.values()])" % g.params[2], mode="eval").body))
    ctx.check(ok, "get_signals_at stacks the node samples of every signal in registration order", detail="signals at a node", expected="veccat(*[e.sampled[k] for e in self.signals.values()])", found="; ".join(ast.unparse(r.value) for r in rets), fi=g)


def check_pack_order_fine(ctx):
    """The refined-sampling path has its own copy of the pack: expr_f's p input is vertcat(stage.p, stage.v), and it is fed with
    get_p_sys(..., include_signals=False) followed by the sampled signals (registration order: bspline variables, then parameters)."""
    P = ctx.prog
    g = P.own_method("Stage", "_grid_intg_fine")
    scg = ctx.scope(g)
    efd = [d for d in scg.defs.get("expr_f", []) if d.kind == "assign"]
    ok = len(efd) == 1 and isinstance(efd[0].value, ast.Call) and len(efd[0].value.args) >= 2 and isinstance(efd[0].value.args[1], ast.List) and len(efd[0].value.args[1].elts) >= 6 \
        and ast.unparse(efd[0].value.args[1].elts[5]).replace(" ", "") == "vertcat(stage.p,stage.v)"
    if not ok:
        raise AnalysisError("_grid_intg_fine: expression function with p input vertcat(stage.p, stage.v) not found")
    feeds = [c for c in walk_no_nested(g.node) if is_call_to(c, "get_p_sys", "stage._method")]
    plain = [c for c in feeds if any(k.arg == "include_signals" and ast.unparse(k.value) == "False" for k in c.keywords)]
    appended = any(is_call_to(c, "vertcat") and any("signals_sampled" in ast.unparse(a) for a in c.args) and ast.unparse(c.args[-1]).startswith("signals_sampled") for c in walk_no_nested(g.node))
    packed_calls = [c for c in walk_no_nested(g.node) if is_call_to(c, "pack_p_sys", "stage._method") and len(c.args) == 3 and ast.unparse(c.args[0]) == "stage" and ast.unparse(c.args[2]).startswith("signals_sampled")]
    check_signal_order(ctx)
    try:
        f, k, seq, nodes = get_p_sys_sequence(ctx)
    except AnalysisError:
        if not ("pack_p_sys" in P.cls("SamplingMethod").methods and packed_calls and not appended):
            raise
        # get_p_sys is written in another form: its simulation (with and without signals) and the packer decide the order
        check_packer(ctx)
        for k_, (got_, want_) in sorted(simulate_get_p_sys(ctx).items()):
            if isinstance(got_, str):
                raise AnalysisError("get_p_sys could not be simulated: %s" % got_)
            ctx.check(got_ == want_, "_grid_intg_fine~Stage.p+Stage.v (get_p_sys simulated at k=%d)" % k_, detail="kind=simulated", expected=want_, found=got_, fi=g)
        return
    want = stage_pack_sequence(ctx)
    base = [s for s in seq if s != "signals"]
    if packed_calls and not appended and check_packer(ctx):
        firstv = next((i for i, s in enumerate(base) if s.startswith("V:")), len(base))
        supplied = base[:firstv] + ["P:bspline"] + base[firstv:] + ["V:bspline"]
    else:
        supplied = base + (["V:bspline", "P:bspline"] if (plain and appended) or "signals" in seq else [])
    common = lcs(supplied, want)
    displaced = [x for x in want if x not in common] + [x for x in supplied if x not in common and x not in want]
    for kind in want:
        ctx.check(kind not in displaced, "_grid_intg_fine~Stage.p+Stage.v", detail="kind=%s" % kind,
                  expected="order of the expression function's p input: %s" % want, found="order fed by _grid_intg_fine: %s" % supplied, fi=g, sample={"kind": kind})
