"""Producer-side rules built on the layout interpreter (rkverif/layout.py): lengths and
content/position agreement of the method object's lists, swept over (N, M, degree).

quick tier: three configurations; thorough tier: N in 1..4, M in 1..3, degree in 1..3 (and the
localised grid variants).  A construct the interpreter does not model is reported as an analysis
error in the thorough tier only; the quick tier records it as a note (the consumer-side rules still
decide the property).
"""
from ..layout import Layout, LayoutUnknown, Sym, freeze, short
from ..model import AnalysisError

SHOOTING = ("MultipleShooting", "SingleShooting")


def configs(tier):
    if tier == "thorough":
        out = []
        for N in (1, 2, 3, 4):
            for M in (1, 2, 3):
                for d in (1, 2, 3):
                    out.append(dict(N=N, M=M, d=d))
        out += [dict(N=3, M=2, d=2, localize_t0=True), dict(N=3, M=2, d=2, localize_T=True), dict(N=2, M=2, d=2, nz=False), dict(N=2, M=3, d=2, nu=False)]
        return out
    return [dict(N=1, M=1, d=1), dict(N=3, M=2, d=2), dict(N=2, M=3, d=3)]


def run_layout(ctx, cname, cfg):
    # the cache lives on the analysed program (one per run / per self-test variant), never in the module
    _CACHE = ctx.prog.__dict__.setdefault("_layout_cache", {})
    key = (cname, tuple(sorted(cfg.items())))
    if key not in _CACHE:
        try:
            L = Layout(ctx.prog, cname, **cfg)
            _CACHE[key] = L.run()
        except LayoutUnknown as e:
            _CACHE[key] = e
        except RecursionError as e:
            _CACHE[key] = LayoutUnknown("recursion: %s" % e)
    r = _CACHE[key]
    if isinstance(r, Exception):
        raise r
    return r


def subterms(t):
    """All tuple subterms of a frozen term."""
    stack = [t]
    while stack:
        x = stack.pop()
        if isinstance(x, tuple):
            yield x
            stack.extend(x)


def f_calls(term):
    """Frozen F(...) call terms inside a frozen term, as {x0: call}."""
    out = {}
    for s in subterms(term):
        if len(s) >= 4 and s[0] == "call" and s[1] == "F" and isinstance(s[3], tuple):
            kw = dict(s[3])
            if "x0" in kw:
                out[kw["x0"]] = s
    return out


def count_sub(term, pred):
    return sum(1 for s in subterms(term) if pred(s))


def sweep(ctx, cname, body):
    """Run body(attrs, cfg, label) for every configuration; handles unknown constructs per tier."""
    n = 0
    for cfg in configs(ctx.tier):
        label = "%s N=%d M=%d d=%d%s" % (cname, cfg["N"], cfg["M"], cfg["d"], "".join(" %s=%s" % (k, v) for k, v in cfg.items() if k not in ("N", "M", "d")))
        try:
            a = run_layout(ctx, cname, cfg)
        except LayoutUnknown as e:
            if ctx.tier == "thorough":
                raise AnalysisError("layout interpreter: %s (%s)" % (e, label))
            ctx.note("layout_skipped", str(e)[:200])
            ctx.ok("layout not modelled for %s (recorded, decided by the consumer-side rules)" % label)
            continue
        body(a, cfg, label)
        n += 1
    return n


def L(a, name):
    v = a.get(name)
    return v if isinstance(v, list) else None


def check_len(ctx, a, label, name, want, fi=None, sub=None):
    v = L(a, name)
    if sub is not None and v:
        v = v[sub] if isinstance(v[sub], list) else None
    got = len(v) if v is not None else None
    ctx.check(got == want, "%s: len(%s%s) == %d" % (label, name, "[%d]" % sub if sub is not None else "", want), detail="list %s has the wrong length for its position kind" % name,
              expected=want, found=got, fi=fi)
    return v


def kinds_table(ctx, cname):
    """Lengths of the lists the evaluators index (position kinds), for every configuration."""
    f = ctx.prog.method(cname, "add_constraints")

    def body(a, cfg, label):
        N, M = cfg["N"], cfg["M"]
        for name, want in (("X", N + 1), ("U", N), ("Q", N + 1), ("Z", N + 1), ("integrator_grid", N), ("t0_local", N + 1), ("T_local", N)):
            v = check_len(ctx, a, label, name, want, f)
            if name in ("X", "Q", "Z", "U") and v is not None:
                ctx.check(all(x is not None for x in v), "%s: %s completely filled" % (label, name), detail="an entry of %s is never assigned" % name, expected="no None", found=str([i for i, x in enumerate(v) if x is None]), fi=f)
        for name, want in (("P_control", N), ("P_control_plus", N + 1), ("V_control", N), ("V_control_plus", N + 1), ("V_states", N + 1)):
            v = L(a, name)
            ctx.check(v is not None and len(v) == 1, "%s: one list per declared %s symbol" % (label, name), detail="per-symbol list", expected=1, found=None if v is None else len(v), fi=f)
            if v:
                check_len(ctx, a, label, name, want, f, sub=0)
        ip = N * M + (0 if cname == "DirectCollocation" else 1)
        for name in ("xk", "zk"):
            check_len(ctx, a, label, name, ip, f)
        check_len(ctx, a, label, "xqk", N * M + 1, f)
        for name in ("poly_coeff",) + (("poly_coeff_q",) if cname != "DirectCollocation" else ("poly_coeff_z",)):
            check_len(ctx, a, label, name, N * M, f)
        if cname == "MultipleShooting":
            check_len(ctx, a, label, "Z0", N, f)
        if cname == "DirectCollocation":
            d = cfg["d"]
            for name in ("tr", "xr", "zr", "Xc", "Zc"):
                v = check_len(ctx, a, label, name, N, f)
                if v:
                    ok = all(isinstance(x, list) and len(x) == M for x in v)
                    ctx.check(ok, "%s: %s[k] has M entries" % (label, name), detail="nesting of %s" % name, expected=M, found=str([len(x) if isinstance(x, list) else None for x in v]), fi=f)
            tr = L(a, "tr")
            if tr and all(isinstance(x, list) for x in tr):
                ok = all(isinstance(y, list) and len(y) == d for x in tr for y in x)
                ctx.check(ok, "%s: tr[k][i] has degree entries" % label, detail="collocation times per integration interval", expected=d, found="", fi=f)
        # integrator grid: shared point dropped except for the last interval
        ig = L(a, "integrator_grid")
        if ig and len(ig) == N:
            for k, g in enumerate(ig):
                fz = freeze(g)
                cut = isinstance(fz, tuple) and fz[0] == "get" and fz[2] == ("slice", None, -1)
                ctx.check(cut == (k < N - 1), "%s: integrator_grid[%d] %s the interval end point" % (label, k, "drops" if k < N - 1 else "keeps"),
                          detail="shared integrator point duplicated or final time missing", expected="t_local[:-1] for k<N-1, t_local for the last interval", found=short(g)[:60], fi=f)
    return sweep(ctx, cname, body)


def shooting_content(ctx, cname):
    """Content/position agreement of xk, zk, poly_coeff, xqk, Q for the shooting methods (R01.8 / R05.3)."""
    f = ctx.prog.method(cname, "add_constraints")

    def body(a, cfg, label):
        N, M = cfg["N"], cfg["M"]
        X, xk, zk, pc, xqk, Q = (L(a, n) for n in ("X", "xk", "zk", "poly_coeff", "xqk", "Q"))
        if not (X and xk and len(X) == N + 1 and len(xk) == N * M + 1):
            return
        fx = [freeze(x) for x in X]

        def interval_of(term):
            """k such that the (unique) outermost F call in term starts from X[k]."""
            calls = f_calls(freeze(term))
            ks = [fx.index(x0) for x0 in calls if x0 in fx]
            return ks

        for k in range(N):
            for i in range(M):
                t = freeze(xk[k * M + i])
                ok = isinstance(t, tuple) and t[0] == "get" and t[2] == (("slice", None, None), i) and isinstance(t[1], tuple) and t[1][0] == "get" and t[1][2] == "Xi"
                kk = interval_of(xk[k * M + i])
                ok = ok and (max(kk) if kk else None) == k
                ctx.check(ok, "%s: xk[%d] is the state after %d step(s) in interval %d" % (label, k * M + i, i, k), detail="integrator-point state stored at the wrong index",
                          expected="F_k['Xi'][:, %d] with F_k started at X[%d]" % (i, k), found=short(xk[k * M + i])[:80], fi=f)
                if pc and len(pc) == N * M:
                    t = freeze(pc[k * M + i])
                    ok = isinstance(t, tuple) and t[0] == "piece" and t[2] == i and (max(interval_of(pc[k * M + i]) or [None]) == k)
                    ctx.check(ok, "%s: poly_coeff[%d] belongs to step %d of interval %d" % (label, k * M + i, i, k), detail="dense-output block stored at the wrong index",
                              expected="piece %d of F_k['poly_coeff']" % i, found=short(pc[k * M + i])[:80], fi=f)
                if xqk and len(xqk) == N * M + 1:
                    t = freeze(xqk[k * M + i + 1])
                    ok = isinstance(t, tuple) and t[0] == "get" and t[2] == (("slice", None, None), i)
                    nq = count_sub(t, lambda s: len(s) == 3 and s[0] == "get" and s[2] == "qf")
                    nQi = count_sub(t, lambda s: len(s) == 3 and s[0] == "get" and s[2] == "Qi")
                    ok = ok and nq == k and nQi == 1 and (max(interval_of(xqk[k * M + i + 1]) or [None]) == k)
                    ctx.check(ok, "%s: xqk[%d] = integral over intervals 0..%d plus %d step(s) of interval %d" % (label, k * M + i + 1, k - 1, i + 1, k),
                              detail="intermediate quadrature stored at the wrong index or with the wrong offset", expected="(q_%d + F_%d['Qi'])[:, %d]" % (k, k, i), found=short(xqk[k * M + i + 1])[:80], fi=f)
        ctx.check(freeze(xk[N * M]) == fx[N], "%s: xk[N*M] is the final node state" % label, detail="final integrator point", expected="X[-1]", found=short(xk[N * M])[:60], fi=f)
        if Q and len(Q) == N + 1:
            for k in range(N):
                t = freeze(Q[k + 1])
                nq = count_sub(t, lambda s: len(s) == 3 and s[0] == "get" and s[2] == "qf")
                ks = sorted(set(interval_of(Q[k + 1])))
                # single shooting nests earlier calls inside x0: the set of start nodes still is 0..k
                ctx.check(nq >= k + 1 and ks == list(range(k + 1)) and (cname != "MultipleShooting" or nq == k + 1), "%s: Q[%d] accumulates the quadratures of intervals 0..%d" % (label, k + 1, k),
                          detail="node quadrature misses or repeats an interval", expected="sum of F_j['qf'], j=0..%d" % k, found="%d qf terms from intervals %s" % (nq, ks), fi=f)
    return sweep(ctx, cname, body)


def collocation_content(ctx):
    cname = "DirectCollocation"
    f = ctx.prog.method(cname, "add_constraints")

    def body(a, cfg, label):
        N, M, d = cfg["N"], cfg["M"], cfg["d"]
        X, Xc, xk, xr, pc = (L(a, n) for n in ("X", "Xc", "xk", "xr", "poly_coeff"))
        if not (X and Xc and len(X) == N + 1 and len(Xc) == N and all(isinstance(x, list) and len(x) == M for x in Xc)):
            return
        fx = [freeze(x) for x in X]
        for k in range(N):
            for i in range(M):
                t = freeze(Xc[k][i])
                ok = isinstance(t, tuple) and t[0] == "call" and t[1] == "horzcat" and len(t[2]) == 2
                if ok and i == 0:
                    ok = t[2][0] == fx[k]
                elif ok:
                    ok = t[2][0] not in fx and isinstance(t[2][0], tuple) and t[2][0][0] == "opti.variable"
                ctx.check(ok, "%s: Xc[%d][%d] starts with %s" % (label, k, i, "X[%d]" % k if i == 0 else "its own start-state variable"), detail="start state of an integration interval",
                          expected="horzcat(%s, helpers)" % ("X[k]" if i == 0 else "fresh variable"), found=short(Xc[k][i])[:80], fi=f)
                if xr and len(xr) == N and isinstance(xr[k], list) and len(xr[k]) == M and ok:
                    ctx.check(freeze(xr[k][i]) == t[2][1], "%s: xr[%d][%d] holds the helper states of the same interval" % (label, k, i), detail="root states of another interval", expected="xc of (k,i)", found=short(xr[k][i])[:60], fi=f)
                if xk and len(xk) == N * M:
                    tk = freeze(xk[k * M + i])
                    ok2 = isinstance(tk, tuple) and tk[0] == "get" and tk[1] == t and tk[2] == (("slice", None, None), 0)
                    ctx.check(ok2, "%s: xk[%d] is the start state of integration interval (%d,%d)" % (label, k * M + i, k, i), detail="integrator-point state stored at the wrong index",
                              expected="Xc[k][i][:,0]", found=short(xk[k * M + i])[:80], fi=f)
                if pc and len(pc) == N * M:
                    tp = freeze(pc[k * M + i])
                    ok3 = count_sub(tp, lambda s: s == t) >= 1
                    ctx.check(ok3, "%s: poly_coeff[%d] is built from Xc[%d][%d]" % (label, k * M + i, k, i), detail="dense-output block of another interval", expected="mtimes(Xc[k][i], ...)", found=short(pc[k * M + i])[:80], fi=f)
        Z, Zc, zk = L(a, "Z"), L(a, "Zc"), L(a, "zk")
        if cfg.get("nz", True) and Z and Zc and len(Z) == N + 1 and len(Zc) == N and all(isinstance(x, list) and len(x) == M for x in Zc):
            fz = [[freeze(Zc[k][i]) for i in range(M)] for k in range(N)]
            for k in range(N + 1):
                src = fz[k][0] if k < N else fz[N - 1][M - 1]
                others = [fz[kk][ii] for kk in range(N) for ii in range(M) if fz[kk][ii] != src]
                t = freeze(Z[k])
                ok = count_sub(t, lambda s: s == src) >= 1 and not any(count_sub(t, lambda s, o=o: s == o) for o in others)
                ctx.check(ok, "%s: Z[%d] is built from the algebraic helpers of %s" % (label, k, "integration interval (%d,0)" % k if k < N else "the last integration interval (%d,%d)" % (N - 1, M - 1)),
                          detail="algebraic value at a control node taken from another integration interval", expected="Zc[k][0] for k<N, Zc[N-1][M-1] at the final node", found=short(Z[k])[:80], fi=f)
            if zk and len(zk) == N * M:
                for k in range(N):
                    for i in range(M):
                        ok = count_sub(freeze(zk[k * M + i]), lambda s: s == fz[k][i]) >= 1
                        ctx.check(ok, "%s: zk[%d] is built from Zc[%d][%d]" % (label, k * M + i, k, i), detail="algebraic value at an integrator point taken from another interval", expected="Zc[k][i]", found=short(zk[k * M + i])[:80], fi=f)
        Q = L(a, "Q")
        xqk = L(a, "xqk")
        if Q and len(Q) == N + 1:
            for k in range(N):
                nq = count_sub(freeze(Q[k + 1]), lambda s: len(s) == 3 and s[0] == "get" and s[2] == "quad")
                ctx.check(nq == (k + 1) * M * d, "%s: Q[%d] sums the quadrature contributions of %d collocation times" % (label, k + 1, (k + 1) * M * d), detail="node quadrature misses or repeats collocation times",
                          expected=(k + 1) * M * d, found=nq, fi=f)
        if xqk and len(xqk) == N * M + 1:
            for n in range(N * M + 1):
                nq = count_sub(freeze(xqk[n]), lambda s: len(s) == 3 and s[0] == "get" and s[2] == "quad")
                ctx.check(nq == n * d, "%s: xqk[%d] sums %d collocation contributions" % (label, n, n * d), detail="integrator-point quadrature stored at the wrong index", expected=n * d, found=nq, fi=f)
    return sweep(ctx, cname, body)


def sym_poly(t):
    """Polynomial normal form (rkverif.poly) of a frozen arithmetic term of the layout interpreter: +, -, *, / by a number
    are interpreted, every other term is an atom.  Two spellings of the same arithmetic give the same polynomial."""
    from ..poly import Poly
    from fractions import Fraction
    if isinstance(t, bool):
        return Poly.const(int(t))
    if isinstance(t, int):
        return Poly.const(t)
    if isinstance(t, float):
        return Poly.const(Fraction(t).limit_denominator(10 ** 9))
    if isinstance(t, tuple) and len(t) == 4 and t[0] == "binop":
        op, a, b = t[1], sym_poly(t[2]), sym_poly(t[3])
        if op == "Add":
            return a + b
        if op == "Sub":
            return a - b
        if op == "Mult":
            return a * b
        if op == "Div" and b.is_const() and b.const_value() != 0:
            return a * Poly.const(Fraction(1) / b.const_value())
        return Poly.atom(repr(t))
    if isinstance(t, tuple) and len(t) == 3 and t[0] == "unary" and t[1] == "USub":
        return Poly.const(-1) * sym_poly(t[2])
    return Poly.atom(repr(t))


def collocation_times(ctx):
    """R02.4 on the interpreted lists: tr[k][i][j] == integrator_grid[k][i] + (control_grid[k+1]-control_grid[k])/M * tau[j],
    one list per k, one per (k,i), degree entries each - whatever statement form builds them."""
    cname = "DirectCollocation"
    f = ctx.prog.method(cname, "add_constraints")

    def body(a, cfg, label):
        N, M, d = cfg["N"], cfg["M"], cfg["d"]
        tr, ig, cg, tau = L(a, "tr"), a.get("integrator_grid"), a.get("control_grid"), a.get("tau")
        shape_ok = tr is not None and len(tr) == N and all(isinstance(x, list) and len(x) == M and all(isinstance(y, list) and len(y) == d for y in x) for x in tr)
        ctx.check(shape_ok, "%s: tr is a list over k of lists over i of %d root times" % (label, d), detail="nesting of tr", expected="tr[k][i][j], k<N, i<M, j<degree", found=short(tr)[:80] if tr is not None else None, fi=f)
        if not shape_ok:
            return
        bad = []
        for k in range(N):
            for i in range(M):
                for j in range(d):
                    try:
                        got = sym_poly(freeze(tr[k][i][j]))
                        igk = ig[k] if isinstance(ig, list) else Sym("get", ig, k)
                        t_ki = igk[i] if isinstance(igk, list) else Sym("get", igk, i)
                        c1 = cg[k + 1] if isinstance(cg, list) else Sym("get", cg, k + 1)
                        c0 = cg[k] if isinstance(cg, list) else Sym("get", cg, k)
                        from fractions import Fraction
                        from ..poly import Poly
                        want = sym_poly(freeze(t_ki)) + (sym_poly(freeze(c1)) - sym_poly(freeze(c0))) * Poly.const(Fraction(1, M)) * sym_poly(freeze(tau[j]))
                        if got != want:
                            bad.append((k, i, j, str(got)[:80]))
                    except Exception as e:
                        bad.append((k, i, j, "not comparable: %s" % e))
        ctx.check(not bad, "%s: collocation times tr[k][i][j] = integrator_grid[k][i] + dt_k*tau[j]" % label, detail="collocation time of point (k,i,j)", expected="integrator_grid[k][i] + (control_grid[k+1]-control_grid[k])/M*tau[j]",
                  found=str(bad[:2]), fi=f, sample={"cfg": label})
    return sweep(ctx, cname, body)
