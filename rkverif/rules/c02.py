"""C02 -- direct collocation constraints characterise the collocation polynomial.

Decided: helper-state layout (R02.1), the defect equation of every collocation time with the right
polynomial derivative, state/algebraic column, control, time and parameters (R02.2), the step
length of the interval being collocated (R02.3), collocation times (R02.4), continuity into the
next (sub-)interval for every scheme (R02.5), one consistent set of collocation tables bound to
self.degree (R02.6), the pack order of the p input (R02.7 = R01.7).
Not decided: CasADi's collocation tables; feasibility of an independently computed trajectory.
"""
import ast

from ..core import rule
from ..model import AnalysisError
from ..norm import Norm, expected
from ..poly import Poly
from ..paths import walk_no_nested
from ..loops import loop_context, loop_var
from ..effects import is_call_to
from .c01 import check_pack_order, find_keyword_calls

LEVEL = "other"


def dc(ctx):
    f = ctx.prog.own_method("DirectCollocation", "add_constraints")
    return f, ctx.scope(f), ctx.norm(f)


def subject_eqs(f):
    return [c for c in walk_no_nested(f.node) if is_call_to(c, "subject_to") and c.args and isinstance(c.args[0], ast.Compare)
            and len(c.args[0].ops) == 1 and isinstance(c.args[0].ops[0], ast.Eq)]


def step_of(k):
    return expected("(self.control_grid[k+1]-self.control_grid[k])/self.M", k=k)


def resolve_dt(ctx, f, sc, n, node, kvar):
    """Value of a step-length name at `node`: either the expression itself or dts[k] with dts appended once per k."""
    p = n.poly(node)
    key = p.is_single_atom()
    at = n.table.get(key) if key else None
    if at is not None and at.kind == "sub" and isinstance(at.parts.get("value"), ast.Name):
        L = at.parts["value"].id
        idx = at.parts["index"]
        apps = [a for a in walk_no_nested(f.node) if is_call_to(a, "append", L)]
        inits = [d for d in sc.defs.get(L, []) if d.kind == "assign"]
        if len(apps) == 1 and len(inits) == 1 and isinstance(inits[0].value, ast.List) and not inits[0].value.elts:
            lc = loop_context(sc, n, apps[0])
            if [li.kind for li in lc] == ["N"] and not sc.guards(apps[0]) and idx == Poly.atom(kvar):
                kv2 = loop_var(lc, "N")
                val = Norm(sc, bind={kv2: Poly.atom(kvar)} if kv2 != kvar else None).poly(apps[0].args[0])
                return val
    return p


@rule("R02.1", min_instances=7, desc="helper layout: Xc[k][i] = [x_start, xc] with x_start = X[k] for i==0 and a fresh variable otherwise; degree helper columns; same for algebraics")
def r02_1(ctx):
    prog = ctx.prog
    f = prog.own_method("DirectCollocation", "add_variables")
    sc = ctx.scope(f)
    n = ctx.norm(f)
    apps = {L: [a for a in walk_no_nested(f.node) if is_call_to(a, "append", L)] for L in ("self.Xc", "self.Zc", "self.X", "self.xr", "self.zr")}
    # the per-interval lists are whatever is appended to self.Xc / self.Zc / self.xr / self.zr (local names are free)
    for key, outer in (("Xc", "self.Xc"), ("Zc", "self.Zc"), ("xr", "self.xr"), ("zr", "self.zr")):
        inner = ast.unparse(apps[outer][0].args[0]) if len(apps[outer]) == 1 and isinstance(apps[outer][0].args[0], ast.Name) else None
        apps[key] = [a for a in walk_no_nested(f.node) if inner is not None and is_call_to(a, "append", inner)]
        apps[key + "_name"] = inner
    # Xc.append(horzcat(x0, xc)) inside (k, i)
    ok = len(apps["Xc"]) == 1
    if ok:
        a = apps["Xc"][0]
        lc = loop_context(sc, n, a)
        ok = [li.kind for li in lc] == ["N", "M"] and not sc.guards(a)
        arg = a.args[0]
        ok = ok and is_call_to(arg, "horzcat") and len(arg.args) == 2
        if ok:
            iv = loop_var(lc, "M")
            x0, xc = arg.args
            # xc: opti.variable(stage.nx, self.degree, ...)
            vxc = sc.reaching(xc.id, xc) if isinstance(xc, ast.Name) else None
            # fresh-identity names are not expanded: look the assignment up directly
            dxc = [d for d in sc.defs.get(xc.id, []) if d.kind == "assign"] if isinstance(xc, ast.Name) else []
            okc = len(dxc) == 1 and is_call_to(dxc[0].value, "variable") and len(dxc[0].value.args) >= 2 and \
                ast.unparse(dxc[0].value.args[0]) == "stage.nx" and ast.unparse(dxc[0].value.args[1]) == "self.degree"
            ctx.check(okc, "DirectCollocation helper states: nx x degree per integration interval", detail="helper state width",
                      expected="xc = opti.variable(stage.nx, self.degree)", found=ast.unparse(dxc[0].value) if dxc else None, fi=f)
            dx0 = [d for d in sc.defs.get(x0.id, []) if d.kind == "assign"] if isinstance(x0, ast.Name) else []
            ok0 = len(dx0) == 1 and isinstance(dx0[0].value, ast.IfExp)
            if ok0:
                ie = dx0[0].value
                ok0 = ast.unparse(ie.test).replace(" ", "") == "%s==0" % iv and isinstance(ie.body, ast.Name) and is_call_to(ie.orelse, "variable") \
                    and ast.unparse(ie.orelse.args[0]) == "stage.nx"
                if ok0:
                    # the name used for i==0 must be the node state: every assignment of it is followed by self.X.append(<it>)
                    xn = ie.body.id
                    defs = [d for d in sc.defs.get(xn, []) if d.kind == "assign"]
                    xapps = [a2 for a2 in apps["self.X"] if ast.unparse(a2.args[0]) == xn]
                    ok0 = len(defs) == 2 and len(xapps) == 2 and all(is_call_to(d.value, "variable") for d in defs)
                    for d in defs:
                        nxt = [a2 for a2 in xapps if sc.order[a2] > sc.order[d.stmt]]
                        ok0 = ok0 and bool(nxt)
                    # second assignment happens after the i-loop of the same k (so X[k+1] is created after interval k)
                    inner = [d for d in defs if sc.enclosing_loops(d.stmt)]
                    ok0 = ok0 and len(inner) == 1 and [li.kind for li in loop_context(sc, n, inner[0].stmt)] == ["N"] and sc.order[inner[0].stmt] > sc.order[a]
            ctx.check(ok0, "DirectCollocation interval start state", detail="start state of an integration interval",
                      expected="x0 = X[k] if i==0 else a fresh variable", found=ast.unparse(dx0[0].value) if dx0 else None, fi=f)
    ctx.check(ok, "DirectCollocation Xc[k][i] = horzcat(x_start, helper states)", detail="layout of Xc", expected="Xc.append(horzcat(x0, xc)) for i in range(M) inside k",
              found="; ".join(ast.unparse(a) for a in apps["Xc"]), fi=f)
    okl = len(apps["self.Xc"]) == 1 and apps["Xc_name"] is not None and [li.kind for li in loop_context(sc, n, apps["self.Xc"][0])] == ["N"]
    ctx.check(okl, "DirectCollocation self.Xc[k] = list over i", detail="nesting of Xc", expected="self.Xc.append(Xc) once per k", found="; ".join(ast.unparse(a) for a in apps["self.Xc"]), fi=f)
    # xr (states at roots) holds the helper columns
    okr = len(apps["xr"]) == 1 and ok and ast.unparse(apps["xr"][0].args[0]) == ast.unparse(apps["Xc"][0].args[0].args[1])
    ctx.check(okr, "DirectCollocation xr[k][i] = helper states (values at the collocation times)", detail="root states", expected="xr.append(xc)", found="; ".join(ast.unparse(a) for a in apps["xr"]), fi=f)
    # algebraic helper: horzcat(z0, zc), zc has degree-1 columns, used both for Zc and zr
    okz = len(apps["Zc"]) == 1 and len(apps["zr"]) == 1 and ast.unparse(apps["Zc"][0].args[0]) == ast.unparse(apps["zr"][0].args[0])
    if okz:
        arg = apps["Zc"][0].args[0]
        okz = is_call_to(arg, "horzcat") and len(arg.args) == 2
        if okz:
            zc = arg.args[1]
            dzc = [d for d in sc.defs.get(zc.id, []) if d.kind == "assign"] if isinstance(zc, ast.Name) else []
            okz = len(dzc) == 1 and is_call_to(dzc[0].value, "variable") and ast.unparse(dzc[0].value.args[0]) == "stage.nz" and \
                n.poly(dzc[0].value.args[1]) == expected("self.degree-1")
    ctx.check(okz, "DirectCollocation algebraic values: one column per collocation time (z_start + degree-1 helpers)", detail="layout of Zc/zr",
              expected="Zc.append(horzcat(z0, zc)); zr the same; zc = variable(nz, degree-1)", found="; ".join(ast.unparse(a) for a in apps["Zc"] + apps["zr"]), fi=f)
    # the first algebraic value of an integration step is the interval's own z only for the first step; later steps get a fresh
    # variable whatever the degree (C02-r12-1 shared one value among all M steps when degree == 1).  Judged when written as a
    # conditional expression over the step index; other shapes are left to the layout rules.
    if okz and isinstance(apps["Zc"][0].args[0].args[0], ast.Name):
        dz0 = [d for d in sc.defs.get(apps["Zc"][0].args[0].args[0].id, []) if d.kind == "assign"]
        if len(dz0) == 1 and isinstance(dz0[0].value, ast.IfExp):
            lv_ = loop_var(loop_context(sc, n, dz0[0].stmt), "M")
            t_ = dz0[0].value.test
            names_ = {x.id for x in ast.walk(t_) if isinstance(x, ast.Name)}
            okz0 = lv_ is not None and names_ == {lv_} and not any(isinstance(x, ast.Attribute) for x in ast.walk(t_)) and is_call_to(dz0[0].value.orelse, "variable")
            if okz0:
                try:
                    okz0 = [bool(eval(compile(ast.Expression(t_), "<t>", "eval"), {"__builtins__": {}}, {lv_: q})) for q in range(4)] == [True, False, False, False]
                except Exception:
                    okz0 = False
            ctx.check(okz0, "DirectCollocation step start algebraic value", detail="integration steps after the first share the interval's algebraic value under some configuration",
                      expected="z0 = z if i==0 else a fresh variable (condition on the step index only)", found=ast.unparse(dz0[0].value), fi=f, node=dz0[0].stmt)
    # U: one per k
    ua = [a for a in walk_no_nested(f.node) if is_call_to(a, "append", "self.U")]
    ctx.check(len(ua) == 1 and [li.kind for li in loop_context(sc, n, ua[0])] == ["N"], "DirectCollocation one control per interval", detail="U", expected="self.U.append(...) once per k",
              found=str(len(ua)), fi=f)


@rule("R02.2", min_instances=12, desc="defect equations: for every (k,i,j) Xc[k][i]*C[:,j]/dt == f(x=Xc[k][i][:,j+1], z=Zc[k][i][:,j], u=U[k], t=tr[k][i][j], p=interval k) and alg == 0")
def r02_2(ctx):
    f, sc, n = dc(ctx)
    fcalls = find_keyword_calls(f, {"x", "u", "t"})
    ctx.check(len(fcalls) == 1, "DirectCollocation evaluates the model once per collocation time", detail="model evaluations", expected="one f(x=,u=,z=,p=,t=)", found=str(len(fcalls)), fi=f)
    if len(fcalls) != 1:
        return
    c = fcalls[0]
    lc = loop_context(sc, n, c)
    kinds = [li.kind for li in lc]
    ctx.check(kinds == ["N", "M", "d"] and not sc.guards(c), "DirectCollocation collocation loops", detail="not every (k,i,j)", expected="for k in range(N): for i in range(M): for j in range(degree)", found=kinds, fi=f, node=c)
    if kinds != ["N", "M", "d"]:
        return
    k, i, j = lc[0].var, lc[1].var, lc[2].var
    ctx.check(n.key(c.func) == "stage._ode()", "DirectCollocation evaluates the stage's ODE function", detail="model", expected="stage._ode()", found=n.key(c.func), fi=f, node=c)
    got = {kw.arg: n.poly(kw.value) for kw in c.keywords}
    want = {"x": "self.Xc[k][i][:,j+1]", "u": "self.U[k]", "z": "self.Zc[k][i][:,j]", "t": "self.tr[k][i][j]"}
    for slot, text in want.items():
        w = expected(text, k=k, i=i, j=j)
        ctx.check(got.get(slot) == w, "DirectCollocation model slot %s" % slot, detail="collocation time (k,i,j) evaluated with another point's %s" % slot, expected=w, found=got.get(slot), fi=f, node=c,
                  sample={"slot": slot, "value": str(got.get(slot))})
    # p: interval-k selection (without signals) + the signal sample of the same flat counter
    pnode = [kw.value for kw in c.keywords if kw.arg == "p"]
    okp = False
    found = None
    if pnode:
        pv = pnode[0]
        v = sc.reaching(pv.id, pv) if isinstance(pv, ast.Name) else pv
        found = ast.unparse(v) if v is not None else ast.unparse(pv)
        # vertcat(p, signals_sampled[cnt])  or  self.pack_p_sys(stage, p, signals_sampled[cnt])  (the layout is R02.7's business)
        pair = None
        if v is not None and is_call_to(v, "vertcat") and len(v.args) == 2:
            pair = v.args
        elif v is not None and is_call_to(v, "pack_p_sys", "self") and len(v.args) == 3 and ast.unparse(v.args[0]) == "stage":
            pair = v.args[1:]
        if pair is not None:
            a0 = n.poly(pair[0])
            okp = a0 == expected("self.get_p_sys(stage,k,include_signals=False)", k=k)
            s = pair[1]
            if okp and isinstance(s, ast.Subscript) and isinstance(s.slice, ast.Name):
                cnt = s.slice.id
                ds = sc.defs.get(cnt, [])
                inits = [d for d in ds if d.kind == "assign"]
                augs = [d for d in ds if d.kind == "aug"]
                okp = len(inits) == 1 and ast.unparse(inits[0].value) == "0" and not sc.enclosing_loops(inits[0].stmt) and len(augs) == 1 \
                    and [li.kind for li in loop_context(sc, n, augs[0].stmt)] == ["N", "M", "d"] and ast.unparse(augs[0].stmt.value) == "1" \
                    and isinstance(augs[0].stmt.op, ast.Add) and sc.order[augs[0].stmt] > sc.order[sc.stmt_of(s)] and not sc.guards(augs[0].stmt)
            else:
                okp = False
    ctx.check(okp, "DirectCollocation model slot p", detail="parameters of another interval / signal sample of another collocation time",
              expected="vertcat(get_p_sys(stage,k,include_signals=False), signals_sampled[flat counter incremented once per (k,i,j)])", found=found, fi=f, node=c)
    # the defect equation
    eqs = subject_eqs(f)
    res_name = None
    st = sc.stmt_of(c)
    if isinstance(st, ast.Assign) and isinstance(st.targets[0], ast.Name):
        res_name = st.targets[0].id
    ode_eqs = [e for e in eqs if "%s['ode']" % res_name in ast.unparse(e.args[0])]
    alg_eqs = [e for e in eqs if "%s['alg']" % res_name in ast.unparse(e.args[0])]
    ctx.check(len(ode_eqs) == 1, "DirectCollocation collocation constraint present", detail="ODE defect equation", expected="one subject_to(Pidot_j == res['ode'])", found=str(len(ode_eqs)), fi=f)
    if len(ode_eqs) == 1:
        e = ode_eqs[0]
        lce = [li.kind for li in loop_context(sc, n, e)]
        ctx.check(lce == ["N", "M", "d"] and not sc.guards(e), "DirectCollocation collocation constraint for every (k,i,j)", detail="defect equation skipped for some collocation times",
                  expected="inside the (k,i,j) loops, unconditional", found="%s guards %s" % (lce, [ast.unparse(t) for t, p in sc.guards(e)]), fi=f, node=e)
        cmp = e.args[0]
        sides = [cmp.left, cmp.comparators[0]]
        rhs = [s for s in sides if ast.unparse(s) == "%s['ode']" % res_name]
        lhs = [s for s in sides if s not in rhs]
        okd = len(rhs) == 1 and len(lhs) == 1
        if okd:
            pl = n.poly(lhs[0])
            mt = expected("mtimes(self.Xc[k][i], self.C[:,j])", k=k, i=i, j=j)
            mk = mt.is_single_atom()
            coef = pl.coeff(mk)
            rest = pl - coef * mt
            dtp = None
            # coefficient must be 1/dt_k
            want = expected("1/((self.control_grid[k+1]-self.control_grid[k])/self.M)", k=k)
            coef_res = coef
            # resolve dts[k]
            for a in list(coef.atoms()):
                at = n.table.get(a)
            okd = rest.is_zero()
            if okd and coef != want:
                # the step may come from a list filled per interval: dt = dts[k]
                inv_atoms = [a for a in coef.atoms()]
                okd = False
                for a in inv_atoms:
                    at = n.table.get(a)
                    if at is not None and at.kind == "sub":
                        val = resolve_dt(ctx, f, sc, n, at.node, k)
                        if (coef * Poly.atom(a)).is_const():
                            # coef = c / atom  ->  step = atom / c
                            okd = (val * (coef * Poly.atom(a))) == step_of(k) or val == step_of(k) and coef == Poly.atom(a, -1)
            ctx.check(okd, "DirectCollocation polynomial derivative", detail="time derivative of the collocation polynomial at collocation time j",
                      expected="mtimes(Xc[k][i], C[:,j]) / dt_k with dt_k=(control_grid[k+1]-control_grid[k])/M", found=str(pl), fi=f, node=e,
                      sample={"lhs": str(pl)})
    ctx.check(len(alg_eqs) == 1, "DirectCollocation algebraic constraint present", detail="algebraic equations", expected="one subject_to(0 == res['alg'])", found=str(len(alg_eqs)), fi=f)
    if len(alg_eqs) == 1:
        e = alg_eqs[0]
        lce = [li.kind for li in loop_context(sc, n, e)]
        gs = [(ast.unparse(t), p) for t, p in sc.guards(e)]
        ctx.check(lce == ["N", "M", "d"] and gs in ([("stage.nz", True)], []), "DirectCollocation algebraic constraint at every collocation time", detail="alg == 0 skipped",
                  expected="inside the (k,i,j) loops, guarded at most by stage.nz", found="%s guards %s" % (lce, gs), fi=f, node=e)
        cmp = e.args[0]
        other = [s for s in [cmp.left, cmp.comparators[0]] if "alg" not in ast.unparse(s)]
        ctx.check(len(other) == 1 and n.poly(other[0]) == Poly.const(0), "DirectCollocation algebraic residual vanishes", detail="alg", expected="0 == res['alg']", found=ast.unparse(cmp), fi=f, node=e)


@rule("R02.3", min_instances=3, desc="step length provenance in DirectCollocation: every dt is (control_grid[k+1]-control_grid[k])/M of the loop's own k")
def r02_3(ctx):
    f, sc, n = dc(ctx)
    cnt = 0
    for d in sc.defs.get("dt", []):
        if d.kind != "assign":
            continue
        lc = loop_context(sc, n, d.stmt)
        kv = loop_var(lc, "N")
        val = resolve_dt(ctx, f, sc, n, d.value, kv) if kv else n.poly(d.value)
        ok = kv is not None and len(lc) == 1 and val == step_of(kv)
        cnt += 1
        ctx.check(ok, "DirectCollocation dt (line-role %d)" % cnt, detail="step length is not that of the loop's own interval",
                  expected="(control_grid[k+1]-control_grid[k])/M inside for k in range(N)", found="%s in loops %s" % (val, [li.kind for li in lc]), fi=f, node=d.stmt,
                  sample={"dt": str(val)})
    # every use of dt is served by a definition made in the same round of its own k-loop (no value left over from an earlier loop)
    stale = []
    uses = 0
    for x in walk_no_nested(f.node):
        if isinstance(x, ast.Name) and x.id == "dt" and isinstance(x.ctx, ast.Load):
            uses += 1
            loops = sc.enclosing_loops(x)
            kl = None
            for tgt, it, owner in loops:
                from ..loops import classify_iter
                if classify_iter(it, n)[0] == "N":
                    kl = owner
                    break
            st = sc.stmt_of(x)
            ok_use = kl is not None and any(d.kind == "assign" and sc.within(d.stmt, kl) and sc.order[d.stmt] < sc.order[st] for d in sc.defs.get("dt", []))
            if not ok_use:
                stale.append(x.lineno)
    ctx.check(cnt >= 1 and uses >= 3 and not stale, "DirectCollocation computes the step per interval", detail="a use of dt is not preceded by a definition in the same round of its own interval loop (step of another interval)",
              expected="dt defined in the k-loop before every use", found="definitions: %d, uses: %d, uses without a definition in their own loop at lines %s" % (cnt, uses, stale), fi=f)


@rule("R02.4", min_instances=2, desc="collocation times: tr[k][i][j] = integrator_grid[k][i] + dt_k*tau[j] (decided on the lists the layout interpreter builds from add_constraints, whatever statement form fills them)")
def r02_4(ctx):
    from .layout_rules import collocation_times
    n = collocation_times(ctx)
    if n == 0:
        # the interpreter could not follow the method (recorded as a note in the quick tier): fall back to the syntactic form
        _r02_4_syntactic(ctx)


def _r02_4_syntactic(ctx):
    f, sc, n = dc(ctx)
    apps = [a for a in walk_no_nested(f.node) if is_call_to(a, "append", "tr")]
    ok = len(apps) == 1
    found = "; ".join(ast.unparse(a) for a in apps)
    if ok:
        a = apps[0]
        lc = loop_context(sc, n, a)
        ok = [li.kind for li in lc] == ["N", "M"] and not sc.guards(a)
        arg = a.args[0]
        if ok and isinstance(arg, ast.ListComp) and len(arg.generators) == 1:
            g = arg.generators[0]
            jv = g.target.id if isinstance(g.target, ast.Name) else None
            from ..loops import classify_iter
            ok = classify_iter(g.iter, n)[0] == "d" and not g.ifs
            k, i = lc[0].var, lc[1].var
            elt = n.poly(arg.elt)
            # dt is the loop-k definition
            want = expected("self.integrator_grid[k][i]", k=k, i=i) + step_of(k) * expected("self.tau[j]", j=jv)
            ok = ok and elt == want
            found = str(elt)
        else:
            ok = False
    ctx.check(ok, "DirectCollocation collocation times", detail="collocation time of point (k,i,j)", expected="integrator_grid[k][i] + dt_k*tau[j] for j in range(degree)", found=found, fi=f,
              sample={"tr": found})
    outer = [a for a in walk_no_nested(f.node) if is_call_to(a, "append", "self.tr")]
    ok = len(outer) == 1 and ast.unparse(outer[0].args[0]) == "tr" and [li.kind for li in loop_context(sc, n, outer[0])] == ["N"]
    ctx.check(ok, "DirectCollocation self.tr[k] = list over i", detail="nesting of tr", expected="self.tr.append(tr) once per k", found="; ".join(ast.unparse(a) for a in outer), fi=f)


@rule("R02.5", min_instances=3, desc="continuity: for every (k,i) the polynomial's end value Xc[k][i]*D equals the start state of the next (sub-)interval")
def r02_5(ctx):
    f, sc, n = dc(ctx)
    eqs = subject_eqs(f)
    cont = [e for e in eqs if "self.D" in ast.unparse(e.args[0]) or "x_next" in ast.unparse(e.args[0])]
    ctx.check(len(cont) == 1, "DirectCollocation continuity constraint present", detail="continuity", expected="one subject_to(mtimes(Xc[k][i], D) == x_next)", found=str(len(cont)), fi=f)
    if len(cont) != 1:
        return
    e = cont[0]
    lc = loop_context(sc, n, e)
    ok = [li.kind for li in lc] == ["N", "M"] and not sc.guards(e)
    ctx.check(ok, "DirectCollocation continuity for every integration interval", detail="continuity skipped", expected="inside (k,i), outside j, unconditional", found=str([li.kind for li in lc]), fi=f, node=e)
    if not ok:
        return
    k, i = lc[0].var, lc[1].var
    cmp = e.args[0]
    polys = [n.poly(cmp.left), n.poly(cmp.comparators[0])]
    end = expected("mtimes(self.Xc[k][i], self.D)", k=k, i=i)
    ends = [p for p in polys if p == end]
    other = [p for p in polys if p != end]
    ctx.check(len(ends) == 1, "DirectCollocation end value of the collocation polynomial", detail="end value is not Xc[k][i]*D (valid for every scheme)",
              expected=end, found="; ".join(str(p) for p in polys), fi=f, node=e, sample={"end": str(polys)})
    if len(other) == 1:
        at = n.table.get(other[0].is_single_atom())
        okn = False
        if at is not None and at.kind == "ifexp":
            tn = at.parts["test_node"]
            from ..ceval import ceval, Unknown
            try:
                t_last = bool(ceval(tn, {i: 2, "self.M": 3}))
                t_in = bool(ceval(tn, {i: 0, "self.M": 3}))
                a_last = at.parts["body"] if t_last else at.parts["orelse"]
                a_in = at.parts["body"] if t_in else at.parts["orelse"]
                okn = a_last == expected("self.X[k+1]", k=k) and a_in == expected("self.Xc[k][i+1][:,0]", k=k, i=i)
            except Unknown:
                okn = False
        ctx.check(okn, "DirectCollocation next start state", detail="polynomial end tied to the wrong state", expected="X[k+1] if i==M-1 else Xc[k][i+1][:,0]", found=str(other[0]), fi=f, node=e)


@rule("R02.6", min_instances=5, desc="one consistent set of collocation tables: tau from collocation_points(degree, scheme), C, D, B from collocation_coeff(tau); loops and widths bound by the same degree")
def r02_6(ctx):
    prog = ctx.prog
    f = prog.own_method("DirectCollocation", "__init__")
    n = ctx.norm(f)
    asg = {}
    for st in walk_no_nested(f.node):
        if isinstance(st, ast.Assign):
            for t in st.targets:
                asg[ast.unparse(t)] = st.value
    deg, sch = f.params[1], f.params[2]
    ctx.check(ast.unparse(asg.get("self.degree", ast.Constant(None))) == deg, "DirectCollocation stores the degree", detail="degree", expected="self.degree = degree", found=ast.unparse(asg["self.degree"]) if "self.degree" in asg else None, fi=f)
    t = asg.get("self.tau")
    ok = t is not None and is_call_to(t, "collocation_points") and [ast.unparse(a) for a in t.args] == [deg, sch]
    ctx.check(ok, "DirectCollocation tau = collocation_points(degree, scheme)", detail="collocation times of the chosen scheme and degree", expected="collocation_points(degree, scheme)", found=ast.unparse(t) if t is not None else None, fi=f)
    cdb = asg.get("[self.C, self.D, self.B]") or asg.get("(self.C, self.D, self.B)") or asg.get("self.C, self.D, self.B")
    ok = cdb is not None and is_call_to(cdb, "collocation_coeff") and [ast.unparse(a) for a in cdb.args] == ["self.tau"]
    ctx.check(ok, "DirectCollocation C, D, B = collocation_coeff(tau)", detail="derivative/continuity/quadrature tables from the same tau", expected="[self.C, self.D, self.B] = collocation_coeff(self.tau)",
              found=ast.unparse(cdb) if cdb is not None else None, fi=f)
    g, sc, ng = dc(ctx)
    # every use of C / D / B in add_constraints is the table itself, indexed by the loop's j
    uses = [s for s in walk_no_nested(g.node) if isinstance(s, ast.Subscript) and ast.unparse(s.value) in ("self.C", "self.B")]
    okc = True
    for u in uses:
        lc = loop_context(sc, ng, u)
        jv = loop_var(lc, "d")
        if ast.unparse(u.value) == "self.C":
            okc = okc and jv is not None and ast.unparse(u.slice).replace(" ", "").strip("()") == ":,%s" % jv
        else:
            okc = okc and jv is not None and ast.unparse(u.slice) == jv
    ctx.check(okc and len(uses) >= 2, "DirectCollocation table columns addressed by the collocation index j", detail="column of C / weight of B", expected="self.C[:,j], self.B[j] with j from range(self.degree)",
              found="; ".join(ast.unparse(u) for u in uses), fi=g)
    # Lagrange basis for the dense output built on [0]+tau with degree+1 nodes
    tr = [d for d in sc.defs.get("tau_root", []) if d.kind == "assign"]
    ok = len(tr) == 1 and ng.key(tr[0].value) == ng.key(ast.parse("[0]+self.tau", mode="eval").body)
    ctx.check(ok, "DirectCollocation interpolation nodes [0]+tau", detail="nodes of the Lagrange basis", expected="tau_root = [0] + self.tau", found=ast.unparse(tr[0].value) if tr else None, fi=g)


@rule("R02.7", min_instances=8, desc="pack order of the ODE's p input under DirectCollocation (same packing helper as shooting), every per-interval piece selected with the interval index")
def r02_7(ctx):
    from .c01 import r01_6
    check_pack_order(ctx)
    r01_6(ctx)


@rule("R02.8", min_instances=20, desc="layout of the collocation lists (layout interpreter, swept over N, M, degree): Xc[k][i] starts with X[k] / its own start variable, xr/xk/poly_coeff address the same interval, list lengths match their position kinds")
def r02_8(ctx):
    from .layout_rules import collocation_content, kinds_table
    collocation_content(ctx)
    kinds_table(ctx, "DirectCollocation")


@rule("R02.9", min_instances=30, desc="a stage created from a template keeps its dynamics and algebraic equations (clone table, shared with C12)")
def r02_9(ctx):
    from .c12 import r12_2
    r12_2(ctx)


@rule("R02.10", min_instances=4, desc="algebraic values at grid points are the interpolation polynomial through the collocation values evaluated at the point: local time 0 (constant coefficients) at interval / step starts, local time 1 (sum of the coefficients) at the final node - not a collocation value itself (Legendre points do not include the interval end)")
def r02_10(ctx):
    P = ctx.prog
    f = P.own_method("DirectCollocation", "add_constraints")
    sc = ctx.scope(f)
    K = lambda t: Norm(None).key(ast.parse(t, mode="eval").body)
    # the coefficient table of the algebraic basis: rows = Lagrange polynomials through the collocation points 1..degree, ascending powers (R08.3)
    pz = [d for d in sc.defs.get("poly_z", []) if d.kind == "assign"]
    ok = len(pz) == 1 and is_call_to(pz[0].value, "vcat") and len(pz[0].value.args) == 1
    ctx.check(ok, "DirectCollocation algebraic basis table: one row per collocation point", detail="basis table", expected="poly_z = vcat(rows)", found=ast.unparse(pz[0].value) if pz else None, fi=f)
    at0 = (K("poly_z[:,0]"),)
    at1 = (K("sum2(poly_z)"), K("mtimes(poly_z, DM.ones(self.degree,1))"), K("mtimes(poly_z, DM.ones(self.degree))"))
    apps = {"Z": [], "zk": []}
    for c in walk_no_nested(f.node):
        for nm in apps:
            if is_call_to(c, "append", "self." + nm) and c.args:
                apps[nm].append(c)
    if len(apps["Z"]) != 2 or len(apps["zk"]) != 1:
        raise AnalysisError("DirectCollocation.add_constraints: expected two appends to self.Z (interval starts, final node) and one to self.zk, found %d / %d" % (len(apps["Z"]), len(apps["zk"])))
    inloop = [c for c in apps["Z"] if sc.enclosing_loops(c)]
    final = [c for c in apps["Z"] if not sc.enclosing_loops(c)]
    if len(inloop) != 1 or len(final) != 1:
        raise AnalysisError("DirectCollocation.add_constraints: appends to self.Z not split into per-interval and final")

    def weights(c):
        v = c.args[0]
        if is_call_to(v, "mtimes") and len(v.args) == 2:
            return ast.unparse(v.args[0]), Norm(None).key(v.args[1])
        return ast.unparse(v), None
    for c, what, allowed, exp in ((inloop[0], "Z[k] (start of control interval k)", at0, "mtimes(Zc[k][0], poly_z[:,0])"), (apps["zk"][0], "zk (start of integrator step (k,i))", at0, "mtimes(Zc[k][i], poly_z[:,0])"),
                                  (final[0], "Z[N] (final node)", at1, "mtimes(Zc[-1][-1], sum2(poly_z))")):
        blk, w = weights(c)
        ctx.check(w in allowed, "DirectCollocation %s = algebraic interpolation polynomial evaluated at that point" % what,
                  detail="algebraic value at a grid point is not the value of the collocation polynomial there (wrong for every scheme whose points exclude that end, e.g. Legendre at the interval end)",
                  expected=exp, found=ast.unparse(c.args[0])[:100], fi=f, node=c, sample={"point": what, "weights": w})
