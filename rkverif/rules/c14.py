"""C14 -- scaling arguments never change the meaning of the problem.

Decided: the constraint rebuilt for a scale divides lower bound, expression and upper bound by the
same scale, keeps the sense, only treats a side as absent when *all* of its entries are infinite,
and covers every Opti constraint type (R14.1); solver variables are physical/scale in exactly one
place (R14.2); every decision variable of a scaled kind and every constraint carries the scale of
the symbol / declaration it belongs to (R14.3); read-back, sampling and initial guesses never touch
the scales (R14.4); algebraic residual and derivative scales (R14.5).
Not decided: equality of feasible sets in numbers.
"""
import ast

from ..core import rule
from ..model import AnalysisError
from ..norm import Norm, expected
from ..poly import Poly
from ..paths import walk_no_nested
from ..loops import loop_context
from ..effects import is_call_to
from .c04 import placement_sites, GENERIC, is_subject_to, replay_loop

LEVEL = "other"


@rule("R14.1", min_instances=12, desc="scaled constraint rebuild: lb, expression and ub divided by the same scale, sense kept, one-sided only when the whole side is infinite, all constraint types covered")
def r14_1(ctx):
    prog = ctx.prog
    f = prog.own_method("OptiWrapper", "transcribe_placeholders")
    sc = ctx.scope(f)
    rl = replay_loop(ctx, f)
    if rl is None:
        raise AnalysisError("transcribe_placeholders: replay loop not found")
    l, cv, sv = rl[0], rl[1], rl[2]
    # branches on mc.type
    branches = [i for i in ast.walk(l) if isinstance(i, ast.If) and "mc.type" in ast.unparse(i.test) or (isinstance(i, ast.If) and ".type in" in ast.unparse(i.test))]
    types = {}
    for b in branches:
        t = b.test
        if isinstance(t, ast.Compare) and isinstance(t.comparators[0], (ast.List, ast.Tuple)):
            types[tuple(sorted(ast.unparse(e).split(".")[-1] for e in t.comparators[0].elts))] = b
    ineq = [b for k, b in types.items() if any("INEQUALITY" in x for x in k)]
    eq = [b for k, b in types.items() if any(x.endswith("EQUALITY") and "INEQ" not in x for x in k)]
    all_types = set(x for k in types for x in k)
    want_types = {"OPTI_INEQUALITY", "OPTI_GENERIC_INEQUALITY", "OPTI_DOUBLE_INEQUALITY", "OPTI_EQUALITY", "OPTI_GENERIC_EQUALITY"}
    ctx.check(all_types == want_types, "scaled rebuild covers every constraint type", detail="a constraint type is passed through unscaled or dropped",
              expected=sorted(want_types), found=sorted(all_types), fi=f, sample={"types": sorted(all_types)})
    guard_ok = all(any("is_one" in ast.unparse(t) and not p or ("not" in ast.unparse(t) and "is_one" in ast.unparse(t) and p) for t, p in sc.guards(b)) for b in branches)
    ctx.check(guard_ok and len(branches) == 2, "rebuild happens exactly when scale != 1", detail="guard", expected="if not MX(scale).is_one()", found=str(len(branches)), fi=f)
    for b, kind in [(x, "inequality") for x in ineq] + [(x, "equality") for x in eq]:
        asg = {}
        for st in ast.walk(b):
            if isinstance(st, ast.Assign) and isinstance(st.targets[0], ast.Name):
                asg.setdefault(st.targets[0].id, []).append(st)
        parts = ("lb", "canon", "ub") if kind == "inequality" else ("lb", "canon")
        for nm in parts:
            d = asg.get(nm, [])
            ok = len(d) == 1 and Norm(None).poly(d[0].value) == expected("mc.%s/%s" % (nm, sv))
            ctx.check(ok, "scaled %s: %s divided by the constraint's scale" % (kind, nm), detail="side not divided by scale (feasible set changes)",
                      expected="%s = mc.%s/%s" % (nm, nm, sv), found="; ".join(ast.unparse(x) for x in d), fi=f, node=(d[0] if d else b), sample={"kind": kind, "part": nm})
        cs = asg.get(cv, [])
        cases = {}

        def flat(node, conds):
            if isinstance(node, ast.IfExp):
                flat(node.body, conds + ((ast.unparse(node.test), True),))
                flat(node.orelse, conds + ((ast.unparse(node.test), False),))
            else:
                cases[conds] = Norm(None).key(node)
        for x in cs:
            gs = tuple((ast.unparse(t), p) for t, p in sc.guards(x) if ast.unparse(t) in ("lb_inf", "ub_inf"))
            flat(x.value, gs)
        forms = sorted(cases.values())
        if kind == "inequality":
            K = lambda t: Norm(None).key(ast.parse(t, mode="eval").body)
            want_cases = {(("lb_inf", True),): K("canon <= ub"), (("lb_inf", False), ("ub_inf", True)): K("lb <= canon"), (("lb_inf", False), ("ub_inf", False)): K("lb <= (canon <= ub)")}
            ctx.check(sorted(cases.values()) == sorted(want_cases.values()), "scaled inequality keeps its sense", detail="sense or sides of the rebuilt inequality", expected=sorted(want_cases.values()), found=forms, fi=f, node=b)
            ctx.check(cases == want_cases, "one-sided form only when that side is infinite", detail="finite bound dropped", expected="lb_inf -> canon<=ub; ub_inf -> lb<=canon; else both", found=str(cases)[:200], fi=f, node=b)
            for nm, sign in (("lb_inf", "-np.inf"), ("ub_inf", "np.inf")):
                d = [x for x in asg.get(nm, []) if not (isinstance(x.value, ast.Constant))]
                ok = len(d) == 1 and is_call_to(d[0].value, "all", "np")
                if ok:
                    inner = ast.unparse(d[0].value.args[0]).replace(" ", "")
                    side = "lb" if nm == "lb_inf" else "ub"
                    ok = ("evalf(%s)==%s" % (side, sign)) in inner
                ctx.check(ok, "%s means every entry of the bound is infinite" % nm, detail="a partly infinite bound vector loses its finite entries",
                          expected="np.all(evalf(%s) == %s)" % ("lb" if nm == "lb_inf" else "ub", sign), found="; ".join(ast.unparse(x.value) for x in d), fi=f, node=(d[0] if d else b))
                fb = [x for x in asg.get(nm, []) if isinstance(x.value, ast.Constant)]
                ctx.check(all(x.value.value is False for x in fb), "%s falls back to False for symbolic bounds" % nm, detail="symbolic bound treated as infinite", expected="False", found="; ".join(ast.unparse(x) for x in fb), fi=f)
        else:
            want = Norm(None).key(ast.parse("lb == canon", mode="eval").body)
            ctx.check(forms == [want], "scaled equality", detail="rebuilt equality", expected="lb == canon", found=forms, fi=f, node=b)
    # the rebuilt c is what is handed to Opti
    subs = [c for c in ast.walk(l) if isinstance(c, ast.Call) and ast.unparse(c.func) == "Opti.subject_to"]
    ok = len(subs) == 1 and ast.unparse(subs[0].args[1]) == cv and all(sc.order[subs[0]] > sc.order[b] for b in branches)
    ctx.check(ok, "the rebuilt constraint is the one handed to Opti", detail="unscaled constraint passed on", expected="Opti.subject_to(self, c) after the rebuild", found="", fi=f)


SCALE_ATTRS = ("_scale", "_scale_x", "_scale_z", "_scale_u", "_scale_der_x", "_scale_p", "_scale_v", "_scale_der")


def scale_refs(node):
    return [a for a in ast.walk(node) if isinstance(a, ast.Attribute) and a.attr in SCALE_ATTRS]


@rule("R14.2", min_instances=3, desc="solver variable = physical/scale in exactly one place: OptiWrapper.variable returns scale*v; elsewhere scales only travel through scale= arguments")
def r14_2(ctx):
    prog = ctx.prog
    f = prog.own_method("OptiWrapper", "variable")
    rets = [r for r in walk_no_nested(f.node) if isinstance(r, ast.Return) and r.value is not None]
    main = [r for r in rets if not is_call_to(r.value, "MX") and "scale" in [x.id for x in ast.walk(r.value) if isinstance(x, ast.Name)]]
    ok = len(main) == 1
    # a discrete (integer / binary) variable keeps its own values: scale*v would make the physical quantity range over multiples of the scale
    sc0 = ctx.scope(f)
    dom = f.params[4] if len(f.params) > 4 else "domain"
    for r in main:
        gs = [(ast.unparse(t).replace(" ", "").replace('"', "'"), p_) for t, p_ in sc0.path_guards(r)]
        real_only = ("%s=='real'" % dom, True) in gs or ("%s!='real'" % dom, False) in gs
        ctx.check(real_only, "OptiWrapper.variable scales real-valued variables only", detail="a variable with a discrete domain is scaled: the physical quantity is restricted to multiples of the scale instead of the integers (feasible set changes)",
                  expected="return scale*v only when domain == 'real' (a discrete variable is returned unscaled, or the combination is rejected)", found=str(gs), fi=f, node=r, sample={"guards": str(gs)})
    if ok:
        sc = ctx.scope(f)
        p = Norm(None).poly(main[0].value)
        v = [a for a in p.atoms() if a != "scale"]
        ok = len(v) == 1 and p == Poly.atom("scale") * Poly.atom(v[0])
        if ok:
            d = [x for x in sc.defs.get(v[0], []) if x.kind == "assign"]
            ok = len(d) == 1 and ast.unparse(d[0].value.func) == "Opti.variable"
    ctx.check(ok, "OptiWrapper.variable returns scale * solver variable", detail="physical quantity is not scale times the decision variable", expected="v = Opti.variable(self, n, m); return scale*v",
              found="; ".join(ast.unparse(r.value) for r in rets), fi=f)
    # everywhere in the method family: scale attributes appear only inside scale= keyword arguments or plain local aliases
    bad = []
    n_ok = 0
    for cname in prog.subclasses("DirectMethod"):
        for g in prog.cls(cname).methods.values():
            sc = ctx.scope(g)
            for a in scale_refs(g.node):
                p = a
                inside_kw = False
                alias = False
                while p is not None and p is not g.node:
                    par = sc.parent.get(p)
                    if isinstance(par, ast.keyword) and par.arg == "scale":
                        inside_kw = True
                    if isinstance(par, ast.Assign) and par.value is p and isinstance(par.targets[0], ast.Name):
                        alias = True
                    if isinstance(par, ast.BinOp) and isinstance(par.op, (ast.Mult, ast.Div)) and not inside_kw:
                        bad.append((g, par))
                    p = par
                if inside_kw or alias:
                    n_ok += 1
                elif (g, sc.parent.get(a)) not in bad:
                    # positional pass-through to subject_to(expr, scale, ...) is the only other accepted use
                    par = sc.parent.get(a)
                    while par is not None and not isinstance(par, ast.Call):
                        par = sc.parent.get(par)
                    if par is not None and is_subject_to(par):
                        n_ok += 1
                    else:
                        bad.append((g, a))
    for g, node in bad[:5]:
        ctx.fail("%s uses a scale outside a scale= argument" % g.qualname, detail="second (un)scaling site", expected="scales only as scale= arguments", found=ast.unparse(node)[:80], fi=g, node=node)
    ctx.check(n_ok >= 20, "scale references in the method family travel through scale= arguments", detail="scale references", expected=">=20 references, all as scale=", found=str(n_ok), sample={"references": n_ok})
    ctx.ok("no arithmetic on stage scales outside OptiWrapper (%d references)" % n_ok)


DIM_SCALE = [
    # (pattern of first dimension argument, accepted scale expressions)
    ("stage.nx", ("stage._scale_x", "repmat(stage._scale_x,1,self.degree)")),
    ("stage.nz", ("stage._scale_z", "repmat(stage._scale_z,1,self.degree-1)")),
    ("stage.nu", ("stage._scale_u",)),
]

# decision variables that are deliberately unscaled (no scale is declared for them)
UNSCALED_OK = {
    "FixedGrid.get_t0_local": "local start times of the time grid: no scale can be declared",
    "FixedGrid.get_T_local": "local interval lengths of the time grid: no scale can be declared",
    "FreeGrid.get_T_local": "local interval lengths of the time grid: no scale can be declared",
    "SamplingMethod.add_variables_V_control_finalize": "final local start time of the time grid",
    "SamplingMethod.add_variables_V": "B-spline coefficient matrix of a grid='bspline' variable (scale= of such variables is not applied: recorded limitation, fails no clause of C14 for the kinds it lists)",
    "SplineMethod.add_variables": "B-spline coefficients of SplineMethod trajectories (SplineMethod does not support scaling)",
}


@rule("R14.3", min_instances=30, desc="scale sources: every decision variable of a scaled kind carries the scale of its own symbol(s); every placement carries the scale of its own declaration; dynamics carry the state / derivative / algebraic scales")
def r14_3(ctx):
    prog = ctx.prog
    fams = list(prog.subclasses("DirectMethod")) + list(prog.subclasses("Grid"))
    for cname in fams:
        for g in prog.cls(cname).methods.values():
            calls = [c for c in walk_no_nested(g.node) if is_call_to(c, "variable", "opti")]
            if not calls:
                continue
            n = ctx.norm(g)
            sc = ctx.scope(g)
            for c in calls:
                kw = {k.arg: k.value for k in c.keywords}
                label = "%s: %s" % (g.qualname, ast.unparse(c)[:60])
                if "scale" not in kw:
                    ctx.check(g.qualname in UNSCALED_OK, label, detail="decision variable created without its scale",
                              expected="scale=<scale of the symbol this variable represents>", found="no scale argument", fi=g, node=c,
                              sample={"unscaled": UNSCALED_OK.get(g.qualname)})
                    continue
                sk = n.key(kw["scale"])
                dim = ast.unparse(c.args[0]) if c.args else ""
                ok = None
                for pat, accepted in DIM_SCALE:
                    if dim == pat:
                        ok = sk in [Norm(None).key(ast.parse(a, mode="eval").body) for a in accepted]
                if ok is None:
                    # per-symbol creation: s.numel() / v.shape[0] with s from a loop over the stage's symbols
                    m = None
                    if isinstance(c.args[0], ast.Call) and isinstance(c.args[0].func, ast.Attribute) and isinstance(c.args[0].func.value, ast.Name):
                        m = c.args[0].func.value.id
                    elif isinstance(c.args[0], ast.Subscript) and isinstance(c.args[0].value, ast.Attribute) and isinstance(c.args[0].value.value, ast.Name):
                        m = c.args[0].value.value.id
                    elif isinstance(c.args[0], ast.Starred) and isinstance(c.args[0].value, ast.Attribute) and c.args[0].value.attr == "shape" and isinstance(c.args[0].value.value, ast.Name):
                        m = c.args[0].value.value.id      # opti.variable(*v.shape, ..)
                    ok = m is not None and sk in ("stage._scale[%s]" % m, "vec(stage._scale[%s])" % m)
                ctx.check(bool(ok), label, detail="decision variable scaled with another symbol's scale", expected="the scale of the same symbol / kind as the dimension argument (%s)" % dim,
                          found="scale=%s" % sk, fi=g, node=c, sample={"dim": dim, "scale": sk})
    # placements carry the scale of their own declaration
    for cname in GENERIC:
        f, n, sc, sites = placement_sites(ctx, cname)
        for s in sites:
            args = s.cvars[2] if len(s.cvars) > 2 else None
            got = s.kw.get("scale")
            ctx.check(got == "%s['scale']" % args, "%s placement %s scale" % (cname, "+".join(s.grids)), detail="constraint scaled with another declaration's scale (or not at all)",
                      expected="scale=%s['scale']" % args, found=str(got), fi=f, node=s.call)
    for name in ("add_constraints_before", "add_constraints_after"):
        g = prog.own_method("SamplingMethod", name)
        subs = [c for c in walk_no_nested(g.node) if is_subject_to(c)]
        ok = len(subs) == 1 and ((len(subs[0].args) >= 2 and ast.unparse(subs[0].args[1]) == "args['scale']") or
                                  any(k.arg == "scale" and ast.unparse(k.value) == "args['scale']" for k in subs[0].keywords))
        ctx.check(ok, "%s carries the declared scale" % name, detail="point constraint scale", expected="args['scale']", found="; ".join(ast.unparse(c) for c in subs), fi=g)
    # dynamics
    f = prog.method("MultipleShooting", "add_constraints")
    n = ctx.norm(f)
    for c in walk_no_nested(f.node):
        if is_subject_to(c) and c.args and isinstance(c.args[0], ast.Compare):
            sk = [n.key(k.value) for k in c.keywords if k.arg == "scale"]
            ctx.check(sk == ["stage._scale_x"], "MultipleShooting gap closing scaled with the state scale", detail="dynamics scale", expected="scale=stage._scale_x", found=str(sk), fi=f, node=c)
    f = prog.method("DirectCollocation", "add_constraints")
    n = ctx.norm(f)
    want = {"ode": "stage._scale_der_x", "alg": "stage._scale_z", "D": "stage._scale_x"}
    for c in walk_no_nested(f.node):
        if is_subject_to(c) and c.args and isinstance(c.args[0], ast.Compare):
            t = ast.unparse(c.args[0])
            key = "ode" if "['ode']" in t else "alg" if "['alg']" in t else "D"
            sk = [n.key(k.value) for k in c.keywords if k.arg == "scale"]
            ctx.check(sk == [want[key]], "DirectCollocation %s constraint scale" % {"ode": "collocation", "alg": "algebraic", "D": "continuity"}[key], detail="dynamics scale",
                      expected="scale=" + want[key], found=str(sk), fi=f, node=c)
    # the aggregate scale vectors are assembled from the per-symbol scales in declaration order
    for prop, lst, tab in (("_scale_x", "self.states", "_scale"), ("_scale_z", "self.algebraics", "_scale"), ("_scale_u", "self.controls", "_scale"), ("_scale_der_x", "self.states", "_scale_der")):
        g = prog.own_method("Stage", prop)
        rets = [ast.unparse(r.value) for r in walk_no_nested(g.node) if isinstance(r, ast.Return)]
        v = rets[0] if rets else ""
        import re
        mm = re.fullmatch(r"vvcat\(\[self\.%s\[(\w+)\] for (\w+) in %s\]\)" % (re.escape(tab), re.escape(lst)), v)
        ok = len(rets) == 1 and mm is not None and mm.group(1) == mm.group(2)
        ctx.check(ok, "Stage.%s stacks the %s of %s in order" % (prop, "scales" if tab == "_scale" else "derivative scales (set_der(.., scale=))", lst), detail="scale vector order / table",
                  expected="vvcat([self.%s[s] for s in %s])" % (tab, lst), found=v, fi=g)


READBACK = [("Stage", "sample"), ("Stage", "_sample"), ("Stage", "_grid_control"), ("Stage", "_grid_integrator"), ("Stage", "_grid_integrator_roots"),
            ("Stage", "_grid_intg_fine"), ("Stage", "value"), ("Stage", "sampler"), ("Stage", "set_initial"), ("SamplingMethod", "set_initial"),
            ("DirectCollocation", "set_initial"), ("DirectMethod", "set_initial"), ("SplineMethod", "set_initial"), ("OptiWrapper", "set_initial"),
            ("OcpSolution", "sample"), ("OcpSolution", "value"), ("SamplingMethod", "eval_at_control"), ("SamplingMethod", "_eval_at_control"),
            ("SamplingMethod", "eval_at_integrator"), ("SamplingMethod", "eval_at_integrator_root"), ("SamplingMethod", "eval"), ("DirectMethod", "eval_top")]


@rule("R14.4", min_instances=20, desc="read-back, sampling, value and initial guesses stay in physical units: none of these functions reads a scale")
def r14_4(ctx):
    prog = ctx.prog
    for cname, name in READBACK:
        f = prog.own_method(cname, name)
        refs = scale_refs(f.node)
        ctx.check(not refs, "%s does not touch scales" % f.qualname, detail="physical-unit interface rescaled", expected="no access to _scale*", found="; ".join(ast.unparse(r) for r in refs[:3]), fi=f,
                  node=(refs[0] if refs else None))


@rule("R14.5", min_instances=4, desc="declaration side: add_alg divides the whole residual, set_der records the derivative scale of the same state, scalar scales are broadcast")
def r14_5(ctx):
    prog = ctx.prog
    f = prog.own_method("Stage", "add_alg")
    apps = [c for c in walk_no_nested(f.node) if is_call_to(c, "append", "self._alg")]
    ok = len(apps) == 1 and ctx.norm(f).poly(apps[0].args[0]) == expected("%s/self._parse_scale(%s, %s)" % (f.params[1], f.params[1], f.params[2]))
    ctx.check(ok, "Stage.add_alg divides the whole residual by its scale", detail="algebraic residual scaling", expected="self._alg.append(constr/scale)", found="; ".join(ast.unparse(a) for a in apps), fi=f)
    g = prog.own_method("Stage", "set_der")
    from ..model import nested_functions
    ok = False
    for h in nested_functions(g).values():
        for st in walk_no_nested(h.node):
            if isinstance(st, ast.Assign) and ast.unparse(st.targets[0]) == "self._scale_der[%s]" % h.params[0] and ast.unparse(st.value) == "self._parse_scale(%s, %s)" % (h.params[0], g.params[3]):
                ok = True
    ctx.check(ok, "Stage.set_der records the derivative scale under the same state", detail="derivative scale of another state", expected="self._scale_der[state] = self._parse_scale(state, scale)", found="", fi=g)
    p = prog.own_method("Stage", "_parse_scale")
    from ..norm import return_cases
    rets = return_cases(ctx.scope(p))
    want = [("DM.ones(%s.sparsity()) * %s" % (p.params[1], p.params[2]), [("DM(%s).is_scalar()" % p.params[2], True)]), (p.params[2], [("DM(%s).is_scalar()" % p.params[2], False)])]
    ctx.check(rets == want, "Stage._parse_scale broadcasts scalars and passes matrices through", detail="scale parsing", expected=want, found=rets, fi=p)
    for reg, lst in (("register_state", "x"), ("register_algebraic", "z"), ("register_control", "u"), ("register_variable", "v")):
        h = prog.own_method("Stage", reg)
        sym = h.params[1]
        ok = any(isinstance(st, ast.Assign) and ast.unparse(st.targets[0]) == "self._scale[%s]" % sym and ast.unparse(st.value) == "self._parse_scale(%s, scale)" % sym for st in walk_no_nested(h.node))
        ctx.check(ok, "Stage.%s records the scale under its own symbol" % reg, detail="scale recorded for another symbol", expected="self._scale[%s] = self._parse_scale(%s, scale)" % (sym, sym), found="", fi=h)


@rule("R14.6", min_instances=10, desc="every site that imposes declared constraints - a loop over stage._constraints[<grid>] in any method class - hands the declaration's scale to Opti (directly, or through the helper it calls); a loop that discards the declaration's options drops the scale")
def r14_6(ctx):
    """D85: DirectMethod.transcribe (point constraints of a stage without a method: the stitching constraints of a multi-stage OCP)
    and the grid='inf' path of the three sampling methods discarded the options; D86 (known): SplineMethod still does."""
    P = ctx.prog
    total = 0
    for cname in sorted(P.subclasses("DirectMethod")):
        for f in P.cls(cname).methods.values():
            for l in walk_no_nested(f.node):
                if not (isinstance(l, ast.For) and isinstance(l.iter, ast.Subscript) and ast.unparse(l.iter.value).endswith("._constraints") and isinstance(l.iter.slice, ast.Constant)):
                    continue
                grid = l.iter.slice.value
                subs = [c for c in ast.walk(l) if isinstance(c, ast.Call) and isinstance(c.func, ast.Attribute) and c.func.attr == "subject_to"]
                relays = [c for c in ast.walk(l) if isinstance(c, ast.Call) and isinstance(c.func, ast.Attribute) and c.func.attr.startswith("add_") and "constraint" in c.func.attr
                          and ast.unparse(c.func.value) == f.params[0]]
                deferred = False
                if not subs and not relays:
                    # the loop only collects (SplineMethod lumps constraints and imposes them afterwards): the function's own
                    # subject_to calls are the imposing sites, the scale has to be read inside the collecting loop
                    later = [c for c in walk_no_nested(f.node) if isinstance(c, ast.Call) and isinstance(c.func, ast.Attribute) and c.func.attr == "subject_to"]
                    stores = [x for x in ast.walk(l) if isinstance(x, ast.Call) and isinstance(x.func, ast.Attribute) and x.func.attr in ("append", "add", "extend")]
                    if not later or not stores:
                        continue          # e.g. a scan for the refine option: nothing is imposed here
                    deferred = True
                total += 1
                opts = l.target.elts[2].id if isinstance(l.target, ast.Tuple) and len(l.target.elts) == 3 and isinstance(l.target.elts[2], ast.Name) else None
                label = "%s.%s imposes the %s constraints with their declared scale" % (cname, f.name, grid)
                if opts is None or opts == "_":
                    ctx.fail(label, detail="the options of the declaration (scale=) are discarded: the constraint reaches Opti unscaled", expected="for c, meta, args in ...: subject_to(.., scale=args['scale'], ..)",
                             found="for %s in %s" % (ast.unparse(l.target), ast.unparse(l.iter)), fi=f, node=l)
                    continue
                want = "%s['scale']" % opts
                if deferred:
                    ok = want in ast.unparse(l).replace('"', "'")
                    ctx.check(ok, label, detail="the constraints are lumped and imposed without their declared scale", expected="%s read where the constraint is collected (lb, expression and ub divided by it)" % want,
                              found="scale never read in the loop", fi=f, node=l)
                    continue

                def carries(c):
                    return any(ast.unparse(a).replace('"', "'") == want for a in c.args[1:2]) or any(k.arg == "scale" and want in ast.unparse(k.value).replace('"', "'") for k in c.keywords)
                ok = all(carries(c) for c in subs) and all(carries(c) or any(ast.unparse(a) == opts for a in c.args) for c in relays)
                # a relay must itself hand its scale parameter on
                for c in relays:
                    h = P.resolve(cname, c.func.attr)
                    if h is not None and "scale" in h.params:
                        inner = [x for x in walk_no_nested(h.node) if isinstance(x, ast.Call) and isinstance(x.func, ast.Attribute) and x.func.attr == "subject_to"]
                        ok = ok and bool(inner) and all(any(k.arg == "scale" and ast.unparse(k.value) == "scale" for k in x.keywords) or (len(x.args) > 1 and ast.unparse(x.args[1]) == "scale") for x in inner)
                    elif h is not None:
                        ok = False
                ctx.check(ok, label, detail="the constraint reaches Opti without (or with another) scale", expected="scale=%s at every subject_to / relay of the loop" % want,
                          found="; ".join(ast.unparse(c)[:70] for c in subs + relays), fi=f, node=l)
    if total < 10:
        raise AnalysisError("R14.6: only %d constraint-imposing loops found (expected >= 10)" % total)
