"""C05 -- the NLP objective is the sum of the declared Mayer, sum and integral terms.

Decided: every placeholder species has a handler on every method that dispatches (R05.1), the
shapes of the handlers (first/last node, sum over N nodes [+ final], left interval-length-weighted
sum, quadrature state at tf) (R05.2), the quadrature accumulation of each method (R05.3), the
assembly and hand-over of the objective to the solver (R05.4), accumulation of declared terms (R05.5).
Not decided: equality of sol.value(objective) with the solver's cost in numbers.
"""
import ast

from ..core import rule
from ..model import AnalysisError, nested_functions
from ..norm import Norm, expected, list_events
from ..poly import Poly
from ..paths import walk_no_nested, const_guard
from ..loops import loop_context, loop_var, classify_iter
from ..effects import is_call_to
from .c03 import check_integral_handler

LEVEL = "other"


def species_literals(ctx):
    out = {}
    for f in ctx.prog.cls("Stage").methods.values():
        for c in walk_no_nested(f.node):
            if is_call_to(c, "_create_placeholder_expr", "self") and len(c.args) >= 2:
                # the species is a literal or a choice between literals (conditional expression)
                leaves, work = [], [c.args[1]]
                while work:
                    e = work.pop()
                    if isinstance(e, ast.IfExp):
                        work += [e.body, e.orelse]
                    elif isinstance(e, ast.Constant) and isinstance(e.value, str):
                        leaves.append(e.value)
                for v in leaves:
                    out.setdefault(v, []).append((f, c))
    return out


@rule("R05.1", min_instances=40, desc="every placeholder species created by Stage has a fill_placeholders_<species> handler on every method whose transcribe_placeholders dispatches")
def r05_1(ctx):
    prog = ctx.prog
    sp = species_literals(ctx)
    ctx.note("species", sorted(sp))
    if len(sp) < 9:
        raise AnalysisError("only %d placeholder species found in Stage" % len(sp))
    d = prog.own_method("Stage", "_transcribe_placeholders")
    disp = [c for c in walk_no_nested(d.node) if isinstance(c, ast.Call) and isinstance(c.func, ast.Name) and c.func.id == "getattr" and len(c.args) == 2
            and isinstance(c.args[1], ast.BinOp) and isinstance(c.args[1].left, ast.Constant) and c.args[1].left.value == "fill_placeholders_"]
    ctx.check(len(disp) == 1 and ast.unparse(disp[0].args[0]) == d.params[2], "placeholder dispatch by species name", detail="dispatch", expected="getattr(method, 'fill_placeholders_' + species)", found=str(len(disp)), fi=d)
    for cname in prog.subclasses("SamplingMethod"):
        if cname == "SamplingMethod":
            continue
        tp = prog.method(cname, "transcribe_placeholders")
        dispatches = any(is_call_to(c, "_transcribe_placeholders") for c in walk_no_nested(tp.node))
        if not dispatches:
            continue
        for s in sorted(sp):
            h = prog.resolve(cname, "fill_placeholders_" + s)
            ctx.check(h is not None, "%s handles species '%s'" % (cname, s), detail="declared term has no transcription",
                      expected="fill_placeholders_%s" % s, found="no such method on %s" % cname, fi=sp[s][0][0], sample={"species": s, "handler": h.qualname if h else None})


def phase2_returns(ctx, f):
    sc = ctx.scope(f)
    rets = [r for r in walk_no_nested(f.node) if isinstance(r, ast.Return)]
    live = []
    # statements after an unconditional return are dead
    dead_after = None
    for st in f.node.body:
        if dead_after is not None:
            continue
        if isinstance(st, ast.Return):
            dead_after = st
    for r in rets:
        st = sc.stmt_of(r)
        top = st
        while sc.block_of.get(top, (None,))[0] is not f.node:
            top = sc.stmt_of(sc.block_of[top][0])
        if dead_after is not None and sc.order[top] > sc.order[dead_after]:
            continue
        gs = sc.guards(r)
        ph1 = any(const_guard(t, {"phase": 1}) is True and p for t, p in gs)
        live.append((r, ph1))
    return live


@rule("R05.2", min_instances=8, desc="handler shapes: at_t0/at_tf at the first/last node, sum over the N interval-start nodes (+ final node), integral(grid='control') as the left interval-length-weighted sum")
def r05_2(ctx):
    prog = ctx.prog
    for name, node in (("fill_placeholders_at_t0", "0"), ("fill_placeholders_at_tf", "-1")):
        f = prog.own_method("SamplingMethod", name)
        live = [r for r, ph1 in phase2_returns(ctx, f) if not ph1 and r.value is not None]
        ok = len(live) == 1 and Norm(None).key(live[0].value) == "self.eval_at_control(%s,%s,%s)" % (f.params[2], f.params[3], node)
        ctx.check(ok, "%s evaluates at node %s" % (name, node), detail="boundary term evaluated at another node", expected="self.eval_at_control(stage, expr, %s)" % node,
                  found="; ".join(ast.unparse(r.value) for r in live), fi=f, sample={"handler": name})
    # the two sum handlers are *run* on a small scenario (N = 3, eval_at_control(stage, expr, k) -> token e(k)): the value returned in
    # phase 2 must be 0 + e(0) + e(1) + e(2) (+ e(-1)), whatever loop / reduce / sum form computes it
    from ..sim import Sim, fresh_obj
    from ..layout import Sym, LayoutUnknown
    for name, want_kind in (("fill_placeholders_sum_control", "N"), ("fill_placeholders_sum_control_plus", "N+final")):
        f = prog.own_method("SamplingMethod", name)
        want_nodes = [0, 1, 2] + ([-1] if want_kind == "N+final" else [])
        me = fresh_obj("self", N=3)
        hooks = {".eval_at_control": lambda s_, r, a, k, n_: Sym("e", a[2] if len(a) > 2 else k.get("k"))}
        sim = Sim(prog, hooks=hooks, truth={"phase == 1": False, "phase == 2": True, "phase != 2": False, "phase != 1": True})
        sim.self_class = "SamplingMethod"
        try:
            args = {f.params[1]: 2, f.params[2]: Sym("stage"), f.params[3]: Sym("expr")}
            out = sim.call(f, [me] + [args[p_] for p_ in f.params[1:4]] + [Sym("extra%d" % q) for q in range(len(f.params) - 4)], {})
        except LayoutUnknown as e:
            raise AnalysisError("%s could not be simulated: %s" % (name, e))
        terms, zero = [], []

        def flat(v):
            if isinstance(v, Sym) and v.op == "binop" and v.args[0] == "Add":
                flat(v.args[1]); flat(v.args[2])
            elif isinstance(v, Sym) and v.op == "e":
                terms.append(v.args[0])
            elif v == 0 and not isinstance(v, (Sym, bool)):
                zero.append(v)
            else:
                terms.append("<%s>" % (v,))
        flat(out)
        ok = terms == want_nodes
        ctx.check(ok, "%s sums the node values" % name, detail="sum over the wrong node set", expected="0 + sum of eval_at_control(stage, expr, k) for k in %s" % want_nodes,
                  found="terms at nodes %s" % terms, fi=f, sample={"handler": name, "nodes": want_kind})
    f = prog.own_method("SamplingMethod", "fill_placeholders_integral_control")
    n = ctx.norm(f)
    live = [r for r, ph1 in phase2_returns(ctx, f) if not ph1 and r.value is not None]
    ok = len(live) == 1
    found = "; ".join(ast.unparse(r.value) for r in live)
    if ok:
        v = live[0].value
        sc = ctx.scope(f)
        smp = [c for c in walk_no_nested(f.node) if is_call_to(c, "_sample", "stage")]
        ok = len(smp) >= 1 and any(kw.arg == "grid" and isinstance(kw.value, ast.Constant) and kw.value.value == "control" for kw in smp[0].keywords) and ast.unparse(smp[0].args[0]) == f.params[3]
        st = sc.stmt_of(smp[0]) if smp else None
        names = [e.id for e in st.targets[0].elts] if st is not None and isinstance(st, ast.Assign) and isinstance(st.targets[0], (ast.List, ast.Tuple)) else [None, None]
        ts, ex = names
        # the weighted left sum over nodes 0..N-1, with the interval lengths as a COLUMN whatever the orientation of the time grid
        # (D96: diff(ts).T * exprs pairs a row-vector grid with the components of a vector integrand instead of with the nodes)
        want = {Norm(None).key(ast.parse(t % {"ts": ts, "ex": ex}, mode="eval").body) for t in
                ("ca.mtimes(%(ex)s[:,:-1], ca.diff(ca.vec(%(ts)s)))", "mtimes(%(ex)s[:,:-1], ca.diff(ca.vec(%(ts)s)))", "%(ex)s[:,:-1] @ ca.diff(ca.vec(%(ts)s))", "ca.mtimes(%(ex)s[:,:-1], ca.diff(vec(%(ts)s)))")}
        ok = ok and Norm(None).key(v) in want
    ctx.check(ok, "fill_placeholders_integral_control is the left sum weighted with the interval lengths", detail="integral(grid='control') rule",
              expected="sum_k (t_{k+1}-t_k) * expr(node k), k=0..N-1, from the control-grid samples", found=found, fi=f, sample={"rule": found})
    g = prog.own_method("Stage", "sum")
    from ..norm import return_cases
    rets = [(v, [(t, p) for t, p in gs if "include_last" in t]) for v, gs in return_cases(ctx.scope(g))]
    want = sorted([("self._create_placeholder_expr(%s, 'sum_control_plus')" % g.params[1], [("include_last", True)]),
                   ("self._create_placeholder_expr(%s, 'sum_control')" % g.params[1], [("include_last", False)])])
    ctx.check(sorted(rets) == want, "Stage.sum species by include_last", detail="species selection", expected=want, found=sorted(rets), fi=g)
    for name, sp in (("at_t0", "at_t0"), ("at_tf", "at_tf")):
        h = prog.own_method("Stage", name)
        rets = [ast.unparse(r.value) for r in walk_no_nested(h.node) if isinstance(r, ast.Return)]
        ctx.check(rets == ["self._create_placeholder_expr(%s, '%s')" % (h.params[1], sp)], "Stage.%s species" % name, detail="species", expected=sp, found=rets, fi=h)


@rule("R05.3", min_instances=10, desc="quadrature accumulation: shooting adds each interval's qf once and stores Q[k+1]; collocation adds quad*dt*B[j] per collocation time")
def r05_3(ctx):
    prog = ctx.prog
    for cname in ("MultipleShooting", "SingleShooting"):
        f = prog.method(cname, "add_constraints")
        sc = ctx.scope(f)
        n = ctx.norm(f)
        accs = [st for st in walk_no_nested(f.node) if isinstance(st, ast.Assign) and ast.unparse(st.targets[0]) == "self.q" and "self.q" in ast.unparse(st.value)]
        ok = len(accs) == 1
        found = "; ".join(ast.unparse(a) for a in accs)
        if ok:
            a = accs[0]
            lc = loop_context(sc, n, a)
            kv = loop_var(lc, "N")
            p = Norm(None).poly(a.value)
            ok = [li.kind for li in lc] == ["N"] and not sc.guards(a)
            terms = [t for t in p.atoms() if t != "self.q"]
            ok = ok and len(terms) == 1 and p == Poly.atom("self.q") + Poly.atom(terms[0]) and terms[0].endswith("['qf']")
            # the FF is the call of the same iteration
            if ok:
                nm = terms[0].split("[")[0]
                base = [x for x in ast.walk(a.value) if isinstance(x, ast.Name) and x.id == nm]
                v = sc.reaching(nm, base[0]) if base else None
                ok = v is not None and isinstance(v, ast.Call) and {"x0", "T"} <= {kw.arg for kw in v.keywords} and sc.within(v, lc[0].owner)
            stores = [st for st in walk_no_nested(f.node) if isinstance(st, ast.Assign) and isinstance(st.targets[0], ast.Subscript) and ast.unparse(st.targets[0].value) == "self.Q"]
            ok = ok and len(stores) == 1 and n.poly(stores[0].targets[0].slice) == Poly.atom(kv) + 1 and ast.unparse(stores[0].value) == "self.q" \
                and sc.order[stores[0]] > sc.order[a] and sc.within(stores[0], lc[0].owner) and not sc.guards(stores[0])
        ctx.check(ok, "%s quadrature accumulation" % cname, detail="running integral is not the sum of the interval quadratures",
                  expected="per k: self.q = self.q + FF_k['qf']; self.Q[k+1] = self.q", found=found, fi=f, sample={"acc": found})
        inits = [st for st in walk_no_nested(f.node) if isinstance(st, ast.Assign) and ast.unparse(st.targets[0]) == "self.q" and "self.q" not in ast.unparse(st.value)]
        ok = len(inits) == 1 and not sc.enclosing_loops(inits[0]) and (ast.unparse(inits[0].value) == "0" or "zeros" in ast.unparse(inits[0].value))
        ctx.check(ok, "%s quadrature starts at zero" % cname, detail="initial value of the running integral", expected="self.q = 0 before the loop", found="; ".join(ast.unparse(i) for i in inits), fi=f)
        # xqk: intermediate quadratures offset by the running integral of the previous intervals
        ext = [c for c in walk_no_nested(f.node) if is_call_to(c, "extend", "self.xqk")]
        ok = len(ext) == 1
        if ok:
            arg = ext[0].args[0]
            ok = isinstance(arg, ast.ListComp) and classify_iter(arg.generators[0].iter, n)[0] == "M"
            if ok:
                iv = arg.generators[0].target.id
                e = arg.elt
                src = n.poly(e.value) if isinstance(e, ast.Subscript) else None
                ok = isinstance(e, ast.Subscript) and ast.unparse(e.slice).replace(" ", "").strip("()") == ":,%s" % iv and src is not None and \
                    "self.q" in src.atoms() and any(a.endswith("['Qi']") for a in src.atoms()) and sc.order[ext[0]] < sc.order[accs[0]] if accs else False
        ctx.check(ok, "%s intermediate quadratures" % cname, detail="integrator-point quadrature values", expected="xqk.extend([(self.q + FF['Qi'])[:, i] for i in range(M)]) before self.q is advanced",
                  found="; ".join(ast.unparse(c) for c in ext), fi=f)
    f = prog.own_method("DirectCollocation", "add_constraints")
    sc = ctx.scope(f)
    n = ctx.norm(f)
    accs = [st for st in walk_no_nested(f.node) if isinstance(st, ast.Assign) and ast.unparse(st.targets[0]) == "self.q" and "self.q" in ast.unparse(st.value)]
    ok = len(accs) == 1
    found = "; ".join(ast.unparse(a) for a in accs)
    if ok:
        a = accs[0]
        lc = loop_context(sc, n, a)
        ok = [li.kind for li in lc] == ["N", "M", "d"] and not sc.guards(a)
        if ok:
            k, i, j = lc[0].var, lc[1].var, lc[2].var
            p = n.poly(a.value)
            rest = p - Poly.atom("self.q")
            bj = "self.B[%s]" % j
            coef = rest.coeff(bj)
            quad = [t for t in coef.atoms() if t.endswith("['quad']")]
            ok = (rest - coef * Poly.atom(bj)).is_zero() and len(quad) == 1
            if ok:
                step = coef.coeff(quad[0])
                from .c02 import resolve_dt, step_of
                okstep = step == step_of(k)
                if not okstep:
                    key = step.is_single_atom()
                    at = n.table.get(key) if key else None
                    if at is not None:
                        okstep = resolve_dt(ctx, f, sc, n, at.node, k) == step_of(k)
                ok = okstep
                # res is the model evaluation of the same (k,i,j)
                nm = quad[0].split("[")[0]
                ok = ok and nm.startswith("stage._ode()(")
    ctx.check(ok, "DirectCollocation quadrature accumulation", detail="integral is not the collocation quadrature sum_j B_j*quad(t_j)*dt_k",
              expected="per (k,i,j): self.q = self.q + res['quad']*dt_k*self.B[j]", found=found, fi=f, sample={"acc": found})
    stores = [st for st in walk_no_nested(f.node) if isinstance(st, ast.Assign) and isinstance(st.targets[0], ast.Subscript) and ast.unparse(st.targets[0].value) == "self.Q"]
    ok = len(stores) == 1 and accs
    if ok:
        lc = loop_context(sc, n, stores[0])
        kv = loop_var(lc, "N")
        ok = [li.kind for li in lc] == ["N"] and n.poly(stores[0].targets[0].slice) == Poly.atom(kv) + 1 and ast.unparse(stores[0].value) == "self.q" and sc.order[stores[0]] > sc.order[accs[0]]
    ctx.check(ok, "DirectCollocation Q[k+1] = running integral after interval k", detail="node quadrature", expected="self.Q[k+1] = self.q after the (i,j) loops of k", found="; ".join(ast.unparse(s) for s in stores), fi=f)
    apps = [c for c in walk_no_nested(f.node) if is_call_to(c, "append", "self.xqk")]
    inner = [c for c in apps if sc.enclosing_loops(c)]
    ok = len(inner) == 1 and [li.kind for li in loop_context(sc, n, inner[0])] == ["N", "M"] and ast.unparse(inner[0].args[0]) == "self.q" and accs and sc.order[inner[0]] > sc.order[accs[0]]
    ctx.check(ok, "DirectCollocation xqk: one entry per integration interval, after its quadrature", detail="integrator-point quadrature values", expected="self.xqk.append(self.q) once per (k,i) after the j loop",
              found="; ".join(ast.unparse(c) for c in apps), fi=f)
    # the node lists start with a zero integral
    for cname in ("MultipleShooting", "SingleShooting", "DirectCollocation"):
        g = prog.method(cname, "add_variables")
        first = [c for c in walk_no_nested(g.node) if is_call_to(c, "append", "self.Q")]
        scg = ctx.scope(g)
        top = [c for c in first if not scg.enclosing_loops(c)]
        ok = len(top) == 1 and "zeros" in ast.unparse(top[0].args[0]) and len(first) == 2
        ctx.check(ok, "%s Q[0] = 0 and one slot per node" % cname, detail="quadrature at t0", expected="self.Q.append(DM.zeros(nxq)); one None per interval", found="; ".join(ast.unparse(c.args[0]) for c in first), fi=g)


@rule("R05.4", min_instances=7, desc="assembly: each stage adds eval(objective) once, OptiWrapper accumulates with +, and the accumulated objective is what Opti.minimize receives")
def r05_4(ctx):
    prog = ctx.prog
    f = prog.own_method("SamplingMethod", "add_objective")
    calls = [c for c in walk_no_nested(f.node) if is_call_to(c, "add_objective", "opti")]
    ok = len(calls) == 1 and Norm(None).key(calls[0].args[0]) == "self.eval(stage,stage._objective)"
    ctx.check(ok, "SamplingMethod.add_objective hands over the stage's declared objective", detail="objective of the stage", expected="opti.add_objective(self.eval(stage, stage._objective))",
              found="; ".join(ast.unparse(c) for c in calls), fi=f)
    t = prog.own_method("SamplingMethod", "transcribe")
    sc = ctx.scope(t)
    # on the phase-1 path exactly one call, outside loops; on every other phase none (whatever way the phases are told apart)
    from ..ceval import calls_on_path, Unknown
    ph = t.params[2] if len(t.params) > 2 else "phase"
    try:
        per_phase = {v: [(c, lp) for c, lp in calls_on_path(t.node, {ph: v}) if is_call_to(c, "add_objective", "self")] for v in (0, 1, 2, 3)}
    except Unknown as e:
        raise AnalysisError("SamplingMethod.transcribe: phases not decidable: %s" % e)
    calls = [c for c, lp in per_phase[1]]
    ok = len(per_phase[1]) == 1 and not per_phase[1][0][1] and not per_phase[0] and not per_phase[2] and not per_phase[3]
    ctx.check(ok, "SamplingMethod.transcribe adds the objective exactly once (phase 1)", detail="objective added 0 or several times", expected="self.add_objective(stage, opti) once under phase==1", found=str(len(calls)), fi=t)
    d = prog.own_method("DirectMethod", "transcribe")
    calls = [c for c in walk_no_nested(d.node) if is_call_to(c, "add_objective")]
    ok = len(calls) == 1 and Norm(None).key(calls[0].args[0]) == "self.eval_top(stage,stage._objective)"
    # ... and it is reached whenever phase 1 runs: no condition other than the phase (and the rejections) stands before it
    phd = d.params[2] if len(d.params) > 2 else "phase"
    try:
        on1 = [c for c, lp in calls_on_path(d.node, {phd: 1}) if is_call_to(c, "add_objective")]
        ok = ok and len(on1) == 1
    except Unknown as e:
        ok = False
        calls = []
        ctx.fail("DirectMethod.transcribe reaches the objective on every phase-1 path", detail="whether the parent's objective terms reach the NLP depends on something else than the phase: %s" % e,
                 expected="self.opti.add_objective(...) unconditionally in phase 1", found="undecidable condition before it", fi=d)
    ctx.check(ok, "DirectMethod.transcribe adds the parent's own objective once", detail="parent objective", expected="self.opti.add_objective(self.eval_top(stage, stage._objective))", found="; ".join(ast.unparse(c) for c in calls), fi=d)
    w = prog.own_method("OptiWrapper", "add_objective")
    asg = [st for st in walk_no_nested(w.node) if isinstance(st, ast.Assign) and ast.unparse(st.targets[0]) == "self.objective"]
    ok = len(asg) == 1 and Norm(None).poly(asg[0].value) == Poly.atom("self.objective") + Poly.atom(w.params[1])
    ctx.check(ok, "OptiWrapper.add_objective accumulates with +", detail="objective of another stage overwritten", expected="self.objective = self.objective + expr", found="; ".join(ast.unparse(a) for a in asg), fi=w)
    init = prog.own_method("OptiWrapper", "__init__")
    ok = any(isinstance(st, ast.Assign) and ast.unparse(st.targets[0]) == "self.objective" and ast.unparse(st.value) == "0" for st in walk_no_nested(init.node))
    ctx.check(ok, "OptiWrapper objective starts at 0", detail="initial objective", expected="self.objective = 0", found="", fi=init)
    g = prog.own_method("OptiWrapper", "transcribe_placeholders")
    ng = ctx.norm(g)
    mins = [c for c in walk_no_nested(g.node) if isinstance(c, ast.Call) and ast.unparse(c.func) == "Opti.minimize"]
    ok = len(mins) == 1 and len(mins[0].args) == 2
    found = "; ".join(ast.unparse(c) for c in mins)
    if ok:
        arg = mins[0].args[1]
        # res[n_constr] where res = placeholders(constraints + [objective] + keys), n_constr = len(self.constraints)
        ok = isinstance(arg, ast.Subscript) and isinstance(arg.value, ast.Name)
        if ok:
            sc = ctx.scope(g)
            res = sc.reaching(arg.value.id, arg.value)
            idx = ng.poly(arg.slice)
            ok = res is not None and is_call_to(res, "placeholders") and idx == expected("len(self.constraints)")
            if ok:
                lst = res.args[0]
                parts = []
                def flat(e):
                    if isinstance(e, ast.BinOp) and isinstance(e.op, ast.Add):
                        flat(e.left); flat(e.right)
                    elif isinstance(e, ast.Name) and isinstance(sc.reaching(e.id, e), (ast.ListComp, ast.List, ast.BinOp)):
                        flat(sc.reaching(e.id, e))       # a named piece of the packed list
                    else:
                        parts.append(e)
                flat(lst)
                K = lambda t: Norm(None).key(ast.parse(t, mode="eval").body)
                ok = [Norm(None).key(x) for x in parts] == [K("[c[0] for c in self.constraints]"), K("[self.objective]"), K("self.initial_keys")]
                found += " with res=" + ast.unparse(res)
    ctx.check(ok, "Opti.minimize receives the accumulated objective", detail="packed list unpacked with the wrong offset", expected="res = placeholders(constraints + [objective] + initial_keys); Opti.minimize(self, res[len(constraints)])",
              found=found, fi=g, sample={"minimize": found})
    sc = ctx.scope(g)
    ok = bool(mins) and not sc.guards(mins[0]) and not sc.enclosing_loops(mins[0])
    ctx.check(ok, "Opti.minimize is called unconditionally", detail="objective not handed to the solver", expected="unconditional call", found="", fi=g)


@rule("R05.5", min_instances=3, desc="Stage.add_objective accumulates the declared terms; ocp.objective returns the accumulated expression; integral -> quadrature state at tf")
def r05_5(ctx):
    prog = ctx.prog
    f = prog.own_method("Stage", "add_objective")
    asg = [st for st in walk_no_nested(f.node) if isinstance(st, ast.Assign) and ast.unparse(st.targets[0]) == "self._objective"]
    ok = len(asg) == 1 and Norm(None).poly(asg[0].value) == Poly.atom("self._objective") + Poly.atom(f.params[1]) and not ctx.scope(f).guards(asg[0])
    ctx.check(ok, "Stage.add_objective accumulates with +", detail="earlier terms lost or term rescaled", expected="self._objective = self._objective + term", found="; ".join(ast.unparse(a) for a in asg), fi=f)
    g = prog.own_method("Stage", "objective")
    rets = [ast.unparse(r.value) for r in walk_no_nested(g.node) if isinstance(r, ast.Return)]
    own = [r for r in rets if "self._objective" in r]
    ctx.check(len(rets) == 1 and len(own) == 1, "Stage.objective exposes the accumulated objective", detail="objective accessor", expected="self._objective (+ the sub-stages' objectives)", found=rets, fi=g)
    # the solver minimises the sum over the whole stage tree (each stage's add_objective lands in the one Opti, R05.4);
    # the accessor that sol.value(ocp.objective) evaluates must cover the same terms
    subs = any("_stages" in ast.unparse(x) for x in ast.walk(g.node))
    ctx.check(subs, "Stage.objective", detail="sub-stage objectives not included: sol.value(ocp.objective) of a multi-stage OCP is not the minimised cost",
              expected="own terms plus the objectives of all sub-stages", found="; ".join(rets), fi=g, sample={"accessor": rets})
    check_integral_handler(ctx)
    # a term added after a solve must reach the next solve (else sol.value(objective) is not the minimised cost)
    from ..paths import must_on_all_paths
    from .c13 import _is_invalidate
    ok, bad = must_on_all_paths(f.node.body, _is_invalidate)
    ctx.check(ok, "Stage.add_objective invalidates the cached transcription", detail="term added after a solve is ignored by the next solve",
              expected="self._set_transcribed(False)", found="missing", fi=f)


@rule("R05.6", min_instances=6, desc="the integral's quadrature uses the stage's own integration rule: same weights/stages for explicit schemes, quad*DT in the CasADi-integrator wrapper")
def r05_6(ctx):
    from .c03 import r03_2
    r03_2(ctx)
    prog = ctx.prog
    f = prog.own_method("SamplingMethod", "intg_builtin")
    n = ctx.norm(f)
    from .c03 import dict_literal
    dnode, data = dict_literal(f, "data", n)
    if data is None:
        raise AnalysisError("intg_builtin: `data = {...}` not found")
    got = Norm(None).poly(data["quad"]) if "quad" in data else None
    ctx.check(got == expected("DT*res['quad']"), "intg_builtin quadrature integrand scaled by the integrator step", detail="integral weighted with another length",
              expected="DT*res['quad']", found=got, fi=f, node=dnode)
    call_out = None
    from .. import algebra as AL
    c, ins, outs, ni, no = AL.function_ctor(f)
    om = dict(zip(no, [ast.unparse(o) for o in outs]))
    ctx.check(om.get("qf") == "res['qf']", "intg_builtin returns the integrator's quadrature", detail="qf", expected="res['qf']", found=om.get("qf"), fi=f)


@rule("R05.7", min_instances=20, desc="running quadratures (layout interpreter, swept over N, M, degree): Q[k+1] and xqk[n] contain exactly the contributions up to their point, for every method")
def r05_7(ctx):
    from .layout_rules import shooting_content, collocation_content
    for cname in ("MultipleShooting", "SingleShooting"):
        shooting_content(ctx, cname)
    collocation_content(ctx)


@rule("R05.8", min_instances=4, desc="objective terms added on a sub-stage after a solve reach the next solve (invalidation flag of the master, shared with C13)")
def r05_8(ctx):
    from .c13 import r13_7
    r13_7(ctx)


@rule("R05.9", min_instances=10, desc="placeholder resolution (TranscribedPlaceholders): phase-2 results override phase-1 results, keys and replacements are paired from the same table in the same order, substitution runs to a fixed point, an ambiguous result raises")
def r05_9(ctx):
    """Every objective term, constraint and sampled expression reaches the NLP through TranscribedPlaceholders.__call__;
    a key paired with the replacement of another key, or a single substitution pass where placeholders nest
    (integral of an expression containing at_tf, ...), silently changes the objective."""
    P = ctx.prog
    call = P.own_method("TranscribedPlaceholders", "__call__")
    sc = ctx.scope(call)
    n = ctx.norm(call)
    # table accessor: phase i -> pool[i-1]; two tables
    gi = P.own_method("TranscribedPlaceholders", "__getitem__")
    rets = [Norm(None).key(r.value) for r in walk_no_nested(gi.node) if isinstance(r, ast.Return)]
    ctx.check(rets == [str(Norm(None).poly(ast.parse("self.pool[%s-1]" % gi.params[1], mode="eval").body))], "placeholder table of phase i is pool[i-1]", detail="phase/table mapping",
              expected="return self.pool[i-1]", found=rets, fi=gi)
    cl = P.own_method("TranscribedPlaceholders", "clear")
    pools = [st for st in walk_no_nested(cl.node) if isinstance(st, ast.Assign) and ast.unparse(st.targets[0]) == "self.pool"]
    ok = len(pools) == 1
    if ok:
        v = pools[0].value
        ok = (isinstance(v, ast.ListComp) and Norm(None).poly(v.generators[0].iter.args[0]) == Poly.const(2) and ast.unparse(v.elt) == "HashDict()") or \
            (isinstance(v, ast.List) and len(v.elts) == 2 and all(ast.unparse(x) == "HashDict()" for x in v.elts))
    ctx.check(ok, "clear() resets both phase tables to fresh, separate containers", detail="tables shared or not reset", expected="self.pool = [HashDict() for i in range(2)]", found="; ".join(ast.unparse(s) for s in pools), fi=cl)
    # select(): single entry, else preference, else raise
    sel = [f for f in nested_functions(call).values() if f.name == "select"]
    ok = len(sel) == 1
    if ok:
        s = sel[0]
        v = s.params[0]
        from ..paths import must_on_all_paths
        rets = [r for r in walk_no_nested(s.node) if isinstance(r, ast.Return)]
        raises = [r for r in walk_no_nested(s.node) if isinstance(r, ast.Raise)]
        last = s.node.body[-1]
        ok = isinstance(last, ast.Raise) and len(rets) == 2
        scs = ctx.scope(s)
        singles = [r for r in rets if any(Norm(None).key(t) == Norm(None).key(ast.parse("len(%s)==1" % v, mode="eval").body) and p for t, p in scs.guards(r))]
        prefs = [r for r in rets if any(isinstance(t, ast.Compare) and isinstance(t.ops[0], ast.In) and ast.unparse(t.comparators[0]) == "preference" and p for t, p in scs.guards(r))]
        ok = ok and len(singles) == 1 and len(prefs) == 1 and singles[0] is not prefs[0]
        if ok:
            pl = scs.enclosing_loops(prefs[0])
            ok = len(pl) == 1 and ast.unparse(pl[0][1]) == "%s.items()" % v and isinstance(pl[0][0], ast.Tuple) and ast.unparse(prefs[0].value) == ast.unparse(pl[0][0].elts[1]) \
                and ast.unparse([t for t, p in scs.guards(prefs[0])][-1].left) == ast.unparse(pl[0][0].elts[0])
            sv = singles[0].value
            ok = ok and Norm(None).key(sv) in (Norm(None).key(ast.parse("list(%s.values())[0]" % v, mode="eval").body), Norm(None).key(ast.parse("next(iter(%s.values()))" % v, mode="eval").body))
    ctx.check(ok, "select(): the only result, else the first result whose tag is preferred, else an error", detail="ambiguous placeholder result resolved silently / wrong tag chosen",
              expected="if len(value)==1: return its value; for k,v in value.items(): if k in preference: return v; raise", found="", fi=call)
    # phase 2: ks = keys(2) + [k in keys(1) not in table 2]; vs by select over the same table and key, same order
    ev = {}
    for nm in ("ks", "vs"):
        ev[nm] = list_events(sc, nm, key=Norm(None).key)
    K = lambda t: Norm(None).key(ast.parse(t, mode="eval").body)
    g2 = lambda g: [x for x in g if "max_phase" in x[0]]

    def under(evts, phase):
        out = []
        for kind, val, g in evts:
            conds = [(c.replace(" ", ""), p) for c, p in g]
            if ("max_phase==%d" % phase, True) in conds or (phase == 2 and ("max_phase==1", False) in conds and ("max_phase==2", True) in conds):
                out.append((kind, val))
        return out
    k1, v1, k2, v2 = under(ev["ks"], 1), under(ev["vs"], 1), under(ev["ks"], 2), under(ev["vs"], 2)
    ok1 = k1 == [("set", K("list(self[1])"))] and v1 == [("set", K("[select(self[1][e]) for e in ks]"))]
    ctx.check(ok1, "phase 1: every phase-1 key is paired with the selection of its own phase-1 result", detail="key/replacement pairing (phase 1)",
              expected="ks = list(self[1]); vs = [select(self[1][e]) for e in ks]", found="%s / %s" % (k1, v1), fi=call)
    # the override list: phase-1 keys that have no phase-2 result
    kd = [d for d in sc.defs.get("k", []) if d.kind == "assign"]
    okk = len(kd) == 1 and Norm(None).key(kd[0].value) == K("[k for k in self[1].keys() if k not in self[2]]")
    ctx.check(okk, "phase 2 falls back to a phase-1 result only where phase 2 produced none", detail="phase-1 result used although phase 2 resolved the placeholder (or dropped although it did not)",
              expected="k = [k for k in self[1].keys() if k not in self[2]]", found=ast.unparse(kd[0].value) if kd else None, fi=call, sample={"fallback": ast.unparse(kd[0].value) if kd else None})
    kname = "k"
    ok2 = k2 == [("set", K("list(self[2])")), ("extend", K(kname))] and v2 == [("set", K("[select(self[2][e]) for e in ks]")), ("extend", K("[select(self[1][e]) for e in %s]" % kname))]
    ctx.check(ok2, "phase 2: phase-2 keys with phase-2 results first, then the fallback keys with their phase-1 results, in lock-step", detail="key/replacement pairing (phase 2)",
              expected="ks = list(self[2]); vs = [select(self[2][e]) for e in ks]; ks += k; vs += [select(self[1][e]) for e in k]", found="%s / %s" % (k2, v2), fi=call,
              sample={"ks": str(k2), "vs": str(v2)})
    if ok2:
        # order: vs is computed from ks before ks is extended
        order = []
        for st in walk_no_nested(call.node):
            t = None
            if isinstance(st, ast.Assign) and isinstance(st.targets[0], ast.Name) and st.targets[0].id in ("ks", "vs"):
                t = ("set", st.targets[0].id)
            elif isinstance(st, ast.Call) and isinstance(st.func, ast.Attribute) and isinstance(st.func.value, ast.Name) and st.func.value.id in ("ks", "vs") and st.func.attr == "extend":
                t = ("extend", st.func.value.id)
            elif isinstance(st, ast.AugAssign) and isinstance(st.target, ast.Name) and st.target.id in ("ks", "vs"):
                t = ("extend", st.target.id)
            if t and any("max_phase == 2" in ast.unparse(g) and p for g, p in sc.guards(st)):
                order.append(t)
        ctx.check(order.index(("set", "vs")) < order.index(("extend", "ks")), "phase 2: the phase-2 selections are taken before the key list is extended", detail="fallback keys looked up in the phase-2 table",
                  expected="vs = [...for e in ks] before ks += k", found=str(order), fi=call)
    rets = [r for r in walk_no_nested(call.node) if isinstance(r, ast.Return) and is_call_to(r.value, "_replace", "self")]
    ok = len(rets) == 1 and [ast.unparse(a) for a in rets[0].value.args] == [call.params[1], "ks", "vs"] and not sc.guards(rets[0])
    ctx.check(ok, "__call__ substitutes the collected pairs in the given expressions", detail="substitution call", expected="return self._replace(args, ks, vs)", found="; ".join(ast.unparse(r.value) for r in rets), fi=call)
    wr = [r for r in walk_no_nested(call.node) if isinstance(r, ast.Return) and r not in rets]
    ok = len(wr) >= 1 and all(isinstance(r.value, ast.Subscript) and ast.unparse(r.value.slice) == "0" and isinstance(r.value.value, ast.Call) and r.value.value.args
                                and ast.unparse(r.value.value.args[0]) == "[%s]" % call.params[1] for r in wr)
    okkw = all({k.arg: ast.unparse(k.value) for k in r.value.value.keywords} in ({}, {"max_phase": "max_phase", "preference": "preference", "verbose": "verbose"}) for r in wr) if ok else False
    first = wr[0] if wr else None
    okfirst = first is not None and {k.arg for k in first.value.value.keywords} >= {"max_phase", "preference"}
    ctx.check(ok and okkw and okfirst, "a single expression is resolved as a one-element list with the same phase and preference", detail="options dropped for non-list arguments",
              expected="return self([args], max_phase=max_phase, preference=preference, ...)[0]", found="; ".join(ast.unparse(r.value) for r in wr), fi=call)
    # _replace: fixed point
    rp = P.own_method("TranscribedPlaceholders", "_replace")
    scr = ctx.scope(rp)
    a, ks, vs = rp.params[1:4]
    wl = [w for w in walk_no_nested(rp.node) if isinstance(w, ast.While)]
    ok = len(wl) == 1
    if ok:
        w = wl[0]
        nr = ctx.norm(rp)
        ok = nr.key(w.test) == Norm(None).key(ast.parse("depends_on(vvcat(%s), vvcat(%s))" % (a, ks), mode="eval").body)
        body = [st for st in w.body if not isinstance(st, ast.Pass)]
        ok = ok and len(body) == 1 and isinstance(body[0], ast.Assign) and ast.unparse(body[0].targets[0]) == a and Norm(None).key(body[0].value) == Norm(None).key(ast.parse("substitute(%s, %s, %s)" % (a, ks, vs), mode="eval").body)
        fin = [r for r in rp.node.body if isinstance(r, ast.Return)]
        ok = ok and len(fin) == 1 and ast.unparse(fin[0].value) == a and scr.order[fin[0]] > scr.order[w]
    ctx.check(ok, "_replace substitutes until no placeholder is left (nested placeholders)", detail="single substitution pass / wrong termination test", expected="while depends_on(vvcat(args), vvcat(ks)): args = substitute(args, ks, vs); return args",
              found="; ".join(ast.unparse(w.test) for w in wl), fi=rp)
    early = [r for r in walk_no_nested(rp.node) if isinstance(r, ast.Return) and scr.guards(r)]
    ok = all(ast.unparse(r.value) == a and any("DM" in ast.unparse(t) for t, p in scr.guards(r)) for r in early)
    ctx.check(ok, "_replace returns numeric input unchanged", detail="shortcut", expected="if isinstance(vvcat(args), DM): return args", found="; ".join(ast.unparse(r.value) for r in early), fi=rp)


@rule("R05.10", min_instances=1, desc="a method that does not integrate quadratures rejects them: under SplineMethod ocp.integral terms would otherwise read the initial running quadrature 0 (shared with C17)")
def r05_10(ctx):
    from .c17 import check_spline_quadrature
    check_spline_quadrature(ctx)


@rule("R05.11", min_instances=1, desc="the collocation quadrature weights integrate constants exactly: DirectCollocation does not take B from the coefficient routine without checking (or computing) that the weights sum to one")
def r05_11(ctx):
    """casadi.collocation_coeff returns the weights of the interpolatory rule on [0] + tau with the weight of the extra node 0
    dropped; that weight vanishes for every scheme/degree except a single Radau point (B = [0.5]), where every
    ocp.integral and quadrature state is then halved."""
    P = ctx.prog
    f = P.own_method("DirectCollocation", "__init__")
    sc = ctx.scope(f)
    uses_B = any(isinstance(st, ast.Assign) and "self.B" in ast.unparse(st.targets[0]) for st in walk_no_nested(f.node))
    checked = False
    for n_ in walk_no_nested(f.node):
        t = None
        if isinstance(n_, (ast.If, ast.Assert)):
            t = ast.unparse(n_.test)
        if t and "self.B" in t and ("sum" in t) and "1" in t:
            checked = True
    computed = any(isinstance(st, ast.Assign) and ast.unparse(st.targets[0]) == "self.B" and "solve" in ast.unparse(st.value) for st in walk_no_nested(f.node))
    # when the weights of the coefficient routine are kept under a condition, that condition has to bound the deviation of their sum
    # from one on BOTH sides (abs(..) or a two-sided comparison): the single Radau point gives 0.5, i.e. a NEGATIVE excess
    two_sided = True
    tests = []
    for st in walk_no_nested(f.node):
        if isinstance(st, ast.Assign) and ast.unparse(st.targets[0]) == "self.B":
            if isinstance(st.value, ast.IfExp):
                tests.append(st.value.test)
            tests += [t for t, _ in sc.path_guards(st) if "sum" in ast.unparse(t)]
    for t in tests:
        txt = ast.unparse(t)
        if "sum" in txt and not ("abs(" in txt or isinstance(t, ast.BoolOp) or (isinstance(t, ast.Compare) and len(t.ops) > 1)):
            two_sided = False
    ctx.check(two_sided, "DirectCollocation repairs the quadrature weights whenever their sum deviates from one, in either direction", detail="a one-sided test keeps weights that sum to less than one (single Radau point: 0.5, every integral halved)",
              expected="abs(sum(B) - 1) > tol (or a two-sided comparison)", found="; ".join(ast.unparse(t)[:80] for t in tests), fi=f)
    ctx.check(uses_B and (checked or computed), "DirectCollocation quadrature weights sum to one", detail="weights taken from collocation_coeff unchecked: for degree=1, scheme='radau' they are [0.5] and every integral / quadrature state is halved",
              expected="if the weights do not sum to 1: recompute them on the collocation points (moment conditions) or raise", found="no check of sum(self.B)", fi=f)


@rule("R05.12", min_instances=10, desc="the running cost is integrated along with the state: the M sub-steps of an interval are chained state to state and start at t0 + j*DT, the quadrature increments are summed once each (shared with C01: R01.1)")
def r05_12(ctx):
    from .c01 import r01_1
    r01_1(ctx)
